(* C19 - hash table, object stack and variable length object keep their
   abstract contents.  Object stack and VLO: refinement theorems below.
   Hash table: executable faithful model (Containers.v) tied by the
   correspondence run; refinement proof in HashTabProofs.v (see DESIGN.md). *)
From YV Require Import Prelude Generated Containers ContainersProofs.

(* A variable length object holds exactly the bytes appended minus those
   shortened, and its length never exceeds its allocation. *)
Theorem C19_vlo : forall v o, vinv v ->
  vinv (fst (vstep v o)) /\ vdata (fst (vstep v o)) = vspec (vdata v) o /\
  (forall d, snd (vstep v o) = Some d -> d = vdata v).
Proof. exact vlo_refines. Qed.
Print Assumptions C19_vlo.

(* An object stack never moves or alters a finished object; its top object
   holds exactly the bytes appended so far - for every operation sequence. *)
Theorem C19_objstack : forall ps o s, oinv o -> oabs o = Some s ->
  oinv (ofinal o ps) /\ oabs (ofinal o ps) = Some (ospec_run s ps).
Proof. exact ostack_refines_all. Qed.
Print Assumptions C19_objstack.

Theorem C19_objstack_create : forall len, oinv (ocreate len) /\ oabs (ocreate len) = Some ([], []).
Proof. exact ostack_create_abs. Qed.
Print Assumptions C19_objstack_create.

(* every write of the top object stays inside its segment *)
Theorem C19_objstack_in_bounds : forall o bs, oinv o ->
  length (sbytes (cur (oappend o bs))) <= scap (cur (oappend o bs)).
Proof. intros o bs H. now destruct (oappend_keeps o bs H) as (_ & _ & _ & _ & B). Qed.
Print Assumptions C19_objstack_in_bounds.
