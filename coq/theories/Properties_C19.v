(* C19 - hash table, object stack and variable length object keep their
   abstract contents.  Object stack and VLO: refinement theorems below.
   Hash table: refinement to a finite set (HashTabProofs.v).  All three models
   are tied to hashtab.c/.cpp, objstack.c/.cpp, vlobject.c/.cpp by the
   correspondence run (same operation sequences, both implementations). *)
From YV Require Import Prelude Generated GeneratedChecks Containers ContainersProofs HashTabProofs.

(* A hash table created by create_hash_table finds exactly the elements inserted
   and not removed, through any sequence of searches, insertions, removals (of
   present elements, as the C interface requires), emptying and counting -
   across expansions, deleted markers and the re-use of deleted slots. *)
Theorem C19_hashtab : forall sz a m t os rs, create sz a m = Some t -> valid [] os -> hrun t os = Some rs ->
  obs_all os rs (arun [] os).
Proof. exact ht_refines. Qed.
Print Assumptions C19_hashtab.

(* one operation from any state satisfying the invariant (prime size, every
   element reachable from its first probe through non-empty slots, counters) *)
Theorem C19_hashtab_step : forall t S o t' r, Inv t -> R t S -> pre S o -> hstep t o = Some (t', r) ->
  Inv t' /\ R t' (fst (astep S o)) /\ obs_eq o r (snd (astep S o)).
Proof. exact hstep_refines. Qed.
Print Assumptions C19_hashtab_step.

(* the probe loop always terminates and no operation gets stuck (the model
   returns None only if the bounded search for the next prime size gives up) *)
Theorem C19_hashtab_total : forall t S o, Inv t -> R t S -> pre S o ->
  (need_expand (size t) (nel t) = true -> higher_prime (new_size_of (nel t)) <> None) ->
  hstep t o <> None.
Proof. exact hstep_total. Qed.
Print Assumptions C19_hashtab_total.

(* the table size chosen by higher_prime_number is a prime larger than the request *)
Theorem C19_hashtab_prime_size : forall n p, higher_prime n = Some p ->
  Znumtheory.prime (Z.of_nat p) /\ n + 2 <= p /\ 3 <= p.
Proof. exact higher_prime_spec. Qed.
Print Assumptions C19_hashtab_prime_size.

(* hashtab.cpp uses the same expansion test, probe step and new size as hashtab.c
   (expressions regenerated from both sources), so the model above is also its model *)
Theorem C19_hashtab_cpp_same_model : forall size n h,
  ht_need_expand_cpp size n = ht_need_expand_c size n /\ ht_step_cpp size h = ht_step_c size h /\
  ht_new_size_cpp n = ht_new_size_c n.
Proof. intros. repeat split. Qed.
Print Assumptions C19_hashtab_cpp_same_model.

(* A variable length object holds exactly the bytes appended minus those
   shortened, and its length never exceeds its allocation. *)
Theorem C19_vlo : forall v o, vinv v ->
  vinv (fst (vstep v o)) /\ vdata (fst (vstep v o)) = vspec (vdata v) o /\
  (forall d, snd (vstep v o) = Some d -> d = vdata v).
Proof. exact vlo_refines. Qed.
Print Assumptions C19_vlo.

(* An object stack never moves or alters a finished object; its top object
   holds exactly the bytes appended so far - for every operation sequence. *)
Theorem C19_objstack : forall ps o s, oinv o -> oabs o = Some s ->
  oinv (ofinal o ps) /\ oabs (ofinal o ps) = Some (ospec_run s ps).
Proof. exact ostack_refines_all. Qed.
Print Assumptions C19_objstack.

Theorem C19_objstack_create : forall len, oinv (ocreate len) /\ oabs (ocreate len) = Some ([], []).
Proof. exact ostack_create_abs. Qed.
Print Assumptions C19_objstack_create.

(* every write of the top object stays inside its segment *)
Theorem C19_objstack_in_bounds : forall o bs, oinv o ->
  length (sbytes (cur (oappend o bs))) <= scap (cur (oappend o bs)).
Proof. intros o bs H. now destruct (oappend_keeps o bs H) as (_ & _ & _ & _ & B). Qed.
Print Assumptions C19_objstack_in_bounds.

(* the growth expressions regenerated from vlobject.c and objstack.c are the ones of the container models, and the new
   length of a variable length object leaves room for what is about to be added *)
Theorem C19_growth_is_the_models : forall len add : nat,
  vlo_new_len_c (Z.of_nat len) (Z.of_nat add) = Z.of_nat (grow (len + add)) /\
  os_new_seg_c (Z.of_nat len) (Z.of_nat add) (Z.of_nat os_default) =
    Z.of_nat (Nat.max os_default ((len + add) + (len + add) / 2 + 1)).
Proof. intros len add. split; [apply vlo_growth_is_the_models | apply os_growth_is_the_models]. Qed.
Print Assumptions C19_growth_is_the_models.

Theorem C19_vlo_growth_has_room : forall len add, (0 <= len -> 0 <= add -> len + add < vlo_new_len_c len add)%Z.
Proof. exact vlo_growth_has_room. Qed.
Print Assumptions C19_vlo_growth_has_room.
