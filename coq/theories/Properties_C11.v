(* C11 - a textual description defines exactly the grammar its syntax denotes (statements; proofs in DescriptionProofs.v) *)
From YV Require Import Prelude Generated GeneratedChecks Description DescriptionProofs.
Local Open Scope Z_scope.

(* the first implicit code is 256 and the counter is not overwritten before its first use (facts of sgramm.y) *)
Theorem C11_implicit_codes_start : implicit_code_start = 256 /\ implicit_code_clobbered = false.
Proof. vm_compute. auto. Qed.
Print Assumptions C11_implicit_codes_start.

(* "TERM-declared identifiers are terminals with their explicit code or distinct
   free codes from 256 upwards in order of appearance": explicit codes are kept;
   a terminal without code gets a code not below the start value that no
   terminal holds explicitly, and the implicit codes strictly increase in order
   of appearance. *)
Theorem C11_codes_assigned : forall ts used next,
  let out := assign_codes used next ts in
  map fst out = map fst ts /\
  Forall2 (fun t o => if implicit t then next <= snd o /\ ~ In (snd o) used else snd o = snd t) ts out /\
  (forall i j ti tj oi oj, (i < j)%nat -> nth_error ts i = Some ti -> nth_error ts j = Some tj ->
     nth_error out i = Some oi -> nth_error out j = Some oj -> implicit ti = true -> implicit tj = true -> snd oi < snd oj).
Proof. exact assign_codes_spec. Qed.
Print Assumptions C11_codes_assigned.

(* with [used] = the explicit codes of the description (as desc_model passes them): an implicit code
   differs from the code of every other terminal *)
Theorem C11_implicit_codes_fresh : forall ts next,
  let used := flat_map (fun t => if (snd t <? 0)%Z then [] else [snd t]) ts in
  let out := assign_codes used next ts in
  forall i ti oi, nth_error ts i = Some ti -> nth_error out i = Some oi -> implicit ti = true ->
  next <= snd oi /\
  (forall j tj oj, j <> i -> nth_error ts j = Some tj -> nth_error out j = Some oj -> snd oj <> snd oi).
Proof. exact implicit_codes_fresh. Qed.
Print Assumptions C11_implicit_codes_fresh.

(* "a repeated declaration with the same code is harmless": duplicate elimination keeps one entry per
   name - exactly the names that occur, in order of first appearance - and an entry never loses an
   explicit code (a later description without code, or with the same code, changes nothing) *)
Theorem C11_duplicates_eliminated : forall ts seen out, dedupe_terms seen ts = Some out ->
  NoDup (map fst seen) -> NoDup (map fst out) /\ (exists more, map fst out = map fst seen ++ more) /\
  (forall nm, In nm (map fst out) <-> In nm (map fst seen) \/ In nm (map fst ts)).
Proof. exact dedupe_names. Qed.
Print Assumptions C11_duplicates_eliminated.

Theorem C11_explicit_code_kept : forall ts seen out nm c, dedupe_terms seen ts = Some out ->
  In (nm, c) seen -> c <> (-1) -> NoDup (map fst seen) -> In (nm, c) out.
Proof. exact dedupe_keeps_explicit. Qed.
Print Assumptions C11_explicit_code_kept.

(* a character constant is a terminal whose code is the character: the byte between the quotes, 0..255 *)
Theorem C11_character_constant_code : forall c, char_code c = Z.of_nat c.
Proof. intros c. reflexivity. Qed.
Print Assumptions C11_character_constant_code.
