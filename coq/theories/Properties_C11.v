(* C11 - a textual description defines exactly the grammar its syntax denotes (statements; proofs in DescriptionProofs.v) *)
From YV Require Import Prelude Generated GeneratedChecks Description.
Local Open Scope Z_scope.

(* the first implicit code is 256 and the counter is not overwritten before its first use (facts of sgramm.y) *)
Theorem C11_implicit_codes_start : implicit_code_start = 256 /\ implicit_code_clobbered = false.
Proof. vm_compute. auto. Qed.
Print Assumptions C11_implicit_codes_start.
