(* Translate: the documented syntax-directed translation as a specification
   (derivations of height <= n, [level n]), and a table-based enumerator of
   all translations of an input, complete without any height bound:
   when the table is a pre-fixpoint of the one-step operator (a boolean check
   on the finished table) it contains the translations of derivations of
   *every* height. *)
From YV Require Import Prelude EarleySpec Recognizer.

(* ---------- trees ---------- *)
Inductive tree :=
| Nil | Err
| Term (code : Z) (attr : nat)
| Anode (name : nat) (cost : Z) (kids : list tree).

Fixpoint tree_eqb (t1 t2 : tree) {struct t1} : bool :=
  match t1, t2 with
  | Nil, Nil => true
  | Err, Err => true
  | Term c1 a1, Term c2 a2 => Z.eqb c1 c2 && Nat.eqb a1 a2
  | Anode n1 c1 k1, Anode n2 c2 k2 =>
      Nat.eqb n1 n2 && Z.eqb c1 c2 &&
      (fix go (l1 l2 : list tree) {struct l1} : bool :=
         match l1, l2 with
         | [], [] => true
         | x :: l1', y :: l2' => tree_eqb x y && go l1' l2'
         | _, _ => false
         end) k1 k2
  | _, _ => false
  end.

Section TreeInd.
  Variable P : tree -> Prop.
  Hypothesis HNil : P Nil.
  Hypothesis HErr : P Err.
  Hypothesis HTerm : forall c a, P (Term c a).
  Hypothesis HAnode : forall n c ks, Forall P ks -> P (Anode n c ks).
  Fixpoint tree_ind' (t : tree) : P t :=
    match t with
    | Nil => HNil | Err => HErr | Term c a => HTerm c a
    | Anode n c ks =>
        HAnode n c ks ((fix go (l : list tree) : Forall P l :=
                          match l with [] => Forall_nil P | x :: l' => Forall_cons x (tree_ind' x) (go l') end) ks)
    end.
End TreeInd.

Lemma tree_eqb_spec t1 : forall t2, tree_eqb t1 t2 = true <-> t1 = t2.
Proof.
  induction t1 as [| |c a|n c ks IH] using tree_ind'; intros [| |c2 a2|n2 c2 ks2]; simpl;
    try (split; intros H; [discriminate | congruence]); try tauto.
  - rewrite andb_true_iff, Z.eqb_eq, Nat.eqb_eq. split; [intros [-> ->]; auto | intros H; injection H; auto].
  - rewrite !andb_true_iff, Z.eqb_eq, Nat.eqb_eq.
    assert (Hk : forall l2, (fix go (l1 l2 : list tree) {struct l1} : bool :=
         match l1, l2 with
         | [], [] => true
         | x :: l1', y :: l2' => tree_eqb x y && go l1' l2'
         | _, _ => false
         end) ks l2 = true <-> ks = l2).
    { induction IH as [|x l Hx Hl IHl]; intros [|y l2]; split; intros H; try discriminate; auto.
      - apply andb_true_iff in H. destruct H as [H1 H2]. apply Hx in H1. apply IHl in H2. congruence.
      - injection H as -> ->. apply andb_true_iff. split; [now apply Hx | now apply IHl]. }
    rewrite Hk. split; [intros [[-> ->] ->]; auto | intros H; injection H; auto].
Qed.

Definition tree_mem (t : tree) (l : list tree) : bool := memb tree_eqb t l.
Lemma tree_mem_In t l : tree_mem t l = true <-> In t l.
Proof. apply memb_In, tree_eqb_spec. Qed.
Definition dedup (l : list tree) : list tree := add_all tree_eqb l [].
Lemma dedup_In l t : In t (dedup l) <-> In t l.
Proof. unfold dedup. rewrite (add_all_In tree_eqb tree_eqb_spec). simpl. tauto. Qed.
Definition subset (l1 l2 : list tree) : bool := forallb (fun t => tree_mem t l2) l1.
Lemma subset_spec l1 l2 : subset l1 l2 = true <-> forall t, In t l1 -> In t l2.
Proof.
  unfold subset. rewrite forallb_forall. split; intros H t Ht; [apply tree_mem_In | apply tree_mem_In]; auto.
Qed.

(* ---------- grammars with translations ---------- *)
Record trule := { t_lhs : nat; tr_rhs : list symbol;
                  tr_anode : option (nat * Z);      (* abstract node: name, cost *)
                  tr_slots : list (option nat) }.   (* translation element -> rhs index | nil *)
Definition tgrammar := list trule.
Definition strip (r : trule) : rule := {| lhs := t_lhs r; rhs := tr_rhs r |}.

Definition slot_tree (ks : list tree) (s : option nat) : tree :=
  match s with None => Nil | Some k => nth k ks Nil end.

(* The translation of a rule application from the translations of its rhs
   symbols: an abstract node with one child per translation element; without
   abstract node the single selected child is passed through; otherwise nil. *)
Definition build (r : trule) (ks : list tree) : tree :=
  match tr_anode r with
  | Some (nm, c) => Anode nm c (map (slot_tree ks) (tr_slots r))
  | None => match tr_slots r with
            | [Some k] => nth k ks Nil
            | _ => Nil
            end
  end.

Section T.
Variable g : tgrammar.
Variable codes : list Z.     (* terminal number -> code *)
Variable t_err : nat.        (* the terminal `error' *)
Variable w : list nat.       (* input as terminal numbers *)
Variable attrs : list nat.   (* attribute of the token at each position; [] = the position itself *)

Definition leaf (a pos : nat) : tree := if Nat.eqb a t_err then Err else Term (nth a codes 0%Z) (nth pos attrs pos).

Definition pred := nat -> nat -> nat -> tree -> Prop.   (* nonterminal, from, to, translation *)

Definition sym_of (P : pred) (s : symbol) (i j : nat) (t : tree) : Prop :=
  match s with
  | T a => nth_error w i = Some a /\ j = S i /\ t = leaf a i
  | N x => P x i j t
  end.

Inductive rhs_of (P : pred) : list symbol -> nat -> nat -> list tree -> Prop :=
| ro_nil i : rhs_of P [] i i []
| ro_cons s ss i k j t ts : i <= k -> sym_of P s i k t -> rhs_of P ss k j ts ->
                            rhs_of P (s :: ss) i j (t :: ts).

Definition step (P : pred) : pred := fun x i j t =>
  j <= length w /\ exists r ks, In r g /\ t_lhs r = x /\ rhs_of P (tr_rhs r) i j ks /\ t = build r ks.

Fixpoint level (n : nat) : pred :=
  match n with 0 => fun _ _ _ _ => False | S n => step (level n) end.

(* t is a translation of some derivation of w[i..j) from nonterminal x *)
Definition trans_nt (x i j : nat) (t : tree) : Prop := exists n, level n x i j t.

Lemma rhs_of_le P ss i j ts : rhs_of P ss i j ts -> i <= j.
Proof. induction 1; lia. Qed.

Lemma rhs_of_mono (P Q : pred) : (forall x i j t, P x i j t -> Q x i j t) ->
  forall ss i j ts, rhs_of P ss i j ts -> rhs_of Q ss i j ts.
Proof.
  intros H ss i j ts R. induction R as [|s ss i k j t ts Hik Hs R IH]; [constructor 1|].
  apply ro_cons with (k := k); auto.
  destruct s; simpl in *; auto.
Qed.

Lemma step_mono (P Q : pred) : (forall x i j t, P x i j t -> Q x i j t) ->
  forall x i j t, step P x i j t -> step Q x i j t.
Proof.
  intros H x i j t (Hj & r & ks & Hr & Hl & Hrhs & Ht). split; auto. exists r, ks. repeat split; auto.
  eapply rhs_of_mono; eauto.
Qed.

Lemma level_mono n : forall x i j t, level n x i j t -> level (S n) x i j t.
Proof.
  induction n as [|n IH]; intros x i j t H; [contradiction|].
  cbn [level] in *. eapply step_mono; [|exact H]. exact IH.
Qed.

(* Any pre-fixpoint of [step] contains every level. *)
Lemma prefix_contains_levels (P : pred) :
  (forall x i j t, step P x i j t -> P x i j t) ->
  forall n x i j t, level n x i j t -> P x i j t.
Proof.
  intros HP n. induction n as [|n IH]; intros x i j t H; [contradiction|].
  cbn [level] in H. apply HP. eapply step_mono; [|exact H]. exact IH.
Qed.

(* ---------- executable ---------- *)
Definition key := (nat * nat * nat)%type.
Definition key_eqb (k1 k2 : key) : bool :=
  let '(a1, b1, c1) := k1 in let '(a2, b2, c2) := k2 in Nat.eqb a1 a2 && Nat.eqb b1 b2 && Nat.eqb c1 c2.
Lemma key_eqb_spec k1 k2 : key_eqb k1 k2 = true <-> k1 = k2.
Proof.
  destruct k1 as [[a1 b1] c1], k2 as [[a2 b2] c2]; simpl.
  rewrite !andb_true_iff, !Nat.eqb_eq. split; [intros [[-> ->] ->]; auto | intros H; injection H; auto].
Qed.

Definition table := list (key * list tree).
Fixpoint lookup (tb : table) (k : key) : list tree :=
  match tb with
  | [] => []
  | (k', v) :: tb' => if key_eqb k k' then v else lookup tb' k
  end.
Definition mem (tb : table) : pred := fun x i j t => In t (lookup tb (x, i, j)).

Definition es_of (tb : table) (s : symbol) (i j : nat) : list tree :=
  match s with
  | T a => if Nat.eqb j (S i) && match nth_error w i with Some b => Nat.eqb a b | None => false end
           then [leaf a i] else []
  | N x => lookup tb (x, i, j)
  end.

Lemma es_of_spec tb s i j t : In t (es_of tb s i j) <-> sym_of (mem tb) s i j t.
Proof.
  destruct s as [a|x]; simpl; [|tauto].
  destruct (Nat.eqb_spec j (S i)) as [->|Hne]; simpl.
  - destruct (nth_error w i) as [b|] eqn:E.
    + destruct (Nat.eqb_spec a b) as [->|Hab]; simpl.
      * split; [intros [<-|[]]; auto | intros (_ & _ & ->); auto].
      * split; [intros [] | intros (H & _); congruence].
    + split; [intros [] | intros (H & _); discriminate].
  - split; [intros [] | intros (_ & H & _); contradiction].
Qed.

Fixpoint enum_rhs (es : symbol -> nat -> nat -> list tree) (ss : list symbol) (i j : nat) : list (list tree) :=
  match ss with
  | [] => if Nat.eqb i j then [[]] else []
  | s :: ss' =>
      flat_map (fun k => match enum_rhs es ss' k j with
                         | [] => []
                         | rest => flat_map (fun t => map (cons t) rest) (es s i k)
                         end) (seq i (S (j - i)))
  end.

Lemma enum_rhs_spec tb ss : forall i j ts,
  In ts (enum_rhs (es_of tb) ss i j) <-> rhs_of (mem tb) ss i j ts.
Proof.
  induction ss as [|s ss IH]; intros i j ts; cbn [enum_rhs].
  - destruct (Nat.eqb_spec i j) as [->|Hne]; simpl.
    + split; [intros [<-|[]]; constructor | intros H; inversion H; auto].
    + split; [intros [] | intros H; inversion H; contradiction].
  - rewrite in_flat_map. split.
    + intros (k & Hk & H). apply in_seq in Hk.
      destruct (enum_rhs (es_of tb) ss k j) as [|r0 rest] eqn:E; [contradiction|].
      apply in_flat_map in H. destruct H as (t & Ht & H).
      apply in_map_iff in H. destruct H as (ts' & <- & Hts').
      constructor 2 with (k := k); [lia | now apply es_of_spec | apply IH; rewrite E; exact Hts'].
    + intros H. inversion H as [|s' ss' i' k j' t ts' Hik Hs R]; subst.
      assert (Hkj := rhs_of_le _ _ _ _ _ R).
      exists k. split; [apply in_seq; lia|].
      apply IH in R. destruct (enum_rhs (es_of tb) ss k j) as [|r0 rest] eqn:E; [contradiction|].
      apply in_flat_map. exists t. split; [now apply es_of_spec|]. apply in_map. exact R.
Qed.

Definition entry (tb : table) (k : key) : list tree :=
  let '(x, i, j) := k in
  dedup (flat_map (fun r => if Nat.eqb (t_lhs r) x then map (build r) (enum_rhs (es_of tb) (tr_rhs r) i j) else []) g).

Lemma entry_spec tb x i j t : j <= length w ->
  (In t (entry tb (x, i, j)) <-> step (mem tb) x i j t).
Proof.
  intros Hj. unfold entry. rewrite dedup_In, in_flat_map. split.
  - intros (r & Hr & H). destruct (Nat.eqb_spec (t_lhs r) x) as [Hx|]; [|contradiction].
    apply in_map_iff in H. destruct H as (ks & <- & Hks). apply enum_rhs_spec in Hks.
    split; auto. exists r, ks. auto.
  - intros (_ & r & ks & Hr & Hx & Hks & ->). exists r. split; auto.
    rewrite <- Hx, Nat.eqb_refl. apply in_map. now apply enum_rhs_spec.
Qed.

Definition nts : list nat := map t_lhs g.
Definition keys : list key :=
  flat_map (fun x => flat_map (fun i => map (fun j => (x, i, j)) (seq i (S (length w) - i)))
                              (seq 0 (S (length w)))) nts.

Lemma keys_In x i j : In (x, i, j) keys <-> In x nts /\ i <= j /\ j <= length w.
Proof.
  unfold keys. rewrite in_flat_map. split.
  - intros (x' & Hx & H). apply in_flat_map in H. destruct H as (i' & Hi & H).
    apply in_map_iff in H. destruct H as (j' & E & Hj). injection E as -> -> ->.
    apply in_seq in Hi. apply in_seq in Hj. repeat split; auto; lia.
  - intros (Hx & Hij & Hj). exists x. split; auto. apply in_flat_map. exists i. split.
    + apply in_seq. lia.
    + apply in_map_iff. exists j. split; auto. apply in_seq. lia.
Qed.

Definition next_tab (tb : table) : table := map (fun k => (k, entry tb k)) keys.

Lemma lookup_map (f : key -> list tree) (ks : list key) k :
  lookup (map (fun k => (k, f k)) ks) k = if memb key_eqb k ks then f k else [].
Proof.
  induction ks as [|k0 ks IH]; simpl; auto.
  destruct (key_eqb k k0) eqn:E; simpl.
  - apply key_eqb_spec in E. now subst.
  - exact IH.
Qed.

Lemma mem_next_tab tb x i j t : mem (next_tab tb) x i j t <-> step (mem tb) x i j t.
Proof.
  unfold mem at 1, next_tab. rewrite lookup_map.
  destruct (memb key_eqb (x, i, j) keys) eqn:E.
  - apply (memb_In key_eqb key_eqb_spec) in E. apply keys_In in E. apply entry_spec. tauto.
  - split; [intros [] |]. intros (Hj & r & ks & Hr & Hx & Hks & _).
    assert (In (x, i, j) keys).
    { apply keys_In. repeat split; auto.
      - unfold nts. rewrite <- Hx. now apply in_map.
      - eapply rhs_of_le; eauto. }
    apply (memb_In key_eqb key_eqb_spec) in H. congruence.
Qed.

Fixpoint tab (n : nat) : table :=
  match n with 0 => [] | S n => next_tab (tab n) end.

Lemma step_ext (P Q : pred) : (forall x i j t, P x i j t <-> Q x i j t) ->
  forall x i j t, step P x i j t <-> step Q x i j t.
Proof. intros H x i j t; split; apply step_mono; intros; apply H; auto. Qed.

Theorem tab_level n : forall x i j t, mem (tab n) x i j t <-> level n x i j t.
Proof.
  induction n as [|n IH]; intros x i j t.
  - simpl. unfold mem. simpl. tauto.
  - cbn [tab level]. rewrite mem_next_tab. apply step_ext. exact IH.
Qed.

(* pre-fixpoint test: every entry recomputed from tb is already in tb *)
Definition stable (tb : table) : bool := forallb (fun k => subset (entry tb k) (lookup tb k)) keys.

Lemma stable_prefix tb : stable tb = true -> forall x i j t, step (mem tb) x i j t -> mem tb x i j t.
Proof.
  intros H x i j t Hs. unfold stable in H. rewrite forallb_forall in H.
  assert (Hs' := Hs). apply mem_next_tab in Hs'. unfold mem, next_tab in Hs'. rewrite lookup_map in Hs'.
  destruct (memb key_eqb (x, i, j) keys) eqn:E; [|contradiction].
  apply (memb_In key_eqb key_eqb_spec) in E. specialize (H _ E). rewrite subset_spec in H. now apply H.
Qed.

Fixpoint saturate (fuel : nat) (tb : table) : option table :=
  if stable tb then Some tb else
  match fuel with 0 => None | S f => saturate f (next_tab tb) end.

Lemma saturate_tab fuel : forall n tb', saturate fuel (tab n) = Some tb' ->
  exists m, tb' = tab m /\ stable tb' = true.
Proof.
  induction fuel as [|f IH]; intros n tb' H; cbn [saturate] in H.
  - destruct (stable (tab n)) eqn:E; [|discriminate]. injection H as <-. eauto.
  - destruct (stable (tab n)) eqn:E.
    + injection H as <-. eauto.
    + apply (IH (S n)). exact H.
Qed.

Definition all_tables (fuel : nat) : option table := saturate fuel (tab 0).

Theorem all_tables_spec fuel tb : all_tables fuel = Some tb ->
  forall x i j t, mem tb x i j t <-> trans_nt x i j t.
Proof.
  intros H x i j t. destruct (saturate_tab _ 0 _ H) as (m & -> & Hst). split.
  - intros Hm. exists m. now apply tab_level.
  - intros (n & Hn). eapply prefix_contains_levels; [apply stable_prefix; exact Hst | exact Hn].
Qed.

End T.

(* ---------- top level: translations of an input ---------- *)
Definition translation_a (g : tgrammar) (codes : list Z) (t_err start : nat) (w attrs : list nat) (t : tree) : Prop :=
  trans_nt g codes t_err w attrs start 0 (length w) t.
Definition translation g codes t_err start w t := translation_a g codes t_err start w [] t.

Definition all_translations_a (fuel : nat) (g : tgrammar) (codes : list Z) (t_err start : nat) (w attrs : list nat)
  : option (list tree) :=
  match all_tables g codes t_err w attrs fuel with
  | Some tb => Some (lookup tb (start, 0, length w))
  | None => None
  end.

Theorem all_translations_a_spec fuel g codes t_err start w attrs L :
  all_translations_a fuel g codes t_err start w attrs = Some L ->
  forall t, In t L <-> translation_a g codes t_err start w attrs t.
Proof.
  unfold all_translations_a. destruct (all_tables _ _ _ _ _ _) as [tb|] eqn:E; [|discriminate].
  intros H t; injection H as <-. apply (all_tables_spec _ _ _ _ _ _ _ E).
Qed.

Definition all_translations (fuel : nat) (g : tgrammar) (codes : list Z) (t_err start : nat) (w : list nat)
  : option (list tree) :=
  match all_tables g codes t_err w [] fuel with
  | Some tb => Some (lookup tb (start, 0, length w))
  | None => None
  end.

Theorem all_translations_spec fuel g codes t_err start w L :
  all_translations fuel g codes t_err start w = Some L ->
  forall t, In t L <-> translation g codes t_err start w t.
Proof.
  unfold all_translations. destruct (all_tables _ _ _ _ _ _) as [tb|] eqn:E; [|discriminate].
  intros H t; injection H as <-. apply (all_tables_spec _ _ _ _ _ _ _ E).
Qed.

(* cost of a translation: the sum of the costs of its abstract nodes *)
Fixpoint tcost (t : tree) : Z :=
  match t with
  | Anode _ c ks => c + fold_right (fun k acc => tcost k + acc) 0 ks
  | _ => 0
  end%Z.

(* E : E '+' E # plus 1 (0 2) | 'a' # 0  on  a+a+a : two translations *)
Example all_translations_ex :
  let g := [ {| t_lhs := 0; tr_rhs := [N 0; T 1; N 0]; tr_anode := Some (7, 1%Z); tr_slots := [Some 0; Some 2] |};
             {| t_lhs := 0; tr_rhs := [T 0]; tr_anode := None; tr_slots := [Some 0] |} ] in
  option_map (@length tree) (all_translations 20 g [97%Z; 43%Z] 99 0 [0;1;0;1;0]) = Some 2.
Proof. vm_compute. reflexivity. Qed.
