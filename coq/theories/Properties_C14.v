(* C14 - grammar objects are independent of each other and of their own past. *)
From YV Require Import Prelude Generated GeneratedChecks Api Faults.

Theorem C14_objects_independent : forall kps os k,
  let '(os', rs) := mrun os kps in
  let '(ps, out) := project k kps rs in
  run (get os k) ps = (get os' k, out).
Proof. exact objects_independent. Qed.
Print Assumptions C14_objects_independent.

Theorem C14_error_state : forall ps o,
  let '(o', rs) := run o ps in
  length rs = length ps /\ last_err o' = last_failure (last_err o) (combine ps rs).
Proof. exact error_state_contract. Qed.
Print Assumptions C14_error_state.

(* "after all objects and trees are freed the library holds no memory", for the
   working storage of a parse: a parse that is refused (invalid token code,
   undefined grammar) or interrupted leaves none of it acquired - the protocol
   of yaep_parse regenerated from the source passes the check of all raising points. *)
Theorem C14_parse_leaves_no_working_storage : forall raising_point : option nat,
  held (snd (exec parse_prologue parse_handler parse_body parse_flags_volatile raising_point)) = nil.
Proof.
  intros fa. pose proof (protocol_ok_all _ _ _ _ parse_protocol_ok fa) as H. unfold clean in H.
  destruct (held _); [reflexivity | discriminate].
Qed.
Print Assumptions C14_parse_leaves_no_working_storage.

(* a call of yaep_parse that ends in its error handler (a failing memory request, an invalid token) leaves the settings
   of the object as they were: the one setting the library itself assigns during a parse (one_parse_p, cleared while all
   parses are built for the cost flag) is saved before setjmp and written back by the handler *)
Theorem C14_failed_parse_keeps_settings : forall (s locals s' : gsettings),
  (forall f, In f settings_saved_before_setjmp -> locals f = s f) ->
  (forall f, ~ In f settings_changed_during_parse -> s' f = s f) ->
  forall f, after_handler settings_restored_by_handler locals s' f = s f.
Proof.
  intros s locals s'. apply (failed_parse_keeps_settings settings_changed_during_parse settings_saved_before_setjmp).
  exact (proj1 parse_settings_kept).
Qed.
Print Assumptions C14_failed_parse_keeps_settings.
