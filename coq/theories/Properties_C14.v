(* C14 - grammar objects are independent of each other and of their own past. *)
From YV Require Import Prelude Generated GeneratedChecks Api.

Theorem C14_objects_independent : forall kps os k,
  let '(os', rs) := mrun os kps in
  let '(ps, out) := project k kps rs in
  run (get os k) ps = (get os' k, out).
Proof. exact objects_independent. Qed.
Print Assumptions C14_objects_independent.

Theorem C14_error_state : forall ps o,
  let '(o', rs) := run o ps in
  length rs = length ps /\ last_err o' = last_failure (last_err o) (combine ps rs).
Proof. exact error_state_contract. Qed.
Print Assumptions C14_error_state.
