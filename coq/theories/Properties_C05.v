(* C05 - ambiguity flag.  Derivations are the translations of the
   full-information grammar (every rule builds a node naming the rule and
   keeping all children), so counting them is counting translations. *)
From YV Require Import Prelude EarleySpec Recognizer Translate Dag FullInfo.

Theorem C05_enumerator_exact : forall fuel g codes t_err start w L,
  all_translations fuel g codes t_err start w = Some L ->
  forall t, In t L <-> translation g codes t_err start w t.
Proof. exact all_translations_spec. Qed.
Print Assumptions C05_enumerator_exact.

(* The derivation trees of an input are the translations of the full-information
   variant of the grammar (every rule builds a node that names the rule and keeps
   all children; [full] is extracted and used by the oracle).  Two different
   translations of the input come from two different derivation trees - so "the
   flag is set when there are two different translations" never contradicts "the
   flag is set only if there are two derivations" - and every derivation tree is
   translated to a translation. *)
Theorem C05_two_translations_two_derivations : forall g codes t_err start w t1 t2,
  translation g codes t_err start w t1 -> translation g codes t_err start w t2 -> t1 <> t2 ->
  exists d1 d2, translation (full g) codes t_err start w d1 /\ translation (full g) codes t_err start w d2 /\ d1 <> d2.
Proof. exact different_translations_different_derivations. Qed.
Print Assumptions C05_two_translations_two_derivations.

Theorem C05_derivation_trees_are_translated : forall g codes t_err start w d,
  translation (full g) codes t_err start w d -> translation g codes t_err start w (proj g d).
Proof. exact derivation_has_translation. Qed.
Print Assumptions C05_derivation_trees_are_translated.
