(* C05 - ambiguity flag.  Derivations are the translations of the
   full-information grammar (every rule builds a node naming the rule and
   keeping all children), so counting them is counting translations. *)
From YV Require Import Prelude EarleySpec Recognizer Translate Dag.

Theorem C05_enumerator_exact : forall fuel g codes t_err start w L,
  all_translations fuel g codes t_err start w = Some L ->
  forall t, In t L <-> translation g codes t_err start w t.
Proof. exact all_translations_spec. Qed.
Print Assumptions C05_enumerator_exact.
