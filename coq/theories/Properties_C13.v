(* C13 - caller owns tree memory (statements; the model of yaep_free_tree is in TreeMem.v) *)
From YV Require Import Prelude Translate Dag.

Theorem C13_acyclic_paths_bounded : forall st, acyclic_b st = true ->
  forall id l, id < length st -> path st id l -> length l <= length st.
Proof. exact acyclic_b_spec. Qed.
Print Assumptions C13_acyclic_paths_bounded.
