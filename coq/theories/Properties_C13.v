(* C13 - caller owns tree memory (statements; the model of yaep_free_tree is in TreeMem.v) *)
From YV Require Import Prelude Translate Dag TreeMem PruneMem.

Theorem C13_acyclic_paths_bounded : forall st, acyclic_b st = true ->
  forall id l, id < length st -> path st id l -> length l <= length st.
Proof. exact acyclic_b_spec. Qed.
Print Assumptions C13_acyclic_paths_bounded.

(* yaep_free_tree (free_tree_reduce followed by free_tree_sweep) on the DAG of a
   parse: every node reachable from the root is passed to parse_free exactly
   once and nothing else is; the terminal callback is called exactly once for
   every reachable TERM node; every name of a reachable abstract node is passed
   to parse_free exactly once. *)
Theorem C13_free_tree : forall st fuel root t s',
  reduce st fuel root {| vis := []; names := [] |} = Some (t, s') ->
  let log := sweep t in
  NoDup (frees log) /\ (forall n, In n (frees log) <-> reach st root n) /\
  NoDup (termcbs log) /\ (forall n, In n (termcbs log) <-> reach st root n /\ is_term st n = true) /\
  NoDup (namefrees log) /\ (forall nm, In nm (namefrees log) <-> exists n, reach st root n /\ name_of st n = Some nm).
Proof. exact free_tree_correct. Qed.
Print Assumptions C13_free_tree.

(* the nodes discarded by minimal cost pruning (find_minimal_translation): whatever the visit log V (repetitions, any
   order), with R the nodes and RN the names of the pruned result, a node is passed to parse_free iff it is logged and
   not in the result, a name iff an abstract node carrying it is freed and no node of the result carries it - each at
   most once *)
Theorem C13_pruning_frees_nodes : forall name_of R RN V,
  NoDup (fnodes (psweep name_of R RN V)) /\
  forall v, In v (fnodes (psweep name_of R RN V)) <-> In v V /\ ~ In v R.
Proof. exact freed_nodes. Qed.
Print Assumptions C13_pruning_frees_nodes.

Theorem C13_pruning_frees_names : forall name_of R RN V,
  NoDup (fnames (psweep name_of R RN V)) /\
  forall nm, In nm (fnames (psweep name_of R RN V)) <->
             (exists v, In v V /\ ~ In v R /\ name_of v = Some nm) /\ ~ In nm RN.
Proof. exact freed_names. Qed.
Print Assumptions C13_pruning_frees_names.

Theorem C13_pruning_no_leak : forall name_of R RN V blocks, incl blocks V ->
  forall v, In v blocks ->
    (In v R /\ ~ In v (fnodes (psweep name_of R RN V))) \/ (~ In v R /\ In v (fnodes (psweep name_of R RN V))).
Proof. exact every_block_kept_or_freed. Qed.
Print Assumptions C13_pruning_no_leak.
