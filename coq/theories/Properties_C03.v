(* C03 - the all-parses DAG denotes exactly the set of translations. *)
From YV Require Import Prelude EarleySpec Recognizer Translate Dag.

Theorem C03_enumerator_exact : forall fuel g codes t_err start w L,
  all_translations fuel g codes t_err start w = Some L ->
  forall t, In t L <-> translation g codes t_err start w t.
Proof. exact all_translations_spec. Qed.
Print Assumptions C03_enumerator_exact.

Theorem C03_denotation_exact : forall st root L,
  denote st root = Some L -> forall t, In t L <-> denotes st root t.
Proof. exact denote_spec. Qed.
Print Assumptions C03_denotation_exact.

Theorem C03_acyclic_decider : forall st, acyclic_b st = true ->
  forall id l, id < length st -> path st id l -> length l <= length st.
Proof. exact acyclic_b_spec. Qed.
Print Assumptions C03_acyclic_decider.
