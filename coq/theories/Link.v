(* Link: the grammar of the definition model (ReadGrammar: one name space, [is_term] tells terminals) as a grammar of the
   recognition theory (EarleySpec: T / N), and the flags of the definition model in the terms of that theory:
   [gen] (ReadGrammarSem) is derivability of a terminal string; a grammar that yaep_read_grammar accepts under strict
   checking is [Viable.productive] - the hypothesis under which "the first token that cannot be shifted" is "the first
   token no sentence continues with" (C06_first_offending_token). *)
From YV Require Import Prelude EarleySpec Viable Generated ReadGrammar ReadGrammarProofs ReadGrammarSem.

Section L.
Variable terms : list (nat * Z).
Variable rules : list rrule.

Definition conv (s : nat) : symbol := if is_term terms s then T s else N s.
Definition crule (r : nat * list nat) : rule := {| lhs := fst r; rhs := map conv (snd r) |}.
Definition cg : grammar := map crule (arules rules).

Lemma conv_T s a : conv s = T a -> is_term terms s = true /\ a = s.
Proof. unfold conv. destruct (is_term terms s); intros H; inversion H; auto. Qed.
Lemma conv_N s x : conv s = N x -> is_term terms s = false /\ x = s.
Proof. unfold conv. destruct (is_term terms s); intros H; inversion H; auto. Qed.

(* a list of symbols can be rewritten to terminals iff it derives a terminal string *)
Theorem gen_derives l : gen (arules rules) (is_term terms) l <-> exists w, derives cg (map conv l) w.
Proof.
  split.
  - intros H. induction H as [|s l Hs _ (w & Hw)|s rhs0 l Hin _ (w1 & Hw1) _ (w2 & Hw2)].
    + exists []. constructor.
    + simpl. unfold conv at 1. rewrite Hs. exists (s :: w). constructor. exact Hw.
    + simpl. unfold conv at 1. destruct (is_term terms s) eqn:Es.
      * exists (s :: w2). constructor. exact Hw2.
      * exists (w1 ++ w2). change (N s) with (N (lhs (crule (s, rhs0)))).
        econstructor; [| exact Hw1 | exact Hw2]. unfold cg. apply in_map. exact Hin.
  - intros (w & H). remember (map conv l) as al eqn:E. revert l E.
    induction H as [|a al w H IH|r al w1 w2 Hr H1 IH1 H2 IH2]; intros l E.
    + destruct l; [constructor | discriminate].
    + destruct l as [|s l]; [discriminate|]. simpl in E. injection E as E1 E2.
      symmetry in E1. apply conv_T in E1. destruct E1 as [Es _].
      apply gen_B; auto.
    + destruct l as [|s l]; [discriminate|]. simpl in E. injection E as E1 E2.
      symmetry in E1. apply conv_N in E1. destruct E1 as [Es Ex].
      unfold cg in Hr. apply in_map_iff in Hr. destruct Hr as ([x rhs0] & <- & Hin). simpl in *. subst x.
      eapply gen_R; [exact Hin | apply IH1; reflexivity | apply IH2; exact E2].
Qed.

(* a list of symbols can be rewritten to nothing iff it derives the empty string (no rule for a terminal) *)
Theorem gen_nil_derives : (forall s rhs0, In (s, rhs0) (arules rules) -> is_term terms s = false) ->
  forall l, gen (arules rules) (fun _ => false) l <-> derives cg (map conv l) [].
Proof.
  intros Hlhs l. split.
  - intros H. induction H as [|s l Hs _ _|s rhs0 l Hin _ Hw1 _ Hw2].
    + constructor.
    + discriminate.
    + simpl. unfold conv at 1. rewrite (Hlhs _ _ Hin).
      change (@nil nat) with (@nil nat ++ @nil nat). change (N s) with (N (lhs (crule (s, rhs0)))).
      econstructor; [| exact Hw1 | exact Hw2]. unfold cg. apply in_map. exact Hin.
  - intros H. remember (map conv l) as al eqn:E. remember (@nil nat) as w eqn:Ew. revert l E Ew.
    induction H as [|a al w H IH|r al w1 w2 Hr H1 IH1 H2 IH2]; intros l E Ew.
    + destruct l; [constructor | discriminate].
    + discriminate.
    + destruct l as [|s l]; [discriminate|]. simpl in E. injection E as E1 E2.
      symmetry in E1. apply conv_N in E1. destruct E1 as [Es Ex].
      apply app_eq_nil in Ew. destruct Ew as [-> ->].
      unfold cg in Hr. apply in_map_iff in Hr. destruct Hr as ([x rhs0] & <- & Hin). simpl in *. subst x.
      eapply gen_R; [exact Hin | apply IH1; reflexivity | apply IH2; auto].
Qed.

(* ---------- the nonterminals the checks run over ---------- *)
Lemma dedupe_fold_in : forall l acc x,
  In x (fold_left (fun acc s => if existsb (Nat.eqb s) acc then acc else acc ++ [s]) l acc) <-> In x acc \/ In x l.
Proof.
  induction l as [|s l IH]; intros acc x; simpl.
  - tauto.
  - rewrite IH. destruct (existsb (Nat.eqb s) acc) eqn:E.
    + apply existsb_exists in E. destruct E as (y & Hy & Ey). apply Nat.eqb_eq in Ey. subst y.
      split; [intros [H|H]; auto | intros [H|[<-|H]]; auto].
    + rewrite in_app_iff. simpl. tauto.
Qed.

Lemma nonterms_in x : In x (nonterms terms rules) <->
  x = n_axiom \/ (In x (flat_map (fun r => r_lhs r :: r_rhs r) rules) /\ is_term terms x = false).
Proof.
  unfold nonterms. rewrite dedupe_fold_in. simpl.
  set (nt := filter (fun s => negb (is_term terms s)) (flat_map (fun r => r_lhs r :: r_rhs r) rules)).
  assert (Hnt : forall y, In y nt <-> In y (flat_map (fun r => r_lhs r :: r_rhs r) rules) /\ is_term terms y = false).
  { intros y. unfold nt. rewrite filter_In. rewrite negb_true_iff. tauto. }
  destruct nt as [|s rest] eqn:En.
  - simpl. split.
    + intros [[]|[<-|[]]]. left. reflexivity.
    + intros [->|H]; [right; left; reflexivity | apply Hnt in H; contradiction].
  - split.
    + intros [[]|[<-|[<-|H]]].
      * right. apply Hnt. left. reflexivity.
      * left. reflexivity.
      * right. apply Hnt. right. exact H.
    + intros [->|H]; [right; right; left; reflexivity|].
      apply Hnt in H. destruct H as [<-|H]; [right; left; reflexivity | right; right; right; exact H].
Qed.

(* a grammar accepted under strict checking is productive in the sense of Viable.v *)
Theorem strict_accepted_is_productive : read_model true terms rules = 0%Z -> Viable.productive cg.
Proof.
  intros H. apply ok_iff_well_formed in H. unfold well_formed_b in H. rewrite forallb_forall in H.
  assert (H15 : defect_b true terms rules 15 = false).
  { apply negb_true_iff. apply H. simpl. tauto. }
  assert (H9 : defect_b true terms rules 9 = false).
  { apply negb_true_iff. apply H. simpl. tauto. }
  unfold defect_b in H15, H9. simpl in H15, H9.
  rewrite existsb_false_iff in H15. rewrite existsb_false_iff in H9.
  intros r x Hr Hx. unfold cg in Hr. apply in_map_iff in Hr. destruct Hr as ([l rhs0] & <- & Hin). simpl in Hx.
  apply in_map_iff in Hx. destruct Hx as (s & Hs & Hin2). apply conv_N in Hs. destruct Hs as [Es ->].
  assert (Hnt : In s (nonterms terms rules)).
  { apply nonterms_in. unfold arules in Hin. destruct Hin as [E|Hin].
    - injection E as <- <-. destruct Hin2 as [<-|[<-|[]]].
      + (* the start symbol *)
        destruct rules as [|r0 rs]; [left; reflexivity|]. right. split; [|exact Es]. simpl. left. reflexivity.
      + unfold is_term in Es. rewrite Nat.eqb_refl, !orb_true_r in Es. discriminate.
    - apply in_app_or in Hin. destruct Hin as [Hin|Hin].
      + apply in_map_iff in Hin. destruct Hin as (r0 & E & Hr0). injection E as <- <-.
        right. split; [|exact Es]. apply in_flat_map. exists r0. split; auto. right. exact Hin2.
      + destruct (has_error_rule rules); [contradiction|]. destruct Hin as [E|[]]. injection E as <- <-.
        destruct Hin2 as [<-|[<-|[]]]; unfold is_term in Es; rewrite Nat.eqb_refl, ?orb_true_r in Es; discriminate. }
  specialize (H15 _ Hnt). apply negb_false_iff in H15.
  apply (productive_spec terms rules) in H15. destruct H15 as (rhs1 & Hin1 & Hg).
  apply gen_derives in Hg. destruct Hg as (w & Hw). exists w.
  apply derives_single_N. exists (crule (s, rhs1)). split; [unfold cg; apply in_map; exact Hin1|]. split; auto.
Qed.

End L.

Section L2.
Variable terms : list (nat * Z).
Variable rules : list rrule.
Notation cg' := (cg terms rules).
Notation conv' := (conv terms).
Hypothesis no_rule_for_a_terminal : forall s rhs0, In (s, rhs0) (arules rules) -> is_term terms s = false.

Lemma map_conv_split l al x be : map conv' l = al ++ N x :: be ->
  exists l1 l2, l = l1 ++ x :: l2 /\ al = map conv' l1 /\ be = map conv' l2 /\ is_term terms x = false.
Proof.
  revert al. induction l as [|s l IH]; intros al E.
  - destruct al; discriminate.
  - destruct al as [|a al]; simpl in E.
    + injection E as E1 E2. apply conv_N in E1. destruct E1 as [Es ->].
      exists [], l. repeat split; auto.
    + injection E as E1 E2. destruct (IH _ E2) as (l1 & l2 & -> & -> & -> & Ht).
      exists (s :: l1), l2. repeat split; auto. simpl. now rewrite E1.
Qed.

(* "accessible" in the definition model is top-down reachability in the recognition theory (in a productive grammar:
   the symbols to the left of the occurrence must derive something) *)
Theorem reachable_reach : Viable.productive cg' -> is_term terms n_axiom = false -> forall x, is_term terms x = false ->
  (ReadGrammarSem.reachable (arules rules) n_axiom x <-> exists p, reach cg' n_axiom p x).
Proof.
  intros HP Hax x Hx. split.
  - intros H. revert Hx. induction H as [|y rhs0 x Hy IH Hin Hx']; intros Hx.
    + exists []. constructor.
    + destruct (IH (no_rule_for_a_terminal _ _ Hin)) as (p1 & Hp1).
      apply in_split in Hx'. destruct Hx' as (l1 & l2 & ->).
      assert (Hr : In (crule terms (y, l1 ++ x :: l2)) cg') by (unfold cg; apply in_map; exact Hin).
      destruct (productive_form cg' HP _ Hr (map conv' l1)) as (p2 & Hp2).
      { simpl. rewrite map_app. intros s Hs. apply in_or_app. left. exact Hs. }
      exists (p1 ++ p2). eapply r_step with (r := crule terms (y, l1 ++ x :: l2)) (al := map conv' l1) (be := map conv' l2); eauto.
      simpl. rewrite map_app. simpl. unfold conv at 2. rewrite Hx. reflexivity.
  - intros (p & H). clear Hx. induction H as [|p1 p2 r al x be Hre IH Hr Hrhs Hal].
    + constructor.
    + unfold cg in Hr. apply in_map_iff in Hr. destruct Hr as ([y rhs0] & <- & Hin). simpl in *.
      destruct (map_conv_split _ _ _ _ Hrhs) as (l1 & l2 & -> & _ & _ & _).
      eapply rf_step; [exact IH | exact Hin | apply in_or_app; right; left; reflexivity].
Qed.
End L2.

(* a grammar accepted under strict checking is reduced: every nonterminal of its rules derives a terminal string and is
   reached from the axiom (both in the sense of the recognition theory) *)
Theorem strict_accepted_is_reduced terms rules : read_model true terms rules = 0%Z ->
  Viable.productive (cg terms rules) /\
  forall x, In x (nonterms terms rules) -> exists p, reach (cg terms rules) n_axiom p x.
Proof.
  intros H. pose proof (strict_accepted_is_productive terms rules H) as HP. split; [exact HP|].
  apply ok_iff_well_formed in H. unfold well_formed_b in H. rewrite forallb_forall in H.
  assert (D : forall c, In c [4; 5; 6; 7; 8; 9; 10; 11; 12; 13; 14; 15; 16]%Z -> defect_b true terms rules c = false).
  { intros c Hc. apply negb_true_iff. apply H. exact Hc. }
  assert (H4 := D 4%Z). assert (H9 := D 9%Z). assert (H14 := D 14%Z).
  unfold defect_b in H4, H9, H14. simpl in H4, H9, H14.
  specialize (H4 ltac:(tauto)). specialize (H9 ltac:(tauto)). specialize (H14 ltac:(tauto)).
  apply orb_false_iff in H4. destruct H4 as [H4 H4r]. apply orb_false_iff in H4. destruct H4 as [H4 _].
  apply orb_false_iff in H4. destruct H4 as [_ H4a].
  assert (Hax : is_term terms n_axiom = false).
  { unfold is_term. rewrite H4a. reflexivity. }
  rewrite existsb_false_iff in H9. rewrite existsb_false_iff in H14.
  assert (Hlhs : forall s rhs0, In (s, rhs0) (arules rules) -> is_term terms s = false).
  { intros s rhs0 Hin. unfold arules in Hin. destruct Hin as [E|Hin]; [injection E as <- _; exact Hax|].
    apply in_app_or in Hin. destruct Hin as [Hin|Hin].
    - apply in_map_iff in Hin. destruct Hin as (r0 & E & Hr0). injection E as <- _. apply H9. exact Hr0.
    - destruct (has_error_rule rules); [contradiction|]. destruct Hin as [E|[]]. injection E as <- _. exact Hax. }
  intros x Hx. specialize (H14 _ Hx). apply negb_false_iff in H14.
  apply (reachable_spec rules) in H14.
  assert (Hxt : is_term terms x = false).
  { apply nonterms_in in Hx. destruct Hx as [->|[_ Hx]]; auto. }
  apply (reachable_reach terms rules Hlhs HP Hax x Hxt). exact H14.
Qed.
