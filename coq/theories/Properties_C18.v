(* C18 - parsing work grows near-linearly on deterministic grammars.
   Proved: the growth policy of the hash tables (expressions regenerated from
   hashtab.c / hashtab.cpp) is geometric - after an expansion at n elements the
   next one needs about 1.5 n elements - hence the total re-insertion work is
   linear; and an unexpanded table always has room, so probe sequences end.
   The linearity of the counters themselves on the listed grammar families is
   a measurement (partial, see DESIGN.md). *)
From YV Require Import Prelude Generated GeneratedChecks.
Local Open Scope Z_scope.

Theorem C18_expansion_geometric : forall n size m, 0 <= n -> 0 <= m -> 2 * n < size ->
  ht_need_expand_c size m = true -> 3 * n <= 2 * m + 6.
Proof. exact expansion_geometric. Qed.
Print Assumptions C18_expansion_geometric.

Theorem C18_expansion_geometric_cpp : forall n size m, 0 <= n -> 0 <= m -> 2 * n < size ->
  ht_need_expand_cpp size m = true -> 3 * n <= 2 * m + 6.
Proof. exact expansion_geometric_cpp. Qed.
Print Assumptions C18_expansion_geometric_cpp.

Theorem C18_new_size_doubles : forall n, ht_new_size_c n = 2 * n /\ ht_new_size_cpp n = 2 * n.
Proof. exact new_size_doubles. Qed.
Print Assumptions C18_new_size_doubles.

Theorem C18_unexpanded_table_has_room : forall size m, 0 < size -> 0 <= m -> ht_need_expand_c size m = false -> m + 1 < size.
Proof. exact no_expand_has_room. Qed.
Print Assumptions C18_unexpanded_table_has_room.

(* the hashes remembered in set cores and sets are not narrower than the results of the hash functions (a narrower
   member makes the set tables degrade on long inputs) *)
Theorem C18_remembered_hashes_keep_all_bits : set_hash_members_are_unsigned_int = true.
Proof. reflexivity. Qed.
Print Assumptions C18_remembered_hashes_keep_all_bits.
