(* C17 - allocation failure is reported as YAEP_NO_MEMORY (statements; the unwinding protocol model is in Faults.v) *)
From YV Require Import Prelude Generated GeneratedChecks Faults.
Local Open Scope Z_scope.

Theorem C17_no_memory_code : YAEP_NO_MEMORY = 1.
Proof. reflexivity. Qed.
Print Assumptions C17_no_memory_code.

Local Close Scope Z_scope.
(* The unwinding protocol of yaep_parse as it stands in the source (regenerated):
   whichever call after the installation of the handler raises - a failing
   memory request or a reported error - the handler releases exactly the working
   storage that had been acquired: nothing that was not acquired (no invalid
   memory is touched), nothing twice, and nothing stays acquired. *)
Theorem C17_parse_unwinding : forall raising_point : option nat,
  clean (snd (exec parse_prologue parse_handler parse_body parse_flags_volatile raising_point)) = true.
Proof. exact (protocol_ok_all _ _ _ _ parse_protocol_ok). Qed.
Print Assumptions C17_parse_unwinding.

(* the flags the handler reads are volatile, and nothing that allocates runs before the handler is installed *)
Theorem C17_parse_handler_preconditions : parse_flags_volatile = true /\ parse_prologue_allocating_calls = nil.
Proof. split; [exact parse_flags_are_volatile | exact parse_prologue_does_not_allocate]. Qed.
Print Assumptions C17_parse_handler_preconditions.

(* the general statement: a protocol that passes the finite check is clean for every raising point *)
Theorem C17_protocol_check_is_exhaustive : forall pre hnd body vol, protocol_ok pre hnd body vol = true ->
  forall fa, clean (snd (exec pre hnd body vol fa)) = true.
Proof. exact protocol_ok_all. Qed.
Print Assumptions C17_protocol_check_is_exhaustive.
