(* C17 - allocation failure is reported as YAEP_NO_MEMORY (statements; the unwinding protocol model is in Faults.v) *)
From YV Require Import Prelude Generated GeneratedChecks.
Local Open Scope Z_scope.

Theorem C17_no_memory_code : YAEP_NO_MEMORY = 1.
Proof. reflexivity. Qed.
Print Assumptions C17_no_memory_code.
