(* C12 - no crash, hang or undefined behaviour.  What is proved: the error
   message fits its buffer however long the symbol names are (the formatting
   primitive and its bound are facts regenerated from yaep_error); the lexer
   model rejects every number that does not fit an int; memory safety of the
   C code itself is observed through the sanitizer-instrumented correspondence
   runs (partial, see DESIGN.md). *)
From YV Require Import Prelude Generated GeneratedChecks Messages Description.
Local Open Scope Z_scope.

Theorem C12_message_fits : forall text,
  Z.of_nat (length (render msg_bounded_by text)) + 1 <= MAX_ERROR_MESSAGE_LENGTH + 1.
Proof. exact message_fits. Qed.
Print Assumptions C12_message_fits.

Theorem C12_source_uses_bounded_formatting : exists b, msg_bounded_by = Some b /\ 0 < b <= MAX_ERROR_MESSAGE_LENGTH + 1.
Proof. exact message_bounded. Qed.
Print Assumptions C12_source_uses_bounded_formatting.

Theorem C12_unbounded_would_overflow :
  exists text, Z.of_nat (length (render None text)) + 1 > MAX_ERROR_MESSAGE_LENGTH + 1.
Proof. exact unbounded_primitive_overflows. Qed.
Print Assumptions C12_unbounded_would_overflow.
