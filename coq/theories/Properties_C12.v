(* C12 - no crash, hang or undefined behaviour.  What is proved: the error
   message fits its buffer however long the symbol names are (the formatting
   primitive and its bound are facts regenerated from yaep_error); the lexer
   model rejects every number that does not fit an int; memory safety of the
   C code itself is observed through the sanitizer-instrumented correspondence
   runs (partial, see DESIGN.md). *)
From YV Require Import Prelude Generated GeneratedChecks Messages Description.
Local Open Scope Z_scope.

Theorem C12_message_fits : forall text,
  Z.of_nat (length (render msg_bounded_by text)) + 1 <= MAX_ERROR_MESSAGE_LENGTH + 1.
Proof. exact message_fits. Qed.
Print Assumptions C12_message_fits.

Theorem C12_source_uses_bounded_formatting : exists b, msg_bounded_by = Some b /\ 0 < b <= MAX_ERROR_MESSAGE_LENGTH + 1.
Proof. exact message_bounded. Qed.
Print Assumptions C12_source_uses_bounded_formatting.

Theorem C12_unbounded_would_overflow :
  exists text, Z.of_nat (length (render None text)) + 1 > MAX_ERROR_MESSAGE_LENGTH + 1.
Proof. exact unbounded_primitive_overflows. Qed.
Print Assumptions C12_unbounded_would_overflow.

(* facts of the source that keep repaired defects repaired: a terminal set is entered into the grammar's hash table only
   after the (failable) addition to the vector; the dot position of a situation is an int; the cost sums of minimal cost
   pruning saturate and the visit mark is the complement (no negation that can overflow) *)
Theorem C12_source_robustness_facts :
  term_set_entered_after_vector_add = true /\ sit_pos_is_int = true /\ prune_sum_saturates = true /\ visit_mark_is_complement = true.
Proof. repeat split; reflexivity. Qed.
Print Assumptions C12_source_robustness_facts.

(* 32-bit int: the saturating sum stays in range and is exact whenever the exact sum is representable; the complement
   mark of a cost 0..INT_MAX is negative, in range, and undone by a second complement - whereas undoing the mark -c-1 by
   negation leaves the range for c = INT_MAX *)
Definition INT_MAX : Z := 2147483647.
Definition sat_add (a b : Z) : Z := if a >? INT_MAX - b then INT_MAX else a + b.
Theorem C12_saturating_sum : forall a b, 0 <= a <= INT_MAX -> 0 <= b <= INT_MAX ->
  0 <= sat_add a b <= INT_MAX /\ (a + b <= INT_MAX -> sat_add a b = a + b).
Proof.
  intros a b Ha Hb. unfold sat_add. destruct (Z.gtb_spec a (INT_MAX - b)); split; try lia.
Qed.
Print Assumptions C12_saturating_sum.

Theorem C12_complement_mark : forall c, 0 <= c <= INT_MAX ->
  - INT_MAX - 1 <= Z.lnot c < 0 /\ Z.lnot (Z.lnot c) = c.
Proof. intros c Hc. rewrite Z.lnot_involutive. unfold Z.lnot, Z.pred. split; [lia | reflexivity]. Qed.
Print Assumptions C12_complement_mark.

Theorem C12_negation_mark_overflows : exists c, 0 <= c <= INT_MAX /\ - (- c - 1) > INT_MAX.
Proof. exists INT_MAX. unfold INT_MAX. lia. Qed.
Print Assumptions C12_negation_mark_overflows.
