(* C15 - error state, token validation and setters. *)
From YV Require Import Prelude Generated GeneratedChecks Api Faults.
Local Open Scope Z_scope.

Theorem C15_setters : forall o i x, (i < 6)%nat -> length (settings o) = 6%nat ->
  let '(o', r) := step o (OSet i x) in
  r = nth i (settings o) 0 /\ nth i (settings o') 0 = setter_store i x /\
  (forall j, j <> i -> nth j (settings o') 0 = nth j (settings o) 0) /\
  defined o' = defined o /\ last_err o' = last_err o /\ length (settings o') = 6%nat.
Proof. exact setter_contract. Qed.
Print Assumptions C15_setters.

Theorem C15_source_setters_return_previous :
  forallb (fun b => b) setter_returns_old = true /\ length setter_returns_old = 6%nat.
Proof. exact setters_return_old. Qed.
Print Assumptions C15_source_setters_return_previous.

Theorem C15_source_stored_values : forall x,
  setter_store_0 x = Z.max 0 (Z.min 2 x) /\
  setter_store_1 x = x /\ setter_store_2 x = x /\ setter_store_3 x = x /\ setter_store_4 x = x /\ setter_store_5 x = x.
Proof. intros x. split; [apply clamp_ok | apply plain_setters_store]. Qed.
Print Assumptions C15_source_stored_values.

Theorem C15_new_object :
  settings new_obj = [1; 0; 1; 0; 1; 3] /\ defined new_obj = None /\ last_err new_obj = 0.
Proof. exact new_object_contract. Qed.
Print Assumptions C15_new_object.

Theorem C15_error_state : forall ps o,
  let '(o', rs) := run o ps in
  length rs = length ps /\ last_err o' = last_failure (last_err o) (combine ps rs).
Proof. exact error_state_contract. Qed.
Print Assumptions C15_error_state.

Theorem C15_parse_codes : forall o na inv,
  snd (step o (OParse na inv)) =
    if na then YAEP_NO_MEMORY
    else match defined o with None => YAEP_UNDEFINED_OR_BAD_GRAMMAR
                            | Some _ => if inv then YAEP_INVALID_TOKEN_CODE else 0 end.
Proof. reflexivity. Qed.
Print Assumptions C15_parse_codes.

(* a call of yaep_parse that ends in its error handler (a failing memory request, an invalid token) leaves the settings
   of the object as they were: the one setting the library itself assigns during a parse (one_parse_p, cleared while all
   parses are built for the cost flag) is saved before setjmp and written back by the handler *)
Theorem C15_failed_parse_keeps_settings : forall (s locals s' : gsettings),
  (forall f, In f settings_saved_before_setjmp -> locals f = s f) ->
  (forall f, ~ In f settings_changed_during_parse -> s' f = s f) ->
  forall f, after_handler settings_restored_by_handler locals s' f = s f.
Proof.
  intros s locals s'. apply (failed_parse_keeps_settings settings_changed_during_parse settings_saved_before_setjmp).
  exact (proj1 parse_settings_kept).
Qed.
Print Assumptions C15_failed_parse_keeps_settings.
