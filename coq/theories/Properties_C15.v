(* C15 - error state, token validation and setters. *)
From YV Require Import Prelude Generated GeneratedChecks Api.
Local Open Scope Z_scope.

Theorem C15_setters : forall o i x, (i < 6)%nat -> length (settings o) = 6%nat ->
  let '(o', r) := step o (OSet i x) in
  r = nth i (settings o) 0 /\ nth i (settings o') 0 = setter_store i x /\
  (forall j, j <> i -> nth j (settings o') 0 = nth j (settings o) 0) /\
  defined o' = defined o /\ last_err o' = last_err o /\ length (settings o') = 6%nat.
Proof. exact setter_contract. Qed.
Print Assumptions C15_setters.

Theorem C15_source_setters_return_previous :
  forallb (fun b => b) setter_returns_old = true /\ length setter_returns_old = 6%nat.
Proof. exact setters_return_old. Qed.
Print Assumptions C15_source_setters_return_previous.

Theorem C15_source_stored_values : forall x,
  setter_store_0 x = Z.max 0 (Z.min 2 x) /\
  setter_store_1 x = x /\ setter_store_2 x = x /\ setter_store_3 x = x /\ setter_store_4 x = x /\ setter_store_5 x = x.
Proof. intros x. split; [apply clamp_ok | apply plain_setters_store]. Qed.
Print Assumptions C15_source_stored_values.

Theorem C15_new_object :
  settings new_obj = [1; 0; 1; 0; 1; 3] /\ defined new_obj = None /\ last_err new_obj = 0.
Proof. exact new_object_contract. Qed.
Print Assumptions C15_new_object.

Theorem C15_error_state : forall ps o,
  let '(o', rs) := run o ps in
  length rs = length ps /\ last_err o' = last_failure (last_err o) (combine ps rs).
Proof. exact error_state_contract. Qed.
Print Assumptions C15_error_state.

Theorem C15_parse_codes : forall o na inv,
  snd (step o (OParse na inv)) =
    if na then YAEP_NO_MEMORY
    else match defined o with None => YAEP_UNDEFINED_OR_BAD_GRAMMAR
                            | Some _ => if inv then YAEP_INVALID_TOKEN_CODE else 0 end.
Proof. reflexivity. Qed.
Print Assumptions C15_parse_codes.
