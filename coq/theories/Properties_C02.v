(* C02 - the single returned tree is the translation of a real derivation. *)
From YV Require Import Prelude EarleySpec Recognizer Translate Dag.

Theorem C02_enumerator_exact : forall fuel g codes t_err start w L,
  all_translations fuel g codes t_err start w = Some L ->
  forall t, In t L <-> translation g codes t_err start w t.
Proof. exact all_translations_spec. Qed.
Print Assumptions C02_enumerator_exact.

Theorem C02_denotation_exact : forall st root L,
  denote st root = Some L -> forall t, In t L <-> denotes st root t.
Proof. exact denote_spec. Qed.
Print Assumptions C02_denotation_exact.
