(* C08 - error recovery ignores a minimal number of tokens.  A simple recovery
   (b, f) is decided by shift_count on  prefix_b ++ [error] ++ rest : the
   `error' and the next recovery_match tokens (or all remaining ones, up to
   acceptance) can be shifted. *)
From YV Require Import Prelude EarleySpec Recognizer Viable SimpleRecovery.

Theorem C08_shiftable_decider : forall g axiom w k acc, shift_count g axiom w = Some (k, acc) ->
  (forall j, j <= k -> j <= length w -> count_nonempty (earley_sets g axiom w) > 0 -> exists i, Item g axiom (firstn j w) i) /\
  (k < length w -> count_nonempty (earley_sets g axiom w) > 0 -> ~ exists i, Item g axiom (firstn (S k) w) i) /\
  (acc = true <-> sentence g axiom w).
Proof. exact shift_count_spec. Qed.
Print Assumptions C08_shiftable_decider.

(* "can be shifted" means "some sentence of the grammar with `error' as a
   terminal starts like this" when every nonterminal is productive *)
Theorem C08_shiftable_means_viable : forall g axiom, productive g -> forall p,
  (exists i, Item g axiom p i) <-> (exists s, sentence g axiom (p ++ s)).
Proof. exact viable_prefix_iff. Qed.
Print Assumptions C08_shiftable_means_viable.

(* The yardstick itself is computed in Coq: [min_simple_cost] is the least cost (e - b) + f over all
   positions b <= e and skips f for which [simple_ok] holds (`error' and the next recovery_match tokens -
   or all remaining ones up to acceptance - can be shifted after the first b tokens). *)
Theorem C08_least_simple_recovery_cost : forall g axiom err toks e m r,
  min_simple_cost g axiom err toks e m = Some r ->
  (forall b f, b <= e -> f <= length toks - e -> simple_ok g axiom err toks e m b f = Some true ->
     exists c, r = Some c /\ c <= (e - b) + f) /\
  (forall c, r = Some c -> exists b f, b <= e /\ f <= length toks - e /\
     simple_ok g axiom err toks e m b f = Some true /\ (e - b) + f = c).
Proof. exact min_simple_cost_spec. Qed.
Print Assumptions C08_least_simple_recovery_cost.

Theorem C08_simple_recovery_meaning : forall g axiom err toks e m b f,
  simple_ok g axiom err toks e m b f = Some true ->
  count_nonempty (earley_sets g axiom (repaired err toks e b f)) > 0 ->
  skipn (e + f) toks <> [] /\
  (m <= length (skipn (e + f) toks) -> b <= length toks ->
     forall j, j <= b + 1 + m -> exists i, Item g axiom (firstn j (repaired err toks e b f)) i) /\
  (length (skipn (e + f) toks) < m -> sentence g axiom (repaired err toks e b f)).
Proof. exact simple_ok_spec. Qed.
Print Assumptions C08_simple_recovery_meaning.
