(* C08 - error recovery ignores a minimal number of tokens.  A simple recovery
   (b, f) is decided by shift_count on  prefix_b ++ [error] ++ rest : the
   `error' and the next recovery_match tokens (or all remaining ones, up to
   acceptance) can be shifted. *)
From YV Require Import Prelude EarleySpec Recognizer Viable.

Theorem C08_shiftable_decider : forall g axiom w k acc, shift_count g axiom w = Some (k, acc) ->
  (forall j, j <= k -> j <= length w -> count_nonempty (earley_sets g axiom w) > 0 -> exists i, Item g axiom (firstn j w) i) /\
  (k < length w -> count_nonempty (earley_sets g axiom w) > 0 -> ~ exists i, Item g axiom (firstn (S k) w) i) /\
  (acc = true <-> sentence g axiom w).
Proof. exact shift_count_spec. Qed.
Print Assumptions C08_shiftable_decider.

(* "can be shifted" means "some sentence of the grammar with `error' as a
   terminal starts like this" when every nonterminal is productive *)
Theorem C08_shiftable_means_viable : forall g axiom, productive g -> forall p,
  (exists i, Item g axiom p i) <-> (exists s, sentence g axiom (p ++ s)).
Proof. exact viable_prefix_iff. Qed.
Print Assumptions C08_shiftable_means_viable.
