(* C07 - error recovery always completes and its tree matches a repair.
   A repair is the input with disjoint token segments replaced by the terminal
   `error' (tokens keep the attribute of their original position); the tree
   must be a translation of a derivation of some repair whose segments total
   the number of tokens reported as ignored. *)
From YV Require Import Prelude EarleySpec Recognizer Translate Dag.

Theorem C07_translations_of_a_repair : forall fuel g codes t_err start w attrs L,
  all_translations_a fuel g codes t_err start w attrs = Some L ->
  forall t, In t L <-> translation_a g codes t_err start w attrs t.
Proof. exact all_translations_a_spec. Qed.
Print Assumptions C07_translations_of_a_repair.

Theorem C07_denotation_exact : forall st root L,
  denote st root = Some L -> forall t, In t L <-> denotes st root t.
Proof. exact denote_spec. Qed.
Print Assumptions C07_denotation_exact.

Theorem C07_sentence_decider : forall g axiom w k acc, shift_count g axiom w = Some (k, acc) ->
  (acc = true <-> sentence g axiom w).
Proof. intros g axiom w k acc H. now destruct (shift_count_spec g axiom w k acc H) as (_ & _ & A). Qed.
Print Assumptions C07_sentence_decider.
