(* C06 - syntax errors are reported at the first offending token.
   "Token k can be shifted after the first k tokens" is defined through the
   declarative Earley items (an item of the consumed prefix exists), which does
   not depend on any lookahead level; shift_count decides it. *)
From YV Require Import Prelude EarleySpec Recognizer Viable Lookahead.

Theorem C06_first_unshiftable_token : forall g axiom w k acc, shift_count g axiom w = Some (k, acc) ->
  (forall j, j <= k -> j <= length w -> count_nonempty (earley_sets g axiom w) > 0 -> exists i, Item g axiom (firstn j w) i) /\
  (k < length w -> count_nonempty (earley_sets g axiom w) > 0 -> ~ exists i, Item g axiom (firstn (S k) w) i) /\
  (acc = true <-> sentence g axiom w).
Proof. exact shift_count_spec. Qed.
Print Assumptions C06_first_unshiftable_token.

Theorem C06_items_are_valid_prefix_items : forall g axiom p i, Item g axiom p i <-> valid g axiom p i.
Proof. exact Item_iff. Qed.
Print Assumptions C06_items_are_valid_prefix_items.

(* In a grammar whose nonterminals all derive terminal strings (what strict
   checking establishes) an item of a prefix exists exactly when some sentence
   starts with the prefix ... *)
Theorem C06_viable_prefix : forall g axiom, productive g -> forall p,
  (exists i, Item g axiom p i) <-> (exists s, sentence g axiom (p ++ s)).
Proof. exact viable_prefix_iff. Qed.
Print Assumptions C06_viable_prefix.

(* ... so the count of the decider is the property's "first token such that no
   sentence starts with the tokens up to and including it". *)
Theorem C06_first_offending_token : forall g axiom, productive g -> forall w k acc,
  shift_count g axiom w = Some (k, acc) -> count_nonempty (earley_sets g axiom w) > 0 ->
  (forall j, j <= k -> j <= length w -> exists s, sentence g axiom (firstn j w ++ s)) /\
  (k < length w -> ~ exists s, sentence g axiom (firstn (S k) w ++ s)).
Proof. exact first_offending_token. Qed.
Print Assumptions C06_first_offending_token.

(* The error token does not depend on the lookahead level: for every filter on
   scanned / completed items that keeps the items lying on a derivation of the
   input, and every family of sets between the filtered and the unfiltered
   items, the set of a prefix has a transition on the next token exactly when
   some sentence starts with the prefix extended by that token. *)
Theorem C06_error_token_under_lookahead : forall g axiom (keep : option nat -> item -> Prop),
  (forall w p i, useful g axiom w p i -> keep (next w p) i) ->
  forall Sets : list nat -> list nat -> item -> Prop,
  (forall w p i, ItemF g axiom keep w p i -> Sets w p i) -> (forall w p i, Sets w p i -> Item g axiom p i) ->
  productive g -> forall p a rest,
     (exists i be, Sets (p ++ a :: rest) p i /\ after i = T a :: be) <-> (exists s, sentence g axiom ((p ++ [a]) ++ s)).
Proof. intros g axiom keep Hk Sets Hlo Hhi. exact (proj2 (sandwich g axiom keep Hk Sets Hlo Hhi)). Qed.
Print Assumptions C06_error_token_under_lookahead.
