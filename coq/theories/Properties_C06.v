(* C06 - syntax errors are reported at the first offending token.
   "Token k can be shifted after the first k tokens" is defined through the
   declarative Earley items (an item of the consumed prefix exists), which does
   not depend on any lookahead level; shift_count decides it. *)
From YV Require Import Prelude EarleySpec Recognizer Viable Lookahead.
From YV Require ReadGrammar Link.

Theorem C06_first_unshiftable_token : forall g axiom w k acc, shift_count g axiom w = Some (k, acc) ->
  (forall j, j <= k -> j <= length w -> count_nonempty (earley_sets g axiom w) > 0 -> exists i, Item g axiom (firstn j w) i) /\
  (k < length w -> count_nonempty (earley_sets g axiom w) > 0 -> ~ exists i, Item g axiom (firstn (S k) w) i) /\
  (acc = true <-> sentence g axiom w).
Proof. exact shift_count_spec. Qed.
Print Assumptions C06_first_unshiftable_token.

Theorem C06_items_are_valid_prefix_items : forall g axiom p i, Item g axiom p i <-> valid g axiom p i.
Proof. exact Item_iff. Qed.
Print Assumptions C06_items_are_valid_prefix_items.

(* In a grammar whose nonterminals all derive terminal strings (what strict
   checking establishes) an item of a prefix exists exactly when some sentence
   starts with the prefix ... *)
Theorem C06_viable_prefix : forall g axiom, productive g -> forall p,
  (exists i, Item g axiom p i) <-> (exists s, sentence g axiom (p ++ s)).
Proof. exact viable_prefix_iff. Qed.
Print Assumptions C06_viable_prefix.

(* ... so the count of the decider is the property's "first token such that no
   sentence starts with the tokens up to and including it". *)
Theorem C06_first_offending_token : forall g axiom, productive g -> forall w k acc,
  shift_count g axiom w = Some (k, acc) -> count_nonempty (earley_sets g axiom w) > 0 ->
  (forall j, j <= k -> j <= length w -> exists s, sentence g axiom (firstn j w ++ s)) /\
  (k < length w -> ~ exists s, sentence g axiom (firstn (S k) w ++ s)).
Proof. exact first_offending_token. Qed.
Print Assumptions C06_first_offending_token.

(* The error token does not depend on the lookahead level: for every filter on
   scanned / completed items that keeps the items lying on a derivation of the
   input, and every family of sets between the filtered and the unfiltered
   items, the set of a prefix has a transition on the next token exactly when
   some sentence starts with the prefix extended by that token. *)
Theorem C06_error_token_under_lookahead : forall g axiom (keep : option nat -> item -> Prop),
  (forall w p i, useful g axiom w p i -> keep (next w p) i) ->
  forall Sets : list nat -> list nat -> item -> Prop,
  (forall w p i, ItemF g axiom keep w p i -> Sets w p i) -> (forall w p i, Sets w p i -> Item g axiom p i) ->
  productive g -> forall p a rest,
     (exists i be, Sets (p ++ a :: rest) p i /\ after i = T a :: be) <-> (exists s, sentence g axiom ((p ++ [a]) ++ s)).
Proof. intros g axiom keep Hk Sets Hlo Hhi. exact (proj2 (sandwich g axiom keep Hk Sets Hlo Hhi)). Qed.
Print Assumptions C06_error_token_under_lookahead.

(* "a grammar accepted under strict checking": the model of yaep_read_grammar with strict checking returns 0 only for
   grammars that are productive in the sense above (Link.v: the flags of the definition model mean derivability in the
   grammar of the recognition theory), so the two theorems above apply to every grammar C06 speaks about *)
Theorem C06_strictly_accepted_grammars_are_productive : forall terms rules,
  ReadGrammar.read_model true terms rules = 0%Z -> productive (Link.cg terms rules).
Proof. exact Link.strict_accepted_is_productive. Qed.
Print Assumptions C06_strictly_accepted_grammars_are_productive.

Theorem C06_first_offending_token_of_accepted_grammars : forall terms rules axiom w k acc,
  ReadGrammar.read_model true terms rules = 0%Z ->
  shift_count (Link.cg terms rules) axiom w = Some (k, acc) -> count_nonempty (earley_sets (Link.cg terms rules) axiom w) > 0 ->
  (forall j, j <= k -> j <= length w -> exists s, sentence (Link.cg terms rules) axiom (firstn j w ++ s)) /\
  (k < length w -> ~ exists s, sentence (Link.cg terms rules) axiom (firstn (S k) w ++ s)).
Proof.
  intros terms rules axiom w k acc H. apply first_offending_token. apply Link.strict_accepted_is_productive. exact H.
Qed.
Print Assumptions C06_first_offending_token_of_accepted_grammars.
