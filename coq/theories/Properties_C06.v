(* C06 - syntax errors are reported at the first offending token.
   "Token k can be shifted after the first k tokens" is defined through the
   declarative Earley items (an item of the consumed prefix exists), which does
   not depend on any lookahead level; shift_count decides it. *)
From YV Require Import Prelude EarleySpec Recognizer.

Theorem C06_first_unshiftable_token : forall g axiom w k acc, shift_count g axiom w = Some (k, acc) ->
  (forall j, j <= k -> j <= length w -> count_nonempty (earley_sets g axiom w) > 0 -> exists i, Item g axiom (firstn j w) i) /\
  (k < length w -> count_nonempty (earley_sets g axiom w) > 0 -> ~ exists i, Item g axiom (firstn (S k) w) i) /\
  (acc = true <-> sentence g axiom w).
Proof. exact shift_count_spec. Qed.
Print Assumptions C06_first_unshiftable_token.

Theorem C06_items_are_valid_prefix_items : forall g axiom p i, Item g axiom p i <-> valid g axiom p i.
Proof. exact Item_iff. Qed.
Print Assumptions C06_items_are_valid_prefix_items.
