(* Lookahead: pruning Earley sets by one token of lookahead changes neither the
   verdict nor the token at which a syntax error is detected.

   ItemF is the item system of EarleySpec with a filter [keep next i] on every
   item produced by a scan or a completion (next = the token after the consumed
   prefix, None at the end of the input) - what build_new_set does at lookahead
   levels 1 and 2.  An item is *useful* for the input w after the prefix p if it
   lies on a derivation of the whole of w.  For every filter that keeps useful
   items:
     - ItemF is contained in Item (trivially) and contains every useful item;
     - hence the final item is found iff w is a sentence (verdict unchanged);
     - in a grammar whose nonterminals are productive, the filtered set of p has
       a transition on the next token a iff some sentence starts with p ++ [a]
       (error token unchanged);
     - the same holds for any family of sets between ItemF and Item (YAEP
       filters fewer items than ItemF: predicted items, items derived by
       skipping a nullable symbol, and items that can be followed by `error').
   The FIRST/FOLLOW filter of level 1 (stated declaratively, and any superset
   of it, such as the fixpoint computed by create_first_follow_sets) keeps
   useful items. *)
From YV Require Import Prelude EarleySpec Recognizer Viable.

Section LA.
Variable g : grammar.
Variable axiom : nat.
Variable keep : option nat -> item -> Prop.

Definition next (w p : list nat) : option nat := nth_error w (length p).

Inductive ItemF (w : list nat) : list nat -> item -> Prop :=
| F_init r : In r g -> lhs r = axiom -> ItemF w [] {| ir := r; idot := 0; iorg := 0 |}
| F_scan p i a be : ItemF w p i -> after i = T a :: be -> keep (next w (p ++ [a])) (adv i) ->
                    ItemF w (p ++ [a]) (adv i)
| F_pred p i x be r : ItemF w p i -> after i = N x :: be -> In r g -> lhs r = x ->
                      ItemF w p {| ir := r; idot := 0; iorg := length p |}
| F_comp p1 p2 i c be : ItemF w p1 i -> after i = N (lhs (ir c)) :: be ->
                      ItemF w (p1 ++ p2) c -> after c = [] -> iorg c = length p1 ->
                      keep (next w (p1 ++ p2)) (adv i) ->
                      ItemF w (p1 ++ p2) (adv i).

Theorem ItemF_Item w p i : ItemF w p i -> Item g axiom p i.
Proof.
  induction 1.
  - apply I_init; auto.
  - eapply I_scan; eauto.
  - eapply I_pred; eauto.
  - eapply I_comp; eauto.
Qed.

(* top-down reachability that also records the right context *)
Inductive reachR : list nat -> nat -> list symbol -> Prop :=
| rr_ax : reachR [] axiom []
| rr_step p1 p2 r al x be de : reachR p1 (lhs r) de -> In r g -> rhs r = al ++ N x :: be ->
                               derives g al p2 -> reachR (p1 ++ p2) x (be ++ de).

Definition useful (w p : list nat) (i : item) : Prop :=
  In (ir i) g /\ idot i <= length (rhs (ir i)) /\
  exists p1 p2 de rest, w = p ++ rest /\ p = p1 ++ p2 /\ length p1 = iorg i /\
    reachR p1 (lhs (ir i)) de /\ derives g (before i) p2 /\ derives g (after i ++ de) rest.

Hypothesis keep_ok : forall w p i, useful w p i -> keep (next w p) i.

Lemma firstn_S_skipn {A} d (l : list A) s be : skipn d l = s :: be -> firstn (S d) l = firstn d l ++ [s].
Proof.
  revert l; induction d as [|d IH]; intros l H; simpl in *.
  - subst. reflexivity.
  - destruct l as [|y l]; [discriminate|]. simpl. f_equal. apply IH. exact H.
Qed.

Lemma skipn_le_length {A} d (l : list A) s be : skipn d l = s :: be -> d < length l.
Proof.
  revert l; induction d as [|d IH]; intros l H; simpl in *.
  - subst. simpl. lia.
  - destruct l as [|y l]; [discriminate|]. simpl. apply IH in H. lia.
Qed.

(* moving the dot over a part of a right-hand side that derives u, all items on
   the way being useful for w *)
Lemma advanceF w be1 u : derives g be1 u ->
  forall r d o p be2 de rest p1 p2,
    w = p ++ u ++ rest -> p = p1 ++ p2 -> length p1 = o -> reachR p1 (lhs r) de -> In r g ->
    derives g (firstn d (rhs r)) p2 -> skipn d (rhs r) = be1 ++ be2 -> derives g (be2 ++ de) rest ->
    ItemF w p {| ir := r; idot := d; iorg := o |} ->
    ItemF w (p ++ u) {| ir := r; idot := d + length be1; iorg := o |}.
Proof.
  induction 1 as [| a al w0 Hd IH | r' al w1 w2 Hr Hd1 IH1 Hd2 IH2];
    intros r d o p be2 de rest p1 p2 Hw Hp Ho Hre Hin Hb Hs Hrest Hi.
  - rewrite app_nil_r. simpl. replace (d + 0) with d by lia. exact Hi.
  - simpl in Hs. pose proof (skipn_le_length _ _ _ _ Hs) as Hlt.
    assert (Hb' : derives g (firstn (S d) (rhs r)) (p2 ++ [a])).
    { rewrite (firstn_S_skipn _ _ _ _ Hs). apply derives_app; [exact Hb | repeat constructor]. }
    assert (Hi' : ItemF w (p ++ [a]) {| ir := r; idot := S d; iorg := o |}).
    { apply (F_scan w p {| ir := r; idot := d; iorg := o |} a (al ++ be2) Hi Hs).
      apply keep_ok. split; [exact Hin|]. split; [cbn [adv ir idot]; lia|].
      exists p1, (p2 ++ [a]), de, (w0 ++ rest). unfold before, after; cbn [adv ir idot iorg].
      split; [rewrite Hw; rewrite <- !app_assoc; reflexivity|].
      split; [rewrite Hp, app_assoc; reflexivity|]. split; [exact Ho|]. split; [exact Hre|]. split; [exact Hb'|].
      rewrite (skipn_cons_S _ _ _ _ Hs), <- app_assoc. apply derives_app; [exact Hd | exact Hrest]. }
    apply skipn_cons_S in Hs.
    specialize (IH r (S d) o (p ++ [a]) be2 de rest p1 (p2 ++ [a])).
    replace (d + length (T a :: al)) with (S d + length al) by (simpl; lia).
    replace (p ++ a :: w0) with ((p ++ [a]) ++ w0) by (rewrite <- app_assoc; reflexivity).
    apply IH; auto.
    + rewrite Hw, <- !app_assoc. reflexivity.
    + rewrite Hp, app_assoc. reflexivity.
  - simpl in Hs. pose proof (skipn_le_length _ _ _ _ Hs) as Hlt.
    assert (Hrhs : rhs r = firstn d (rhs r) ++ N (lhs r') :: (al ++ be2)).
    { rewrite <- Hs. symmetry. apply firstn_skipn. }
    assert (Hre' : reachR (p1 ++ p2) (lhs r') ((al ++ be2) ++ de)) by (eapply rr_step; eauto).
    assert (Hp' : ItemF w p {| ir := r'; idot := 0; iorg := length p |})
      by (apply (F_pred w p {| ir := r; idot := d; iorg := o |} (lhs r') (al ++ be2) r' Hi Hs Hr eq_refl)).
    assert (Hc : ItemF w (p ++ w1) {| ir := r'; idot := 0 + length (rhs r'); iorg := length p |}).
    { apply (IH1 r' 0 (length p) p [] ((al ++ be2) ++ de) (w2 ++ rest) p []); auto.
      - rewrite Hw, <- !app_assoc. reflexivity.
      - rewrite app_nil_r. reflexivity.
      - rewrite Hp. exact Hre'.
      - constructor.
      - simpl. rewrite app_nil_r. reflexivity.
      - simpl. rewrite <- app_assoc. apply derives_app; [exact Hd2 | exact Hrest]. }
    simpl in Hc.
    assert (Hb' : derives g (firstn (S d) (rhs r)) (p2 ++ w1)).
    { rewrite (firstn_S_skipn _ _ _ _ Hs). apply derives_app; [exact Hb|].
      apply derives_single_N. exists r'. auto. }
    assert (Hi' : ItemF w (p ++ w1) {| ir := r; idot := S d; iorg := o |}).
    { apply (F_comp w p w1 {| ir := r; idot := d; iorg := o |} {| ir := r'; idot := length (rhs r'); iorg := length p |} (al ++ be2) Hi Hs Hc).
      - unfold after; cbn [ir idot]. apply skipn_all.
      - reflexivity.
      - apply keep_ok. split; [exact Hin|]. split; [cbn [adv ir idot]; lia|].
        exists p1, (p2 ++ w1), de, (w2 ++ rest). unfold before, after; cbn [adv ir idot iorg].
        split; [rewrite Hw; rewrite <- !app_assoc; reflexivity|].
        split; [rewrite Hp, app_assoc; reflexivity|]. split; [exact Ho|]. split; [exact Hre|]. split; [exact Hb'|].
        rewrite (skipn_cons_S _ _ _ _ Hs), <- app_assoc. apply derives_app; [exact Hd2 | exact Hrest]. }
    apply skipn_cons_S in Hs.
    specialize (IH2 r (S d) o (p ++ w1) be2 de rest p1 (p2 ++ w1)).
    replace (d + length (N (lhs r') :: al)) with (S d + length al) by (simpl; lia).
    rewrite app_assoc. apply IH2; auto.
    + rewrite Hw, <- !app_assoc. reflexivity.
    + rewrite Hp, app_assoc. reflexivity.
Qed.

(* a nonterminal reachable with a right context that derives the rest of the input is predicted *)
Lemma reach_predF w p x de : reachR p x de ->
  forall rest, w = p ++ rest -> derives g (N x :: de) rest ->
  forall r, In r g -> lhs r = x -> ItemF w p {| ir := r; idot := 0; iorg := length p |}.
Proof.
  induction 1 as [| p1 p2 r0 al x be de Hre IH Hr0 Hrhs Hd]; intros rest Hw Hrest r Hr Hl.
  - apply F_init; auto.
  - change (N x :: be ++ de) with ((N x :: be) ++ de) in Hrest.
    destruct (derives_app_inv g _ _ _ Hrest) as (u & v & -> & Hu & Hv).
    assert (H0 : ItemF w p1 {| ir := r0; idot := 0; iorg := length p1 |}).
    { apply (IH (p2 ++ u ++ v)); auto.
      - rewrite Hw, <- app_assoc. reflexivity.
      - rewrite app_assoc. change (N (lhs r0) :: de) with ([N (lhs r0)] ++ de). apply derives_app; [|exact Hv].
        apply derives_single_N. exists r0. split; [exact Hr0|]. split; [reflexivity|].
        rewrite Hrhs. apply derives_app; assumption. }
    assert (Ha : ItemF w (p1 ++ p2) {| ir := r0; idot := 0 + length al; iorg := length p1 |}).
    { apply (advanceF w al p2 Hd r0 0 (length p1) p1 (N x :: be) de (u ++ v) p1 []); auto.
      - rewrite Hw, <- app_assoc. reflexivity.
      - rewrite app_nil_r. reflexivity.
      - constructor. }
    simpl in Ha.
    apply (F_pred w (p1 ++ p2) _ x be r Ha); auto.
    unfold after; cbn [ir idot]. rewrite Hrhs, skipn_app, skipn_all, Nat.sub_diag. reflexivity.
Qed.

Theorem useful_ItemF w p i : useful w p i -> ItemF w p i.
Proof.
  destruct i as [r d o]. unfold useful, before, after; cbn [ir idot iorg].
  intros (Hin & Hle & p1 & p2 & de & rest & Hw & Hp & Hlen & Hre & Hb & Ha).
  destruct (derives_app_inv g _ _ _ Ha) as (u & v & -> & Hu & Hv).
  assert (H0 : ItemF w p1 {| ir := r; idot := 0; iorg := length p1 |}).
  { apply (reach_predF w p1 (lhs r) de Hre (p2 ++ u ++ v)); auto.
    - rewrite Hw, Hp, <- app_assoc. reflexivity.
    - rewrite app_assoc. change (N (lhs r) :: de) with ([N (lhs r)] ++ de). apply derives_app; [|exact Hv].
      apply derives_single_N. exists r. split; [exact Hin|]. split; [reflexivity|].
      rewrite <- (firstn_skipn d (rhs r)). apply derives_app; assumption. }
  assert (H1 : ItemF w (p1 ++ p2) {| ir := r; idot := 0 + length (firstn d (rhs r)); iorg := length p1 |}).
  { apply (advanceF w (firstn d (rhs r)) p2 Hb r 0 (length p1) p1 (skipn d (rhs r)) de (u ++ v) p1 []); auto.
    - rewrite Hw, Hp, <- app_assoc. reflexivity.
    - rewrite app_nil_r. reflexivity.
    - constructor.
    - simpl. symmetry. apply firstn_skipn. }
  rewrite firstn_length_le in H1 by exact Hle. simpl in H1. rewrite Hlen in H1. rewrite Hp. exact H1.
Qed.

(* the verdict *)
Theorem acceptF w : (exists i, ItemF w w i /\ final axiom i) <-> sentence g axiom w.
Proof.
  split.
  - intros (i & Hi & Hf). apply accept_iff. exists i. split; [eapply ItemF_Item; eauto | exact Hf].
  - intros H. apply derives_single_N in H. destruct H as (r & Hr & Hl & Hd).
    exists {| ir := r; idot := length (rhs r); iorg := 0 |}. split.
    + apply useful_ItemF. split; [exact Hr|]. split; [cbn; lia|].
      exists [], w, [], []. unfold before, after; cbn [ir idot iorg]. rewrite !app_nil_r.
      split; [reflexivity|]. split; [reflexivity|]. split; [reflexivity|]. split; [rewrite Hl; constructor|].
      split; [rewrite firstn_all; exact Hd | rewrite skipn_all; constructor].
    + repeat split; cbn [ir idot iorg]; auto. unfold after; cbn [ir idot]. apply skipn_all.
Qed.

End LA.

Lemma next_app (p rest : list nat) : next (p ++ rest) p = hd_error rest.
Proof. unfold next. rewrite nth_error_app2 by lia. rewrite Nat.sub_diag. destruct rest; reflexivity. Qed.


(* ---------- the token at which a syntax error is detected ---------- *)
Section ErrorToken.
Variable g : grammar.
Variable axiom : nat.
Variable keep : option nat -> item -> Prop.
Hypothesis keep_ok : forall w p i, useful g axiom w p i -> keep (next w p) i.

Let ItemF := ItemF g axiom keep.

Lemma app_split_mid {A} (w1 w2 u : list A) a v : w1 ++ w2 = u ++ a :: v ->
  (exists v1, w1 = u ++ a :: v1 /\ v = v1 ++ w2) \/ (exists u2, u = w1 ++ u2 /\ w2 = u2 ++ a :: v).
Proof.
  revert u; induction w1 as [|x w1 IH]; intros u H; simpl in *.
  - right. exists u. auto.
  - destruct u as [|y u]; simpl in *.
    + injection H as -> <-. left. exists w1. auto.
    + injection H as -> H. destruct (IH _ H) as [(v1 & -> & ->) | (u2 & -> & ->)].
      * left. exists v1. auto.
      * right. exists u2. auto.
Qed.

(* like advanceF, but stopping at the terminal leaf that derives a given token of the input *)
Lemma advanceF_mid w be1 y : derives g be1 y ->
  forall u a v r d o p be2 de rest p1 p2,
    y = u ++ a :: v ->
    w = p ++ y ++ rest -> p = p1 ++ p2 -> length p1 = o -> reachR g axiom p1 (lhs r) de -> In r g ->
    derives g (firstn d (rhs r)) p2 -> skipn d (rhs r) = be1 ++ be2 -> derives g (be2 ++ de) rest ->
    ItemF w p {| ir := r; idot := d; iorg := o |} ->
    exists i be, ItemF w (p ++ u) i /\ after i = T a :: be.
Proof.
  induction 1 as [| a0 al w0 Hd IH | r' al w1 w2 Hr Hd1 IH1 Hd2 IH2];
    intros u a v r d o p be2 de rest p1 p2 Hy Hw Hp Ho Hre Hin Hb Hs Hrest Hi.
  - destruct u; discriminate.
  - destruct u as [|b u]; simpl in Hy.
    + injection Hy as -> ->. rewrite app_nil_r. exists {| ir := r; idot := d; iorg := o |}, (al ++ be2).
      split; [exact Hi | exact Hs].
    + injection Hy as -> ->.
      assert (Hi' : ItemF w (p ++ [b]) {| ir := r; idot := d + length [T b]; iorg := o |}).
      { apply (advanceF g axiom keep keep_ok w [T b] [b] ltac:(repeat constructor) r d o p (al ++ be2) de ((u ++ a :: v) ++ rest) p1 p2); auto.
        rewrite <- app_assoc. apply derives_app; assumption. }
      simpl in Hi'. simpl in Hs. pose proof (firstn_S_skipn _ _ _ _ Hs) as Hf.
      destruct (IH u a v r (d + 1) o (p ++ [b]) be2 de rest p1 (p2 ++ [b])) as (i & be & Hi2 & Ha); auto.
      * rewrite Hw. simpl. rewrite <- !app_assoc. reflexivity.
      * rewrite Hp, app_assoc. reflexivity.
      * replace (d + 1) with (S d) by lia. rewrite Hf. apply derives_app; [exact Hb | repeat constructor].
      * replace (d + 1) with (S d) by lia. apply skipn_cons_S in Hs. exact Hs.
      * exists i, be. split; [|exact Ha]. rewrite <- app_assoc in Hi2. exact Hi2.
  - simpl in Hs.
    assert (Hrhs : rhs r = firstn d (rhs r) ++ N (lhs r') :: (al ++ be2)) by (rewrite <- Hs; symmetry; apply firstn_skipn).
    destruct (app_split_mid _ _ _ _ _ Hy) as [(v1 & Hw1 & Hv) | (u2 & Hu & Hw2)].
    + (* the token is derived inside this nonterminal *)
      assert (Hp' : ItemF w p {| ir := r'; idot := 0; iorg := length p |})
        by (apply (F_pred g axiom keep w p {| ir := r; idot := d; iorg := o |} (lhs r') (al ++ be2) r' Hi Hs Hr eq_refl)).
      apply (IH1 u a v1 r' 0 (length p) p [] ((al ++ be2) ++ de) (w2 ++ rest) p []); auto.
      * rewrite Hw, <- !app_assoc. reflexivity.
      * rewrite app_nil_r. reflexivity.
      * rewrite Hp. eapply rr_step; eauto.
      * constructor.
      * simpl. rewrite app_nil_r. reflexivity.
      * simpl. rewrite <- app_assoc. apply derives_app; assumption.
    + (* the token is derived by what follows *)
      assert (Hd1' : derives g [N (lhs r')] w1) by (apply derives_single_N; exists r'; auto).
      assert (Hi' : ItemF w (p ++ w1) {| ir := r; idot := d + length [N (lhs r')]; iorg := o |}).
      { apply (advanceF g axiom keep keep_ok w [N (lhs r')] w1 Hd1' r d o p (al ++ be2) de (w2 ++ rest) p1 p2); auto.
        - rewrite Hw, <- !app_assoc. reflexivity.
        - rewrite <- app_assoc. apply derives_app; assumption. }
      simpl in Hi'. pose proof (firstn_S_skipn _ _ _ _ Hs) as Hf.
      destruct (IH2 u2 a v r (d + 1) o (p ++ w1) be2 de rest p1 (p2 ++ w1)) as (i & be & Hi2 & Ha); auto.
      * rewrite Hw, <- !app_assoc. reflexivity.
      * rewrite Hp, app_assoc. reflexivity.
      * replace (d + 1) with (S d) by lia. rewrite Hf. apply derives_app; assumption.
      * replace (d + 1) with (S d) by lia. apply skipn_cons_S in Hs. exact Hs.
      * exists i, be. split; [|exact Ha]. rewrite Hu, app_assoc. exact Hi2.
Qed.

(* in the filtered sets of a sentence, the set of every proper prefix has a transition on the next token *)
Lemma sentence_transition p a s : sentence g axiom (p ++ a :: s) ->
  exists i be, ItemF (p ++ a :: s) p i /\ after i = T a :: be.
Proof.
  intros H. apply derives_single_N in H. destruct H as (r & Hr & Hl & Hd).
  destruct (advanceF_mid (p ++ a :: s) (rhs r) (p ++ a :: s) Hd p a s r 0 0 [] [] [] [] [] [])
    as (i & be & Hi & Ha); auto.
  - rewrite app_nil_r. reflexivity.
  - rewrite Hl. constructor.
  - constructor.
  - simpl. rewrite app_nil_r. reflexivity.
  - constructor.
  - apply F_init; auto.
  - exists i, be. auto.
Qed.

(* the filtered sets of a prefix depend on the input only up to the token after the prefix *)
Lemma ItemF_agree w w' q i : ItemF w q i ->
  (forall q0 s0, q = q0 ++ s0 -> next w q0 = next w' q0) -> ItemF w' q i.
Proof.
  induction 1 as [r Hr Hax | p i a be Hi IH Ha Hk | p i x be r Hi IH Ha Hr Hl
                 | p1 p2 i c be Hi IHi Ha Hc IHc Hcn Hco Hk]; intros Hag.
  - apply F_init; auto.
  - eapply F_scan; eauto.
    + apply IH. intros q0 s0 E. apply (Hag q0 (s0 ++ [a])). rewrite E, app_assoc. reflexivity.
    + rewrite <- (Hag (p ++ [a]) []); [exact Hk | rewrite app_nil_r; reflexivity].
  - apply (F_pred g axiom keep w' p i x be r (IH Hag) Ha Hr Hl).
  - apply (F_comp g axiom keep w' p1 p2 i c be); auto.
    + apply IHi. intros q0 s0 E. apply (Hag q0 (s0 ++ p2)). rewrite E, app_assoc. reflexivity.
    + apply IHc. exact Hag.
    + rewrite <- (Hag (p1 ++ p2) []); [exact Hk | rewrite app_nil_r; reflexivity].
Qed.

Lemma next_prefix p rest rest' q0 s0 : p = q0 ++ s0 -> hd_error rest = hd_error rest' ->
  next (p ++ rest) q0 = next (p ++ rest') q0.
Proof.
  intros -> Hh. rewrite <- !app_assoc, !next_app. destruct s0 as [|x s0]; simpl; [exact Hh | reflexivity].
Qed.

(* the filtered set reached after p has a transition on the next token a of the input
   exactly when some sentence starts with p ++ [a] *)
Theorem transition_iff_viable : productive g -> forall p a rest,
  (exists i be, ItemF (p ++ a :: rest) p i /\ after i = T a :: be) <->
  (exists s, sentence g axiom ((p ++ [a]) ++ s)).
Proof.
  intros HP p a rest. split.
  - intros (i & be & Hi & Ha). apply ItemF_Item in Hi.
    apply (item_viable g axiom HP (p ++ [a]) (adv i)). eapply I_scan; eauto.
  - intros (s & Hs). rewrite <- app_assoc in Hs. simpl in Hs.
    destruct (sentence_transition p a s Hs) as (i & be & Hi & Ha). exists i, be. split; [|exact Ha].
    apply (ItemF_agree (p ++ a :: s) (p ++ a :: rest) p i Hi).
    intros q0 s0 E. apply (next_prefix p (a :: s) (a :: rest) q0 s0 E). reflexivity.
Qed.

(* ... and so does every family of sets between the filtered and the unfiltered items *)
Theorem sandwich : forall (Sets : list nat -> list nat -> item -> Prop),
  (forall w p i, ItemF w p i -> Sets w p i) -> (forall w p i, Sets w p i -> Item g axiom p i) ->
  (forall w, (exists i, Sets w w i /\ final axiom i) <-> sentence g axiom w) /\
  (productive g -> forall p a rest,
     (exists i be, Sets (p ++ a :: rest) p i /\ after i = T a :: be) <-> (exists s, sentence g axiom ((p ++ [a]) ++ s))).
Proof.
  intros Sets Hlo Hhi. split.
  - intros w. split.
    + intros (i & Hi & Hf). apply accept_iff. exists i. split; [apply Hhi in Hi; exact Hi | exact Hf].
    + intros H. apply (acceptF g axiom keep keep_ok) in H. destruct H as (i & Hi & Hf). exists i. split; [apply Hlo; exact Hi | exact Hf].
  - intros HP p a rest. split.
    + intros (i & be & Hi & Ha). apply Hhi in Hi.
      apply (item_viable g axiom HP (p ++ [a]) (adv i)). eapply I_scan; eauto.
    + intros H. apply (transition_iff_viable HP p a rest) in H. destruct H as (i & be & Hi & Ha).
      exists i, be. split; [apply Hlo; exact Hi | exact Ha].
Qed.

End ErrorToken.

(* ---------- the static filter of lookahead level 1 ---------- *)
Section Static.
Variable g : grammar.
Variable axiom : nat.

(* a can begin what al derives / al derives the empty string / a can follow x / x can end a sentence *)
Definition first_of (al : list symbol) (a : nat) : Prop := exists v, derives g al (a :: v).
Definition nullable_form (al : list symbol) : Prop := derives g al [].
Definition follow_of (x a : nat) : Prop := exists p de v, reachR g axiom p x de /\ derives g de (a :: v).
Definition follow_end (x : nat) : Prop := exists p de, reachR g axiom p x de /\ derives g de [].

Definition keep_static (nx : option nat) (i : item) : Prop :=
  match nx with
  | Some a => first_of (after i) a \/ (nullable_form (after i) /\ follow_of (lhs (ir i)) a)
  | None => nullable_form (after i) /\ follow_end (lhs (ir i))
  end.

Theorem keep_static_ok : forall w p i, useful g axiom w p i -> keep_static (next w p) i.
Proof.
  intros w p i (Hin & Hle & p1 & p2 & de & rest & -> & Hp & Hlen & Hre & Hb & Ha).
  rewrite next_app. destruct (derives_app_inv g _ _ _ Ha) as (u & v & -> & Hu & Hv).
  destruct u as [|b u]; simpl.
  - destruct v as [|b v]; simpl.
    + split; [exact Hu|]. exists p1, de. auto.
    + right. split; [exact Hu|]. exists p1, de, v. auto.
  - left. exists u. exact Hu.
Qed.

(* any filter at least as permissive - the FIRST/FOLLOW sets computed as a fixpoint
   are supersets of the exact ones, and YAEP also keeps items that `error' can follow - is fine too *)
Theorem keep_superset_ok (keep : option nat -> item -> Prop) :
  (forall nx i, keep_static nx i -> keep nx i) -> forall w p i, useful g axiom w p i -> keep (next w p) i.
Proof. intros H w p i Hu. apply H, keep_static_ok, Hu. Qed.

End Static.
