(* ContainersProofs: the object stack never moves or alters a finished object
   and its top object holds exactly the bytes appended; a variable length
   object holds exactly the bytes appended minus those shortened and never
   exceeds its allocation.  (Hash table: HashTabProofs.v) *)
From YV Require Import Prelude Generated Containers.

(* ================= variable length object ================= *)
Definition vspec (d : list nat) (o : vop) : list nat :=
  match o with
  | VAdd bs => d ++ bs
  | VExpand n => d ++ repeat 238 n
  | VShorten n => if Nat.ltb (length d) n then [] else firstn (length d - n) d
  | VNullify => []
  | VTailor | VDump => d
  end.

Definition vinv (v : vlo) : Prop := length (vdata v) <= vcap v /\ 0 < vcap v.

Lemma vcreate_inv len : vinv (vcreate len).
Proof. unfold vinv, vcreate; simpl. destruct (Nat.eqb_spec len 0); unfold vlo_default; lia. Qed.

Lemma vappend_inv v bs : vinv v -> vinv (vappend v bs) /\ vdata (vappend v bs) = vdata v ++ bs.
Proof.
  intros [H1 H2]. unfold vinv, vappend, grow; simpl. rewrite app_length.
  destruct (Nat.ltb_spec (vcap v) (length (vdata v) + length bs)); repeat split; auto; lia.
Qed.

Theorem vlo_refines v o : vinv v ->
  vinv (fst (vstep v o)) /\ vdata (fst (vstep v o)) = vspec (vdata v) o /\
  (forall d, snd (vstep v o) = Some d -> d = vdata v).
Proof.
  intros Hv. destruct o as [bs|n|n| | |]; cbn [vstep fst snd vspec].
  - destruct (vappend_inv v bs Hv) as [A B]. split; [exact A|]. split; [exact B|]. intros d Hd; discriminate.
  - destruct (vappend_inv v (repeat 238 n) Hv) as [A B]. split; [exact A|]. split; [exact B|]. intros d Hd; discriminate.
  - destruct Hv as [H1 H2]. unfold vinv; simpl. split; [|split; [reflexivity | intros d Hd; discriminate]].
    split; [|exact H2]. destruct (Nat.ltb_spec (length (vdata v)) n); simpl; [lia|]. rewrite firstn_length. lia.
  - destruct Hv as [H1 H2]. unfold vinv; simpl. split; [split; [lia | exact H2]|]. split; [reflexivity | intros d Hd; discriminate].
  - unfold vinv; cbn [vcap vdata]. split; [split; lia|]. split; [reflexivity | intros d Hd; discriminate].
  - split; [exact Hv|]. split; [reflexivity|]. intros d H; now injection H as <-.
Qed.

(* ================= object stack ================= *)
Definition ids_ok (o : ostack) : Prop :=
  NoDup (map sid (segs o)) /\ (forall s, In s (segs o) -> sid s < next_id o).

Definition fin_ok (o : ostack) (f : nat * nat * nat) : Prop :=
  let '(id, off, len) := f in
  len = 0 \/
  exists s, In s (segs o) /\ sid s = id /\ off + len <= length (sbytes s) /\ (id = sid (cur o) -> off + len <= ostart o).

Definition oinv (o : ostack) : Prop :=
  segs o <> [] /\ ostart o <= length (sbytes (cur o)) /\ ids_ok o /\ Forall (fin_ok o) (finished o).

Lemma segs_cur o : segs o <> [] -> segs o = cur o :: tl (segs o).
Proof. unfold cur. destruct (segs o); simpl; congruence. Qed.

Lemma ocreate_inv len : oinv (ocreate len).
Proof.
  unfold oinv, ocreate, ids_ok, cur; simpl. repeat split; auto; try discriminate.
  - repeat constructor. simpl. tauto.
  - intros s [<-|[]]. simpl. lia.
Qed.

Lemma find_sid_in segl id s : NoDup (map sid segl) -> In s segl -> sid s = id ->
  List.find (fun s => Nat.eqb (sid s) id) segl = Some s.
Proof.
  induction segl as [|x l IH]; intros Hn Hin Hid; [contradiction|]. simpl.
  inversion Hn as [|? ? Hx Hl]; subst. destruct Hin as [->|Hin].
  - now rewrite Nat.eqb_refl.
  - destruct (Nat.eqb_spec (sid x) (sid s)) as [E|E].
    + exfalso. apply Hx. rewrite E. now apply in_map.
    + now apply IH.
Qed.

Lemma find_sid_none segl id : (forall s, In s segl -> sid s <> id) ->
  List.find (fun s => Nat.eqb (sid s) id) segl = None.
Proof.
  induction segl as [|x l IH]; intros H; simpl; auto.
  destruct (Nat.eqb_spec (sid x) id) as [E|E]; [exfalso; apply (H x); simpl; auto|].
  apply IH. intros s Hs. apply H. simpl; auto.
Qed.

(* what a finished object reads as, given where it lives *)
Lemma read_obj_in o id off len s : NoDup (map sid (segs o)) -> In s (segs o) -> sid s = id ->
  read_obj o (id, off, len) = Some (firstn len (skipn off (sbytes s))).
Proof. intros Hn Hin Hid. unfold read_obj. now rewrite (find_sid_in _ _ _ Hn Hin Hid). Qed.

Lemma firstn_skipn_prefix {A} (l1 l2 : list A) off len n :
  firstn n l1 = firstn n l2 -> off + len <= n -> n <= length l1 -> n <= length l2 ->
  firstn len (skipn off l1) = firstn len (skipn off l2).
Proof.
  intros H Hol H1 H2.
  rewrite <- (firstn_skipn n l1), <- (firstn_skipn n l2), H.
  rewrite !skipn_app, !firstn_app.
  assert (length (firstn n l2) = n) by (rewrite firstn_length; lia).
  assert (length (firstn n l1) = n) by (rewrite firstn_length; lia).
  rewrite <- H at 2. rewrite !skipn_length. rewrite H0, H3.
  replace (off - n) with 0 by lia. simpl.
  replace (len - (n - off)) with 0 by lia. simpl. reflexivity.
Qed.

(* Replacing the bytes of the current segment by something that agrees with it
   below [ostart] keeps the invariant and every finished object. *)
Lemma set_cur_bytes_keeps o bs :
  oinv o -> firstn (ostart o) bs = firstn (ostart o) (sbytes (cur o)) -> ostart o <= length bs ->
  oinv (set_cur_bytes o bs) /\
  (forall f, In f (finished o) -> read_obj (set_cur_bytes o bs) f = read_obj o f) /\
  top_bytes (set_cur_bytes o bs) = skipn (ostart o) bs /\
  sid (cur (set_cur_bytes o bs)) = sid (cur o) /\ scap (cur (set_cur_bytes o bs)) = scap (cur o) /\
  sbytes (cur (set_cur_bytes o bs)) = bs.
Proof.
  intros (Hne & Hst & (Hnd & Hlt) & Hfin) Hpre Hlen.
  pose proof (segs_cur o Hne) as Hs.
  assert (Hcur : cur (set_cur_bytes o bs) = {| sid := sid (cur o); scap := scap (cur o); sbytes := bs |}) by reflexivity.
  assert (Hids : map sid (segs (set_cur_bytes o bs)) = map sid (segs o)).
  { cbn [set_cur_bytes segs]. rewrite Hs at 2. reflexivity. }
  assert (Hnd' : NoDup (map sid (segs (set_cur_bytes o bs)))) by now rewrite Hids.
  split; [|split; [|split; [|split; [|split]]]]; try reflexivity.
  - unfold oinv. split; [cbn; discriminate|]. split; [rewrite Hcur; simpl; exact Hlen|]. split.
    + split; [exact Hnd'|]. intros s Hin. cbn [set_cur_bytes segs next_id] in *. destruct Hin as [<-|Hin]; simpl.
      * apply Hlt. rewrite Hs. now left.
      * apply Hlt. rewrite Hs. now right.
    + cbn [finished set_cur_bytes]. eapply Forall_impl; [|exact Hfin].
      intros [[id off] len] Hf. unfold fin_ok in *. destruct Hf as [Hz|(s & Hin & Hid & Hb & Hc)]; [now left|right].
      rewrite Hs in Hin. destruct Hin as [<-|Hin].
      * exists {| sid := sid (cur o); scap := scap (cur o); sbytes := bs |}. cbn [set_cur_bytes segs ostart].
        split; [now left|]. split; [exact Hid|]. rewrite Hcur. simpl. specialize (Hc (eq_sym Hid)). split; [lia | intros _; exact Hc].
      * exists s. cbn [set_cur_bytes segs ostart]. split; [now right|]. split; [exact Hid|]. split; [exact Hb|].
        rewrite Hcur. simpl. exact Hc.
  - intros [[id off] len] Hf. rewrite Forall_forall in Hfin. specialize (Hfin _ Hf). unfold fin_ok in Hfin.
    destruct Hfin as [->|(s & Hin & Hid & Hb & Hc)].
    + unfold read_obj. destruct (List.find _ _), (List.find _ _); simpl; auto.
    + rewrite (read_obj_in o id off len s Hnd Hin Hid).
      rewrite Hs in Hin. destruct Hin as [<-|Hin].
      * rewrite (read_obj_in (set_cur_bytes o bs) id off len {| sid := sid (cur o); scap := scap (cur o); sbytes := bs |} Hnd');
          [|cbn; now left | exact Hid].
        simpl. specialize (Hc (eq_sym Hid)). f_equal.
        apply (firstn_skipn_prefix bs (sbytes (cur o)) off len (ostart o)); auto.
      * rewrite (read_obj_in (set_cur_bytes o bs) id off len s Hnd'); [reflexivity | cbn; now right | exact Hid].
Qed.

(* a new current segment holding a copy of the top object *)
Lemma oexpand_keeps o add : oinv o ->
  oinv (oexpand o add) /\
  (forall f, In f (finished o) -> read_obj (oexpand o add) f = read_obj o f) /\
  top_bytes (oexpand o add) = top_bytes o /\ finished (oexpand o add) = finished o /\
  length (sbytes (cur (oexpand o add))) + add <= scap (cur (oexpand o add)) /\
  ostart (oexpand o add) = 0 /\ sbytes (cur (oexpand o add)) = top_bytes o.
Proof.
  intros (Hne & Hst & (Hnd & Hlt) & Hfin).
  pose proof (segs_cur o Hne) as Hs.
  set (rest := if Nat.eqb (ostart o) 0 then tl (segs o) else segs o).
  assert (Hrest : forall s, In s rest -> In s (segs o)).
  { intros s. unfold rest. destruct (Nat.eqb (ostart o) 0); auto. rewrite Hs at 2. simpl; auto. }
  assert (Htl_rest : forall s, In s (tl (segs o)) -> In s rest).
  { intros s Hin. unfold rest. destruct (Nat.eqb (ostart o) 0); auto. rewrite Hs. now right. }
  assert (Hcur_rest : ostart o <> 0 -> In (cur o) rest).
  { intros Hne0. unfold rest. rewrite (proj2 (Nat.eqb_neq _ _) Hne0). rewrite Hs. now left. }
  assert (Hndr : NoDup (map sid rest)).
  { unfold rest. destruct (Nat.eqb (ostart o) 0); auto. rewrite Hs in Hnd. simpl in Hnd. now inversion Hnd. }
  assert (Hnd' : NoDup (map sid (segs (oexpand o add)))).
  { cbn [oexpand segs]. fold rest. simpl. constructor; auto. intros Hin. apply in_map_iff in Hin.
    destruct Hin as (s & E & Hin). specialize (Hlt s (Hrest s Hin)). lia. }
  split; [|split; [|split; [|split; [|split; [|split]]]]]; try reflexivity.
  - unfold oinv. split; [cbn; discriminate|]. split; [cbn; lia|]. split.
    + split; [exact Hnd'|]. intros s Hin. cbn [oexpand segs next_id] in *. fold rest in Hin. destruct Hin as [<-|Hin]; simpl; [lia|].
      specialize (Hlt s (Hrest s Hin)). lia.
    + cbn [finished oexpand]. rewrite Forall_forall in *. intros [[id off] len] Hf. specialize (Hfin _ Hf). unfold fin_ok in *.
      destruct Hfin as [Hz|(s & Hin & Hid & Hb & Hc)]; [now left|].
      cbn [oexpand segs ostart]. fold rest.
      rewrite Hs in Hin. destruct Hin as [<-|Hin].
      * (* the object lives in the old current segment *)
        destruct (Nat.eq_dec (ostart o) 0) as [E0|E0].
        -- (* that segment is released: only empty objects lived at its start *)
           left. specialize (Hc (eq_sym Hid)). lia.
        -- right. exists (cur o). split; [right; now apply Hcur_rest|].
           split; [exact Hid|]. split; [exact Hb|]. unfold cur at 1. simpl. intros E.
           specialize (Hlt (cur o) ltac:(rewrite Hs; now left)). lia.
      * right. exists s. split; [right; now apply Htl_rest|].
        split; [exact Hid|]. split; [exact Hb|]. unfold cur at 1. simpl. intros E.
        specialize (Hlt s ltac:(rewrite Hs; now right)). lia.
  - intros [[id off] len] Hf. rewrite Forall_forall in Hfin. specialize (Hfin _ Hf). unfold fin_ok in Hfin.
    destruct Hfin as [->|(s & Hin & Hid & Hb & Hc)].
    + unfold read_obj. destruct (List.find _ _), (List.find _ _); simpl; auto.
    + rewrite (read_obj_in o id off len s Hnd Hin Hid).
      rewrite Hs in Hin. destruct Hin as [<-|Hin].
      * destruct (Nat.eq_dec (ostart o) 0) as [E0|E0].
        -- specialize (Hc (eq_sym Hid)). assert (len = 0) by lia. subst len.
           unfold read_obj. destruct (List.find _ _); simpl; auto.
        -- rewrite (read_obj_in (oexpand o add) id off len (cur o) Hnd'); [reflexivity| |exact Hid].
           cbn [oexpand segs]. right. now apply Hcur_rest.
      * rewrite (read_obj_in (oexpand o add) id off len s Hnd'); [reflexivity| |exact Hid].
        cbn [oexpand segs]. right. now apply Htl_rest.
  - unfold cur. cbn [oexpand segs hd scap sbytes]. lia.
Qed.

Lemma oappend_keeps o bs : oinv o ->
  oinv (oappend o bs) /\
  (forall f, In f (finished o) -> read_obj (oappend o bs) f = read_obj o f) /\
  top_bytes (oappend o bs) = top_bytes o ++ bs /\ finished (oappend o bs) = finished o /\
  length (sbytes (cur (oappend o bs))) <= scap (cur (oappend o bs)).       (* every write is inside the segment *)
Proof.
  intros Hinv. unfold oappend.
  set (o1 := if Nat.ltb (scap (cur o)) (length (sbytes (cur o)) + length bs) then oexpand o (length bs) else o).
  assert (H1 : oinv o1 /\ (forall f, In f (finished o) -> read_obj o1 f = read_obj o f) /\ top_bytes o1 = top_bytes o /\
               finished o1 = finished o /\ length (sbytes (cur o1)) + length bs <= scap (cur o1)).
  { unfold o1. destruct (Nat.ltb_spec (scap (cur o)) (length (sbytes (cur o)) + length bs)).
    - destruct (oexpand_keeps o (length bs) Hinv) as (A & B & C & D & E & _). auto.
    - split; [exact Hinv|]. split; [reflexivity|]. split; [reflexivity|]. split; [reflexivity|]. lia. }
  destruct H1 as (I1 & R1 & T1 & F1 & C1).
  assert (Hst1 : ostart o1 <= length (sbytes (cur o1))) by apply I1.
  destruct (set_cur_bytes_keeps o1 (sbytes (cur o1) ++ bs) I1) as (I2 & R2 & T2 & S2 & K2 & B2).
  { rewrite firstn_app. replace (ostart o1 - length (sbytes (cur o1))) with 0 by lia. simpl. now rewrite app_nil_r. }
  { rewrite app_length. lia. }
  split; [exact I2|]. split; [|split; [|split]].
  - intros f Hf. rewrite R2 by (rewrite F1; exact Hf). now apply R1.
  - rewrite T2, skipn_app. replace (ostart o1 - length (sbytes (cur o1))) with 0 by lia. simpl.
    unfold top_bytes in T1. now rewrite T1.
  - cbn. exact F1.
  - rewrite B2, K2, app_length. exact C1.
Qed.

(* ---------- the abstract stack of objects ---------- *)
Definition ospec := (list (list nat) * list nat)%type.     (* finished objects (oldest first), top object *)
Definition ospec_step (s : ospec) (p : oop) : ospec :=
  let '(fin, top) := s in
  match p with
  | OAdd bs => (fin, top ++ bs)
  | OExpand n => (fin, top ++ repeat 238 n)
  | OShorten n => (fin, if Nat.ltb (length top) n then [] else firstn (length top - n) top)
  | ONullify => (fin, [])
  | OFinish => (fin ++ [top], [])
  | OEmpty => ([], [])
  | ODumpTop | OCheck => (fin, top)
  end.

Definition oabs (o : ostack) : option ospec :=
  let rd := map (read_obj o) (rev (finished o)) in
  if forallb (fun x => match x with Some _ => true | None => false end) rd
  then Some (map (fun x => match x with Some b => b | None => [] end) rd, top_bytes o)
  else None.

Lemma map_unsome (fin : list (list nat)) :
  map (fun x : option (list nat) => match x with Some b => b | None => [] end) (map Some fin) = fin.
Proof. induction fin as [|a fin IH]; simpl; [reflexivity|]. now rewrite IH. Qed.

Lemma oabs_some o fin top : oabs o = Some (fin, top) <->
  map (read_obj o) (rev (finished o)) = map Some fin /\ top = top_bytes o.
Proof.
  unfold oabs. generalize (map (read_obj o) (rev (finished o))). intros rd. split.
  - destruct (forallb _ rd) eqn:E; [|discriminate]. intros H; injection H as <- <-. split; auto.
    induction rd as [|[b|] rd IH]; simpl in *; try discriminate; auto. f_equal. now apply IH.
  - intros [-> ->]. assert (E : forallb (fun x : option (list nat) => match x with Some _ => true | None => false end) (map Some fin) = true).
    { induction fin; simpl; auto. }
    rewrite E. now rewrite map_unsome.
Qed.

Lemma skipn_firstn_comm' {A} m n (l : list A) : skipn m (firstn (m + n) l) = firstn n (skipn m l).
Proof. revert l; induction m as [|m IH]; intros [|x l]; simpl; auto. now rewrite firstn_nil. Qed.

(* Every operation except [OEmpty] keeps all finished objects where they are,
   byte for byte, and acts on the top object as the abstract stack prescribes. *)
Theorem ostack_refines o p fin top : oinv o -> oabs o = Some (fin, top) ->
  oinv (fst (ostep o p)) /\ oabs (fst (ostep o p)) = Some (ospec_step (fin, top) p).
Proof.
  intros Hinv Habs. apply oabs_some in Habs. destruct Habs as [Hfin ->].
  assert (Hkeep : forall o', (forall f, In f (finished o) -> read_obj o' f = read_obj o f) -> finished o' = finished o ->
            map (read_obj o') (rev (finished o')) = map Some fin).
  { intros o' R F. rewrite F, <- Hfin. apply map_ext_in. intros f Hf. apply R. now apply in_rev. }
  destruct p as [bs|n|n| | | | |]; cbn [ostep fst ospec_step].
  - destruct (oappend_keeps o bs Hinv) as (I & R & T & F & _). split; auto. apply oabs_some. split; auto.
  - destruct (oappend_keeps o (repeat 238 n) Hinv) as (I & R & T & F & _). split; auto. apply oabs_some. split; auto.
  - set (keep := if Nat.ltb (length (top_bytes o)) n then 0 else length (top_bytes o) - n).
    assert (Hst : ostart o <= length (sbytes (cur o))) by apply Hinv.
    assert (Htl : length (top_bytes o) = length (sbytes (cur o)) - ostart o) by (unfold top_bytes; now rewrite skipn_length).
    assert (Hk : keep <= length (top_bytes o)) by (unfold keep; destruct (Nat.ltb _ _); lia).
    destruct (set_cur_bytes_keeps o (firstn (ostart o + keep) (sbytes (cur o))) Hinv) as (I & R & T & _).
    { rewrite firstn_firstn. f_equal. lia. }
    { rewrite firstn_length. lia. }
    split; auto. apply oabs_some. split; [now apply Hkeep|].
    rewrite T, skipn_firstn_comm'. unfold keep. fold (top_bytes o).
    destruct (Nat.ltb_spec (length (top_bytes o)) n); auto.
  - assert (Hst : ostart o <= length (sbytes (cur o))) by apply Hinv.
    destruct (set_cur_bytes_keeps o (firstn (ostart o) (sbytes (cur o))) Hinv) as (I & R & T & _).
    { now rewrite firstn_firstn, Nat.min_id. }
    { rewrite firstn_length. lia. }
    split; auto. apply oabs_some. split; [now apply Hkeep|].
    rewrite T. symmetry. apply skipn_all2. rewrite firstn_length. lia.
  - (* finish: the top object becomes a finished object and stays where it is *)
    assert (Hst : ostart o <= length (sbytes (cur o))) by apply Hinv.
    set (used := length (sbytes (cur o))).
    assert (Hal : used <= align8 used).
    { unfold align8. pose proof (Nat.div_mod (used + 7) 8 ltac:(lia)). pose proof (Nat.mod_upper_bound (used + 7) 8 ltac:(lia)). lia. }
    destruct (set_cur_bytes_keeps o (sbytes (cur o) ++ repeat 0 (align8 used - used)) Hinv) as (I & R & T & S & K & B).
    { rewrite firstn_app. replace (ostart o - length (sbytes (cur o))) with 0 by lia. simpl. now rewrite app_nil_r. }
    { rewrite app_length. lia. }
    set (o1 := set_cur_bytes o (sbytes (cur o) ++ repeat 0 (align8 used - used))) in *.
    set (o2 := {| segs := segs o1; ostart := align8 used; next_id := next_id o; init_len := init_len o;
                  finished := (sid (cur o), ostart o, used - ostart o) :: finished o |}).
    assert (Hcur2 : cur o2 = cur o1) by reflexivity.
    destruct I as (N1 & S1 & (D1 & L1) & F1).
    assert (Hlen1 : length (sbytes (cur o1)) = align8 used).
    { rewrite B, app_length, repeat_length. fold used. lia. }
    assert (Hin1 : In (cur o1) (segs o1)) by (rewrite (segs_cur o1 N1); now left).
    split.
    + unfold oinv. split; [exact N1|]. split; [rewrite Hcur2, Hlen1; cbn; lia|]. split; [split; [exact D1 | exact L1]|].
      cbn [finished o2]. constructor.
      * unfold fin_ok. right. exists (cur o1). split; [exact Hin1|]. split; [exact S|]. split.
        -- rewrite Hlen1. lia.
        -- intros _. cbn [ostart o2]. lia.
      * eapply Forall_impl; [|exact F1]. intros [[id off] len] Hf. unfold fin_ok in *.
        destruct Hf as [Hz|(s & Hin & Hid & Hb & Hc)]; [now left|right]. exists s. repeat split; auto.
        intros E. rewrite Hcur2 in E. specialize (Hc E). cbn [ostart o2]. cbn [ostart o1 set_cur_bytes] in Hc. lia.
    + apply oabs_some. cbn [finished o2 ospec_step]. simpl rev. rewrite map_app. split.
      * rewrite map_app. f_equal.
        -- rewrite <- Hfin. apply map_ext_in. intros f Hf. apply in_rev in Hf.
           transitivity (read_obj o1 f); [|now apply R]. unfold read_obj. reflexivity.
        -- cbn [map]. f_equal.
           change (read_obj o2 (sid (cur o), ostart o, used - ostart o)) with (read_obj o1 (sid (cur o), ostart o, used - ostart o)).
           rewrite (read_obj_in o1 _ _ _ (cur o1) D1 Hin1 S). f_equal. rewrite B.
           rewrite skipn_app, firstn_app, skipn_length. fold used.
           replace (used - ostart o - (used - ostart o)) with 0 by lia. simpl. rewrite app_nil_r.
           unfold top_bytes. apply firstn_all2. rewrite skipn_length. fold used. lia.
      * unfold top_bytes. rewrite Hcur2. cbn [ostart o2]. rewrite <- Hlen1. now rewrite skipn_all.
  - (* empty *)
    split.
    + unfold oinv, ids_ok, cur; simpl. repeat split; auto; try discriminate; try lia.
      * repeat constructor. simpl; tauto.
      * intros s [<-|[]]. simpl. destruct Hinv as (Hne & _ & (_ & Hlt) & _). apply Hlt.
        destruct (segs o) as [|x l] eqn:E; [congruence|]. apply (@exists_last _ (x :: l)) in Hne as (l' & a & E').
        rewrite E'. rewrite last_last. apply in_or_app. right. now left.
    + reflexivity.
  - split; auto. apply oabs_some. auto.
  - split; auto. apply oabs_some. auto.
Qed.

(* all histories *)
Fixpoint ospec_run (s : ospec) (ps : list oop) : ospec :=
  match ps with [] => s | p :: ps' => ospec_run (ospec_step s p) ps' end.
Fixpoint ofinal (o : ostack) (ps : list oop) : ostack :=
  match ps with [] => o | p :: ps' => ofinal (fst (ostep o p)) ps' end.

Theorem ostack_refines_all ps : forall o s, oinv o -> oabs o = Some s ->
  oinv (ofinal o ps) /\ oabs (ofinal o ps) = Some (ospec_run s ps).
Proof.
  induction ps as [|p ps IH]; intros o [fin top] Hi Ha; simpl; auto.
  destruct (ostack_refines o p fin top Hi Ha) as [Hi' Ha']. now apply IH.
Qed.

Theorem ostack_create_abs len : oinv (ocreate len) /\ oabs (ocreate len) = Some ([], []).
Proof. split; [apply ocreate_inv | reflexivity]. Qed.
