(* C10 - grammar definition succeeds iff the grammar is well-formed; a nonzero
   code names a defect that is really present.  [read_model] follows the
   checks of yaep_read_grammar / check_grammar in the order of the C code;
   [defect_b c] decides the defect documented for code c independently of any
   order; [well_formed_b] is the absence of all of them. *)
From YV Require Import Prelude EarleySpec Generated ReadGrammar ReadGrammarProofs ReadGrammarSem LoopSem Link.
Local Open Scope Z_scope.

Theorem C10_ok_iff : forall strict terms rules,
  read_model strict terms rules = 0 <-> well_formed_b strict terms rules = true.
Proof. exact ok_iff_well_formed. Qed.
Print Assumptions C10_ok_iff.

Theorem C10_code_names_defect : forall strict terms rules c,
  read_model strict terms rules = c -> c <> 0 -> defect_b strict terms rules c = true.
Proof. exact code_names_defect. Qed.
Print Assumptions C10_code_names_defect.

Theorem C10_reserved_codes : END_MARKER_CODE < 0 /\ TERM_ERROR_CODE < 0.
Proof. vm_compute. split; reflexivity. Qed.
Print Assumptions C10_reserved_codes.

Local Close Scope Z_scope.
(* What the defects 15 and 16 are about, semantically: the flag "derives a
   terminal string" computed by the repeated passes of set_empty_access_derives
   holds exactly for the nonterminals that have a rule whose right-hand side can
   be rewritten to terminals, the flag "derives the empty string" exactly for
   those whose right-hand side can be rewritten to nothing (the fixed number of
   passes always reaches the fixpoint). *)
Theorem C10_productive_flag_meaning : forall terms rules x,
  memn x (productive terms rules) = true <->
  exists rhs, In (x, rhs) (arules rules) /\ gen (arules rules) (is_term terms) rhs.
Proof. exact productive_spec. Qed.
Print Assumptions C10_productive_flag_meaning.

Theorem C10_nullable_flag_meaning : forall rules x,
  memn x (nullable rules) = true <->
  exists rhs, In (x, rhs) (arules rules) /\ gen (arules rules) (fun _ => false) rhs.
Proof. exact nullable_spec. Qed.
Print Assumptions C10_nullable_flag_meaning.

(* the flag "accessible" holds exactly for the symbols that can be reached from the axiom through right-hand sides *)
Theorem C10_reachable_flag_meaning : forall rules x,
  memn x (ReadGrammar.reachable rules) = true <-> ReadGrammarSem.reachable (arules rules) n_axiom x.
Proof. exact reachable_spec. Qed.
Print Assumptions C10_reachable_flag_meaning.

(* "a nonterminal that can derive itself" (code 16): the loop check finds something exactly when some nonterminal
   reaches itself through one or more unit edges; a unit edge x -> y is a rule x : a y b in which y is a nonterminal
   and every symbol of a and of b is marked nullable (whose meaning is C10_nullable_flag_meaning) *)
Theorem C10_loop_check_meaning : forall terms rules,
  loops terms rules <> [] <->
  exists x, Relation_Operators.clos_trans nat (fun a b => In (a, b) (unit_edges terms rules)) x x.
Proof. exact loops_spec. Qed.
Print Assumptions C10_loop_check_meaning.

Theorem C10_unit_edge_meaning : forall terms rules x y,
  In (x, y) (unit_edges terms rules) <->
  exists a b, In (x, a ++ y :: b) (arules rules) /\ is_term terms y = false /\
              (forall s, In s a -> memn s (nullable rules) = true) /\ (forall s, In s b -> memn s (nullable rules) = true).
Proof. exact unit_edge_spec. Qed.
Print Assumptions C10_unit_edge_meaning.

(* the fixed number of passes of the loop check always suffices: its result is a fixed point *)
Theorem C10_loop_check_passes_suffice : forall terms rules,
  lpass (unit_edges terms rules) (loops terms rules) = loops terms rules.
Proof. intros terms rules. exact (lres_stable (unit_edges terms rules)). Qed.
Print Assumptions C10_loop_check_passes_suffice.

(* the relation the flags are stated with is derivability in the grammar of the recognition theory (EarleySpec) *)
Theorem C10_rewriting_is_derivation : forall terms rules l,
  gen (arules rules) (is_term terms) l <-> exists w, derives (cg terms rules) (map (conv terms) l) w.
Proof. exact gen_derives. Qed.
Print Assumptions C10_rewriting_is_derivation.

Theorem C10_rewriting_to_nothing_is_derivation_of_the_empty_string : forall terms rules,
  (forall s rhs0, In (s, rhs0) (arules rules) -> is_term terms s = false) ->
  forall l, gen (arules rules) (fun _ => false) l <-> derives (cg terms rules) (map (conv terms) l) [].
Proof. exact gen_nil_derives. Qed.
Print Assumptions C10_rewriting_to_nothing_is_derivation_of_the_empty_string.

(* "accessible" is top-down reachability in the recognition theory, for productive grammars without rules for terminals *)
Theorem C10_accessible_is_top_down_reachable : forall terms rules,
  (forall s rhs0, In (s, rhs0) (arules rules) -> is_term terms s = false) ->
  Viable.productive (cg terms rules) -> is_term terms n_axiom = false -> forall x, is_term terms x = false ->
  (ReadGrammarSem.reachable (arules rules) n_axiom x <-> exists p, reach (cg terms rules) n_axiom p x).
Proof. exact reachable_reach. Qed.
Print Assumptions C10_accessible_is_top_down_reachable.

(* what acceptance under strict checking means in the recognition theory: the grammar is reduced *)
Theorem C10_strictly_accepted_grammars_are_reduced : forall terms rules, read_model true terms rules = 0%Z ->
  Viable.productive (cg terms rules) /\
  forall x, In x (nonterms terms rules) -> exists p, reach (cg terms rules) n_axiom p x.
Proof. exact strict_accepted_is_reduced. Qed.
Print Assumptions C10_strictly_accepted_grammars_are_reduced.
