(* C10 - grammar definition succeeds iff the grammar is well-formed; a nonzero
   code names a defect that is really present.  [read_model] follows the
   checks of yaep_read_grammar / check_grammar in the order of the C code;
   [defect_b c] decides the defect documented for code c independently of any
   order; [well_formed_b] is the absence of all of them. *)
From YV Require Import Prelude Generated ReadGrammar ReadGrammarProofs.
Local Open Scope Z_scope.

Theorem C10_ok_iff : forall strict terms rules,
  read_model strict terms rules = 0 <-> well_formed_b strict terms rules = true.
Proof. exact ok_iff_well_formed. Qed.
Print Assumptions C10_ok_iff.

Theorem C10_code_names_defect : forall strict terms rules c,
  read_model strict terms rules = c -> c <> 0 -> defect_b strict terms rules c = true.
Proof. exact code_names_defect. Qed.
Print Assumptions C10_code_names_defect.

Theorem C10_reserved_codes : END_MARKER_CODE < 0 /\ TERM_ERROR_CODE < 0.
Proof. vm_compute. split; reflexivity. Qed.
Print Assumptions C10_reserved_codes.
