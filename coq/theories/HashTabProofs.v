(* HashTabProofs: the open-addressing hash table of hashtab.c / hashtab.cpp
   (model: Containers.ht) refines a finite set through any sequence of
   operations: a search finds exactly the elements inserted and not removed,
   across expansions, deletions and the re-use of deleted slots; and the probe
   loop always terminates (the table size is a prime, the probe step is
   strictly between 0 and the size, an unexpanded table has an empty slot).
   The expansion test, the probe step and the new size are the expressions
   regenerated from the C and C++ sources (Generated.v); their side conditions
   are the lemmas of GeneratedChecks.v. *)
From YV Require Import Prelude Generated GeneratedChecks Containers.
From Coq Require Import Znumtheory Permutation.
Local Open Scope nat_scope.

(* ---------- slots, set_nth, fulls ---------- *)
Lemma set_nth_length {A} i (x : A) l : length (set_nth i x l) = length l.
Proof. revert i; induction l as [|y l IH]; intros [|i]; simpl; auto. Qed.

Lemma nth_set_nth {A} i j (x d : A) l : i < length l ->
  nth j (set_nth i x l) d = if Nat.eqb j i then x else nth j l d.
Proof.
  revert i j; induction l as [|y l IH]; intros [|i] [|j] H; simpl in *; try lia; auto.
  apply IH. lia.
Qed.

Lemma set_nth_split {A} i (x d : A) l : i < length l ->
  l = firstn i l ++ nth i l d :: skipn (S i) l /\ set_nth i x l = firstn i l ++ x :: skipn (S i) l.
Proof.
  revert i; induction l as [|y l IH]; intros [|i] H; simpl in *; try lia; auto.
  destruct (IH i ltac:(lia)) as [A1 A2]. split; f_equal; auto.
Qed.

Lemma set_nth_twice {A} i (x y : A) l : set_nth i x (set_nth i y l) = set_nth i x l.
Proof. revert i; induction l as [|z l IH]; intros [|i]; simpl; auto. f_equal; auto. Qed.

Lemma fulls_app l1 l2 : fulls (l1 ++ l2) = fulls l1 ++ fulls l2.
Proof. unfold fulls. apply flat_map_app. Qed.

Lemma fulls_repeat n : fulls (repeat Empty n) = [].
Proof. induction n; simpl; auto. Qed.

Lemma nth_repeat_Empty n i : nth i (repeat Empty n) Empty = Empty.
Proof. revert i; induction n; intros [|i]; simpl; auto. Qed.

Lemma in_fulls_nth es k : In k (fulls es) <-> exists i, i < length es /\ nth i es Empty = Full k.
Proof.
  induction es as [|s es IH]; simpl.
  - split; [tauto | intros (i & H & _); lia].
  - change (fulls (s :: es)) with ((match s with Full k => [k] | _ => [] end) ++ fulls es).
    rewrite in_app_iff, IH. split.
    + intros [H | (i & Hi & E)].
      * destruct s; simpl in H; try tauto. destruct H as [-> | []]. exists 0. split; [lia | reflexivity].
      * exists (S i). split; [lia | exact E].
    + intros ([|i] & Hi & E).
      * left. subst s. simpl. auto.
      * right. exists i. split; [lia | exact E].
Qed.

Definition nonempty (s : slot) : bool := match s with Empty => false | _ => true end.
Definition count_ne (es : list slot) : nat := length (filter nonempty es).

Lemma count_ne_app l1 l2 : count_ne (l1 ++ l2) = count_ne l1 + count_ne l2.
Proof. unfold count_ne. rewrite filter_app, app_length. reflexivity. Qed.

Lemma count_ne_le es : count_ne es <= length es.
Proof. unfold count_ne. induction es as [|s es IH]; simpl; auto. destruct (nonempty s); simpl; lia. Qed.

Lemma count_ne_repeat n : count_ne (repeat Empty n) = 0.
Proof. unfold count_ne. induction n; simpl; auto. Qed.

(* a table with fewer non-empty slots than slots has an empty one *)
Lemma has_empty es : count_ne es < length es -> exists i, i < length es /\ nth i es Empty = Empty.
Proof.
  unfold count_ne. induction es as [|s es IH]; simpl; [lia|]. intros H.
  destruct s; simpl in H.
  - exists 0. split; [lia | reflexivity].
  - destruct IH as (i & Hi & E); [lia|]. exists (S i). split; [lia | exact E].
  - destruct IH as (i & Hi & E); [lia|]. exists (S i). split; [lia | exact E].
Qed.

(* the effect of overwriting one slot on the multiset of elements and on the count *)
Lemma set_full es i k : i < length es -> (forall k', nth i es Empty <> Full k') ->
  Permutation (fulls (set_nth i (Full k) es)) (k :: fulls es) /\
  count_ne (set_nth i (Full k) es) <= S (count_ne es) /\
  (nth i es Empty <> Empty -> count_ne (set_nth i (Full k) es) = count_ne es).
Proof.
  intros Hi Hn. destruct (set_nth_split i (Full k) Empty es Hi) as [E1 E2].
  rewrite E2.
  assert (X : fulls es = fulls (firstn i es) ++ fulls (nth i es Empty :: skipn (S i) es)) by (rewrite <- fulls_app, <- E1; reflexivity).
  assert (Y : count_ne es = count_ne (firstn i es) + count_ne (nth i es Empty :: skipn (S i) es)) by (rewrite <- count_ne_app, <- E1; reflexivity).
  rewrite X, Y, fulls_app, count_ne_app. clear X Y E1 E2.
  change (fulls (Full k :: skipn (S i) es)) with (k :: fulls (skipn (S i) es)).
  change (count_ne (Full k :: skipn (S i) es)) with (S (count_ne (skipn (S i) es))).
  destruct (nth i es Empty) eqn:E.
  - change (fulls (Empty :: skipn (S i) es)) with (fulls (skipn (S i) es)).
    change (count_ne (Empty :: skipn (S i) es)) with (count_ne (skipn (S i) es)).
    split; [symmetry; apply Permutation_middle|]. split; [lia | congruence].
  - change (fulls (Deleted :: skipn (S i) es)) with (fulls (skipn (S i) es)).
    change (count_ne (Deleted :: skipn (S i) es)) with (S (count_ne (skipn (S i) es))).
    split; [symmetry; apply Permutation_middle|]. split; [lia | intros _; lia].
  - exfalso. eapply Hn. reflexivity.
Qed.

Lemma set_deleted es i k : i < length es -> nth i es Empty = Full k ->
  Permutation (k :: fulls (set_nth i Deleted es)) (fulls es) /\
  count_ne (set_nth i Deleted es) = count_ne es.
Proof.
  intros Hi Hn. destruct (set_nth_split i Deleted Empty es Hi) as [E1 E2].
  rewrite E2.
  assert (X : fulls es = fulls (firstn i es) ++ fulls (nth i es Empty :: skipn (S i) es)) by (rewrite <- fulls_app, <- E1; reflexivity).
  assert (Y : count_ne es = count_ne (firstn i es) + count_ne (nth i es Empty :: skipn (S i) es)) by (rewrite <- count_ne_app, <- E1; reflexivity).
  rewrite X, Y, fulls_app, count_ne_app, Hn. clear X Y E1 E2.
  change (fulls (Deleted :: skipn (S i) es)) with (fulls (skipn (S i) es)).
  change (fulls (Full k :: skipn (S i) es)) with (k :: fulls (skipn (S i) es)).
  split; [apply Permutation_middle | reflexivity].
Qed.

(* ---------- the probe sequence ---------- *)
Definition nxt (p idx stp : nat) : nat := let i := idx + stp in if Nat.leb p i then i - p else i.
Fixpoint walk (p stp idx j : nat) : nat :=
  match j with O => idx | S j' => walk p stp (nxt p idx stp) j' end.

Lemma nxt_mod p idx stp : idx < p -> stp < p -> nxt p idx stp = (idx + stp) mod p.
Proof.
  intros H1 H2. unfold nxt. destruct (Nat.leb_spec p (idx + stp)).
  - apply Nat.mod_unique with (q := 1); lia.
  - symmetry. apply Nat.mod_small. lia.
Qed.

Lemma nxt_lt p idx stp : idx < p -> stp < p -> nxt p idx stp < p.
Proof. intros H1 H2. unfold nxt. destruct (Nat.leb_spec p (idx + stp)); lia. Qed.

Lemma walk_lt p stp j : forall idx, idx < p -> stp < p -> walk p stp idx j < p.
Proof. induction j as [|j IH]; intros idx H1 H2; simpl; auto. apply IH; auto. apply nxt_lt; auto. Qed.

Lemma walk_mod p stp j : forall idx, idx < p -> stp < p -> walk p stp idx j = (idx + j * stp) mod p.
Proof.
  induction j as [|j IH]; intros idx H1 H2; simpl.
  - rewrite Nat.add_0_r. symmetry. apply Nat.mod_small; auto.
  - rewrite IH by (auto using nxt_lt). rewrite nxt_mod by auto.
    rewrite Nat.add_mod_idemp_l by lia. f_equal. lia.
Qed.

Lemma walk_S p stp j : forall idx, walk p stp idx (S j) = nxt p (walk p stp idx j) stp.
Proof. induction j as [|j IH]; intros idx; simpl; auto. rewrite <- IH. reflexivity. Qed.

(* with a prime size and a step strictly between 0 and the size, the first p probes are all different *)
Lemma walk_inj p stp idx j1 j2 : prime (Z.of_nat p) -> idx < p -> 0 < stp < p -> j1 < j2 < p ->
  walk p stp idx j1 <> walk p stp idx j2.
Proof.
  intros Hp Hi Hs Hj E. rewrite !walk_mod in E by lia.
  assert (D : (Z.of_nat p | Z.of_nat (j2 - j1) * Z.of_nat stp)%Z).
  { pose proof (Nat.div_mod (idx + j1 * stp) p ltac:(lia)) as A.
    pose proof (Nat.div_mod (idx + j2 * stp) p ltac:(lia)) as B.
    rewrite E in A.
    exists (Z.of_nat ((idx + j2 * stp) / p) - Z.of_nat ((idx + j1 * stp) / p))%Z.
    apply (f_equal Z.of_nat) in A, B. rewrite !Nat2Z.inj_add, !Nat2Z.inj_mul in A, B.
    rewrite Nat2Z.inj_sub by lia. lia. }
  apply prime_mult in D; [|exact Hp]. destruct D as [D | D]; apply Z.divide_pos_le in D; lia.
Qed.

(* ---------- the table size is a prime ---------- *)
Lemma odf_false : forall fuel i n, odd_divisor_from fuel i n = false -> 0 < i ->
  n < (i + 2 * fuel) * (i + 2 * fuel) ->
  forall d, i <= d -> d * d <= n -> (d - i) mod 2 = 0 -> n mod d <> 0.
Proof.
  induction fuel as [|f IH]; intros i n H Hi Hf d H1 H2 H3.
  - nia.
  - cbn [odd_divisor_from] in H. destruct (Nat.ltb_spec n (i * i)); [nia|].
    destruct (Nat.eqb_spec (n mod i) 0) as [E|E]; [discriminate|].
    destruct (Nat.eq_dec d i) as [->|Hd]; [exact E|].
    assert (i + 2 <= d).
    { destruct (Nat.eq_dec d (i + 1)) as [->|]; [|lia]. replace (i + 1 - i) with 1 in H3 by lia. discriminate. }
    apply (IH (i + 2) n H); lia.
Qed.

Lemma odd_factor a b : (a * b) mod 2 = 1 -> a mod 2 = 1.
Proof.
  intros H. rewrite Nat.mul_mod in H by lia.
  pose proof (Nat.mod_upper_bound a 2 ltac:(lia)). pose proof (Nat.mod_upper_bound b 2 ltac:(lia)).
  destruct (a mod 2) as [|[|?]]; [simpl in H; discriminate | reflexivity | lia].
Qed.

Lemma sq_bound n : n < (3 + 2 * n) * (3 + 2 * n).
Proof. nia. Qed.

Lemma c_prime_test_prime n : 3 <= n -> n mod 2 = 1 -> c_prime_test n = true -> prime (Z.of_nat n).
Proof.
  intros H3 Hodd Ht. unfold c_prime_test in Ht. apply negb_true_iff in Ht.
  apply prime_alt. split; [lia|]. intros dz Hd [qz Hq].
  assert (Hq0 : (0 < qz)%Z) by nia.
  set (d := Z.to_nat dz). set (q := Z.to_nat qz).
  assert (E : n = q * d) by (subst d q; nia).
  assert (Hd1 : 1 < d < n) by (subst d; lia).
  assert (Hq1 : 1 < q) by nia.
  assert (Od : d mod 2 = 1) by (apply (odd_factor d q); rewrite Nat.mul_comm, <- E; exact Hodd).
  assert (Oq : q mod 2 = 1) by (apply (odd_factor q d); rewrite <- E; exact Hodd).
  assert (G : forall e, 3 <= e -> e mod 2 = 1 -> e * e <= n -> n mod e <> 0).
  { intros e He Oe Hee. apply (odf_false n 3 n Ht); [lia | apply sq_bound | lia | exact Hee | clear - He Oe; lia]. }
  assert (d3 : 3 <= d) by (destruct (Nat.eq_dec d 2) as [X|]; [rewrite X in Od; discriminate | lia]).
  assert (q3 : 3 <= q) by (destruct (Nat.eq_dec q 2) as [X|]; [rewrite X in Oq; discriminate | lia]).
  destruct (Nat.le_gt_cases d q).
  - apply (G d d3 Od); [rewrite E; apply Nat.mul_le_mono_r; lia|]. rewrite E. apply Nat.mod_mul. lia.
  - apply (G q q3 Oq); [rewrite E; apply Nat.mul_le_mono_l; lia|]. rewrite E, Nat.mul_comm. apply Nat.mod_mul. lia.
Qed.

Lemma next_prime_spec : forall fuel m p, next_prime fuel m = Some p -> 3 <= m -> m mod 2 = 1 ->
  prime (Z.of_nat p) /\ m <= p.
Proof.
  induction fuel as [|f IH]; intros m p H Hm Ho; [discriminate|].
  cbn [next_prime] in H. destruct (c_prime_test m) eqn:E.
  - injection H as <-. split; [apply c_prime_test_prime; auto | lia].
  - apply IH in H; [|lia|lia]. destruct H; split; [auto | lia].
Qed.

Lemma higher_prime_spec n p : higher_prime n = Some p -> prime (Z.of_nat p) /\ n + 2 <= p /\ 3 <= p.
Proof.
  unfold higher_prime. intros H. apply next_prime_spec in H.
  - destruct H as [H1 H2]. split; [exact H1|]. pose proof (Nat.div_mod n 2 ltac:(lia)). pose proof (Nat.mod_upper_bound n 2 ltac:(lia)). lia.
  - lia.
  - replace (n / 2 * 2 + 3) with (1 + (n / 2 + 1) * 2) by lia. rewrite Nat.mod_add; [reflexivity | lia].
Qed.

(* ---------- the probe loop ---------- *)
Lemma probe_spec : forall fuel es k idx stp fd reserve i r,
  probe fuel es k idx stp fd reserve = Some (i, r) ->
  exists j, j < fuel /\
    (forall j', j' < j -> nth (walk (length es) stp idx j') es Empty <> Empty /\
                          nth (walk (length es) stp idx j') es Empty <> Full k) /\
    ((nth (walk (length es) stp idx j) es Empty = Full k /\ i = walk (length es) stp idx j /\ r = false) \/
     (nth (walk (length es) stp idx j) es Empty = Empty /\ r = reserve /\
      ((reserve = false /\ i = walk (length es) stp idx j) \/
       (reserve = true /\
        match fd with
        | Some d => i = d
        | None => i = walk (length es) stp idx j \/
                  exists j0, j0 < j /\ i = walk (length es) stp idx j0 /\ nth i es Empty = Deleted
        end)))).
Proof.
  induction fuel as [|f IH]; intros es k idx stp fd reserve i r H; [discriminate|].
  cbn [probe] in H. destruct (nth idx es Empty) eqn:E.
  - exists 0. split; [lia|]. split; [intros j' Hj; lia|]. right. cbn [walk]. split; [exact E|].
    injection H as Hi Hr. split; [auto|]. destruct reserve.
    + right. split; [reflexivity|]. destruct fd as [d|]; [auto | left; auto].
    + left. split; [reflexivity|]. destruct fd; auto.
  - apply IH in H. destruct H as (j & Hj & Hb & Hc). exists (S j). split; [lia|]. split.
    + intros [|j'] Hj'; cbn [walk]; [rewrite E; split; discriminate | apply Hb; lia].
    + cbn [walk]. destruct Hc as [Hc | (Hc1 & Hc2 & Hc3)]; [left; exact Hc | right].
      split; [exact Hc1|]. split; [exact Hc2|]. destruct Hc3 as [Hc3 | (Hr & Hc3)]; [left; exact Hc3 | right].
      split; [exact Hr|]. destruct fd as [d|]; [exact Hc3|]. right. exists 0. split; [lia|]. cbn [walk]. subst i. auto.
  - destruct (Nat.eqb_spec k0 k) as [->|Hk].
    + injection H as <- <-. exists 0. split; [lia|]. split; [intros j' Hj; lia|]. left. cbn [walk]. auto.
    + apply IH in H. destruct H as (j & Hj & Hb & Hc). exists (S j). split; [lia|]. split.
      * intros [|j'] Hj'; cbn [walk]; [rewrite E; split; [discriminate | congruence] | apply Hb; lia].
      * cbn [walk]. destruct Hc as [Hc | (Hc1 & Hc2 & Hc3)]; [left; exact Hc | right].
        split; [exact Hc1|]. split; [exact Hc2|]. destruct Hc3 as [Hc3 | (Hr & Hc3)]; [left; exact Hc3 | right].
        split; [exact Hr|]. destruct fd as [d|]; [exact Hc3|]. destruct Hc3 as [Hc3 | (j0 & Hj0 & Hc3)]; [left; exact Hc3 | right].
        exists (S j0). split; [lia | exact Hc3].
Qed.

Lemma probe_total : forall fuel es k idx stp fd reserve,
  (exists j, j < fuel /\ (nth (walk (length es) stp idx j) es Empty = Empty \/
                          nth (walk (length es) stp idx j) es Empty = Full k)) ->
  probe fuel es k idx stp fd reserve <> None.
Proof.
  induction fuel as [|f IH]; intros es k idx stp fd reserve (j & Hj & Hs); [lia|].
  cbn [probe]. destruct (nth idx es Empty) eqn:E; [discriminate| |].
  - apply IH. destruct j as [|j]; cbn [walk] in Hs; [rewrite E in Hs; destruct Hs; discriminate|].
    exists j. split; [lia | exact Hs].
  - destruct (Nat.eqb_spec k0 k) as [->|Hk]; [discriminate|].
    apply IH. destruct j as [|j]; cbn [walk] in Hs; [rewrite E in Hs; destruct Hs; congruence|].
    exists j. split; [lia | exact Hs].
Qed.

Lemma NoDup_map_inj_on {A B} (f : A -> B) l :
  (forall x y, In x l -> In y l -> f x = f y -> x = y) -> NoDup l -> NoDup (map f l).
Proof.
  induction l as [|a l IH]; intros Hinj Hnd; simpl; [constructor|].
  inversion Hnd as [|? ? Ha Hl]; subst. constructor.
  - intros Hin. apply in_map_iff in Hin. destruct Hin as (y & Hy & Hyl).
    assert (y = a) by (apply Hinj; simpl; auto). subst. contradiction.
  - apply IH; auto. intros x y Hx Hy. apply Hinj; simpl; auto.
Qed.

(* every slot is visited within the first p probes *)
Lemma walk_surj p stp idx e : prime (Z.of_nat p) -> idx < p -> 0 < stp < p -> e < p ->
  exists j, j < p /\ walk p stp idx j = e.
Proof.
  intros Hp Hi Hs He.
  set (l := map (walk p stp idx) (seq 0 p)).
  assert (ND : NoDup l).
  { apply NoDup_map_inj_on; [|apply seq_NoDup]. intros x y Hx Hy Hxy. apply in_seq in Hx, Hy.
    destruct (Nat.lt_trichotomy x y) as [L | [L | L]]; auto; exfalso.
    - apply (walk_inj p stp idx x y); auto; lia.
    - apply (walk_inj p stp idx y x); auto; lia. }
  assert (IN : incl l (seq 0 p)).
  { intros x Hx. apply in_map_iff in Hx. destruct Hx as (j & <- & Hj). apply in_seq. split; [lia|].
    simpl. apply walk_lt; lia. }
  assert (IN' : incl (seq 0 p) l).
  { apply NoDup_length_incl; auto. unfold l. rewrite map_length. lia. }
  assert (X : In e l) by (apply IN', in_seq; lia).
  apply in_map_iff in X. destruct X as (j & Hj & Hjs). apply in_seq in Hjs. exists j. split; [lia | exact Hj].
Qed.

(* ---------- the invariant ---------- *)
Definition start (t : ht) (k : nat) : nat := hash t k mod size t.
Definition stepk (t : ht) (k : nat) : nat := step_of (size t) (hash t k).

Definition Reach (es : list slot) (idx stp i : nat) : Prop :=
  exists j, j < length es /\ walk (length es) stp idx j = i /\
            forall j', j' < j -> nth (walk (length es) stp idx j') es Empty <> Empty.

Record Inv (t : ht) : Prop := {
  I_prime : prime (Z.of_nat (size t));
  I_size : 3 <= size t;
  I_nodup : NoDup (fulls (entries t));
  I_reach : forall i k, i < size t -> nth i (entries t) Empty = Full k ->
            Reach (entries t) (start t k) (stepk t k) i;
  I_count : count_ne (entries t) <= nel t;
  I_nel : length (fulls (entries t)) + ndel t = nel t }.

Lemma stepk_range t k : 3 <= size t -> 0 < stepk t k < size t.
Proof.
  intros H. unfold stepk, step_of.
  pose proof (probe_step_in_range (Z.of_nat (size t)) (Z.of_nat (hash t k)) ltac:(lia) ltac:(lia)). lia.
Qed.

Lemma start_lt t k : 3 <= size t -> start t k < size t.
Proof. intros H. unfold start. apply Nat.mod_upper_bound. lia. Qed.

Lemma Reach_mono es es' idx stp i : length es' = length es ->
  (forall x, nth x es Empty <> Empty -> nth x es' Empty <> Empty) ->
  Reach es idx stp i -> Reach es' idx stp i.
Proof.
  intros Hl Hm (j & Hj & Hw & Hb). exists j. rewrite Hl. split; [exact Hj|]. split; [exact Hw|].
  intros j' Hj'. apply Hm, Hb, Hj'.
Qed.

(* what a search without expansion returns *)
Lemma find_noexp_spec t k reserve : Inv t -> count_ne (entries t) < size t ->
  exists i t', find_noexp t k reserve = Some (t', i) /\ i < size t /\
    ((In k (fulls (entries t)) /\ nth i (entries t) Empty = Full k /\ t' = t) \/
     (~ In k (fulls (entries t)) /\
      ((reserve = false /\ t' = t /\ nth i (entries t) Empty = Empty) \/
       (reserve = true /\
        t' = {| entries := set_nth i Empty (entries t); nel := S (nel t); ndel := ndel t; hmul := hmul t; hmod := hmod t |} /\
        (forall k', nth i (entries t) Empty <> Full k') /\
        Reach (entries t) (start t k) (stepk t k) i)))).
Proof.
  intros HI Hroom. destruct HI as [Hp H3 Hnd Hre Hc Hn].
  pose proof (stepk_range t k H3) as Hs. pose proof (start_lt t k H3) as Hst.
  unfold find_noexp. fold (start t k). fold (stepk t k). unfold size in *.
  set (es := entries t) in *. set (p := length es) in *.
  (* the loop terminates: an empty slot is visited within p probes *)
  destruct (has_empty es Hroom) as (e & He & Ee).
  destruct (walk_surj p (stepk t k) (start t k) e Hp Hst Hs He) as (je & Hje & Hwe).
  destruct (probe (S p) es k (start t k) (stepk t k) None reserve) as [[i r]|] eqn:P.
  2:{ exfalso. revert P. apply probe_total. exists je. split; [lia|]. left. fold p. rewrite Hwe. exact Ee. }
  apply probe_spec in P. fold p in P. destruct P as (j & Hj & Hb & Hc').
  assert (Hwl : forall x, walk p (stepk t k) (start t k) x < p) by (intros x; apply walk_lt; lia).
  destruct (in_dec Nat.eq_dec k (fulls es)) as [Hin | Hnin].
  - (* present: the search ends on its slot *)
    apply in_fulls_nth in Hin. destruct Hin as (i0 & Hi0 & Ei0).
    destruct (Hre i0 k Hi0 Ei0) as (J & HJ & HwJ & HbJ). fold p in HJ, HwJ, HbJ.
    assert (Efull : nth (walk p (stepk t k) (start t k) j) es Empty = Full k).
    { destruct Hc' as [(A & _) | (A & _)]; [exact A|]. exfalso.
      destruct (Nat.lt_trichotomy j J) as [L | [L | L]].
      - apply (HbJ j L). exact A.
      - subst j. rewrite HwJ in A. congruence.
      - destruct (Hb J L) as [_ B]. apply B. rewrite HwJ. exact Ei0. }
    destruct Hc' as [(A & -> & ->) | (A & _)]; [|congruence].
    exists (walk p (stepk t k) (start t k) j), t. split; [reflexivity|]. split; [apply Hwl|].
    left. split; [apply in_fulls_nth; exists i0; auto | auto].
  - (* absent *)
    destruct Hc' as [(A & _) | (A & -> & Hc')].
    { exfalso. apply Hnin, in_fulls_nth. exists (walk p (stepk t k) (start t k) j). split; [apply Hwl | exact A]. }
    destruct Hc' as [(-> & ->) | (-> & Hc')].
    + exists (walk p (stepk t k) (start t k) j), t. split; [reflexivity|]. split; [apply Hwl|].
      right. split; [exact Hnin|]. left. auto.
    + assert (Hjp : j < p).
      { destruct (Nat.lt_ge_cases j p) as [L|L]; [exact L|]. exfalso.
        (* j = p would repeat a slot already seen non-empty: the empty slot e is visited before *)
        assert (je < j) by lia. destruct (Hb je H) as [B _]. apply B. rewrite Hwe. exact Ee. }
      exists i, {| entries := set_nth i Empty es; nel := S (nel t); ndel := ndel t; hmul := hmul t; hmod := hmod t |}.
      split; [reflexivity|].
      destruct Hc' as [-> | (j0 & Hj0 & -> & Ed)].
      * split; [apply Hwl|]. right. split; [exact Hnin|]. right. split; [reflexivity|]. split; [reflexivity|].
        split; [intros k'; rewrite A; discriminate|]. exists j. fold p. split; [exact Hjp|]. split; [reflexivity|].
        intros j' Hj'. apply Hb, Hj'.
      * split; [apply Hwl|]. right. split; [exact Hnin|]. right. split; [reflexivity|]. split; [reflexivity|].
        split; [intros k'; rewrite Ed; discriminate|]. exists j0. fold p. split; [lia|]. split; [reflexivity|].
        intros j' Hj'. apply Hb. lia.
Qed.

(* ---------- the operations keep the invariant ---------- *)
Definition same_params (t t' : ht) : Prop := size t' = size t /\ hmul t' = hmul t /\ hmod t' = hmod t.

Lemma same_params_walk t t' k : same_params t t' -> start t' k = start t k /\ stepk t' k = stepk t k.
Proof. intros (A & B & C). unfold start, stepk, hash. rewrite A, B, C. auto. Qed.

(* filling a reserved slot with a new element *)
Lemma insert_new_inv t k i : Inv t -> i < size t -> ~ In k (fulls (entries t)) ->
  (forall k', nth i (entries t) Empty <> Full k') ->
  Reach (entries t) (start t k) (stepk t k) i ->
  let t' := put {| entries := set_nth i Empty (entries t); nel := S (nel t); ndel := ndel t; hmul := hmul t; hmod := hmod t |} i (Full k) in
  Inv t' /\ same_params t t' /\ (forall k', In k' (fulls (entries t')) <-> k' = k \/ In k' (fulls (entries t))) /\
  nel t' = S (nel t) /\ ndel t' = ndel t /\ count_ne (entries t') <= S (count_ne (entries t)) /\
  nth i (entries t') Empty = Full k.
Proof.
  intros [Hp H3 Hnd Hre Hc Hn] Hi Hnin Hnf Hr t'.
  assert (Et : entries t' = set_nth i (Full k) (entries t)) by (unfold t', put; cbn [entries]; apply set_nth_twice).
  assert (Sz : size t' = size t) by (unfold size; rewrite Et; apply set_nth_length).
  assert (SP : same_params t t') by (split; [exact Sz | split; reflexivity]).
  destruct (set_full (entries t) i k Hi Hnf) as (P1 & P2 & P3).
  assert (Nth : forall x, nth x (entries t') Empty = if Nat.eqb x i then Full k else nth x (entries t) Empty)
    by (intros x; rewrite Et; apply nth_set_nth; exact Hi).
  assert (Mono : forall x, nth x (entries t) Empty <> Empty -> nth x (entries t') Empty <> Empty).
  { intros x Hx. rewrite Nth. destruct (Nat.eqb x i); [discriminate | exact Hx]. }
  split; [|split; [exact SP|]].
  - constructor.
    + rewrite Sz. exact Hp.
    + rewrite Sz. exact H3.
    + rewrite Et. eapply Permutation_NoDup; [symmetry; exact P1|]. constructor; auto.
    + intros i' k' Hi' E'. destruct (same_params_walk t t' k' SP) as [-> ->].
      apply Reach_mono with (es := entries t); [rewrite Et; apply set_nth_length | exact Mono |].
      rewrite Nth in E'. destruct (Nat.eqb_spec i' i) as [->|Hne].
      * injection E' as <-. exact Hr.
      * apply Hre; [rewrite <- Sz; exact Hi' | exact E'].
    + rewrite Et. unfold t', put; cbn [nel]. lia.
    + rewrite Et. apply Permutation_length in P1. rewrite P1. unfold t', put; cbn [nel ndel length]. lia.
  - split.
    + intros k'. rewrite Et. split; intros H.
      * apply (Permutation_in _ P1) in H. destruct H; auto.
      * apply (Permutation_in _ (Permutation_sym P1)). destruct H; [left; auto | right; auto].
    + split; [reflexivity|]. split; [reflexivity|]. split; [rewrite Et; exact P2|].
      rewrite Nth, Nat.eqb_refl. reflexivity.
Qed.

(* turning the slot of an element into a deleted one *)
Lemma remove_inv t k i : Inv t -> i < size t -> nth i (entries t) Empty = Full k ->
  let t' := {| entries := set_nth i Deleted (entries t); nel := nel t; ndel := S (ndel t); hmul := hmul t; hmod := hmod t |} in
  Inv t' /\ same_params t t' /\
  (forall k', In k' (fulls (entries t')) <-> k' <> k /\ In k' (fulls (entries t))) /\ nel t' - ndel t' = nel t - ndel t - 1.
Proof.
  intros [Hp H3 Hnd Hre Hc Hn] Hi E t'.
  assert (Et : entries t' = set_nth i Deleted (entries t)) by reflexivity.
  assert (Sz : size t' = size t) by (unfold size; rewrite Et; apply set_nth_length).
  assert (SP : same_params t t') by (split; [exact Sz | split; reflexivity]).
  destruct (set_deleted (entries t) i k Hi E) as (P1 & P2).
  assert (Nth : forall x, nth x (entries t') Empty = if Nat.eqb x i then Deleted else nth x (entries t) Empty)
    by (intros x; rewrite Et; apply nth_set_nth; exact Hi).
  assert (ND : NoDup (k :: fulls (entries t'))) by (eapply Permutation_NoDup; [symmetry; exact P1 | exact Hnd]).
  inversion ND as [|? ? Hk ND']; subst.
  split; [|split; [exact SP|split]].
  - constructor.
    + rewrite Sz. exact Hp.
    + rewrite Sz. exact H3.
    + exact ND'.
    + intros i' k' Hi' E'. destruct (same_params_walk t t' k' SP) as [-> ->].
      apply Reach_mono with (es := entries t); [rewrite Et; apply set_nth_length | |].
      * intros x Hx. rewrite Nth. destruct (Nat.eqb x i); [discriminate | exact Hx].
      * rewrite Nth in E'. destruct (Nat.eqb_spec i' i) as [->|Hne]; [discriminate|].
        apply Hre; [rewrite <- Sz; exact Hi' | exact E'].
    + rewrite Et, P2. exact Hc.
    + apply Permutation_length in P1. cbn [length] in P1. unfold t'; cbn [nel ndel entries]. lia.
  - intros k'. split; intros H.
    + split; [intros ->; contradiction|]. apply (Permutation_in _ P1). right. exact H.
    + destruct H as [Hne H]. apply (Permutation_in _ (Permutation_sym P1)) in H. destruct H; [congruence | exact H].
  - apply Permutation_length in P1. cbn [length] in P1. unfold t'; cbn [nel ndel]. lia.
Qed.

(* ---------- expansion ---------- *)
Definition reinsert (acc : option ht) (k : nat) : option ht :=
  match acc with
  | Some a => match find_noexp a k true with Some (a', i) => Some (put a' i (Full k)) | None => None end
  | None => None
  end.

Lemma expand_unfold t : expand t =
  match create (new_size_of (nel t)) (hmul t) (hmod t) with
  | Some t0 => fold_left reinsert (fulls (entries t)) (Some t0)
  | None => None end.
Proof. reflexivity. Qed.

Lemma reinsert_all : forall l a, Inv a -> NoDup l -> (forall k, In k l -> ~ In k (fulls (entries a))) ->
  count_ne (entries a) + length l < size a ->
  exists t', fold_left reinsert l (Some a) = Some t' /\ Inv t' /\ same_params a t' /\
    (forall k, In k (fulls (entries t')) <-> In k (fulls (entries a)) \/ In k l) /\
    nel t' = nel a + length l /\ ndel t' = ndel a /\ count_ne (entries t') <= count_ne (entries a) + length l.
Proof.
  induction l as [|k l IH]; intros a HI Hnd Hdis Hroom.
  - exists a. cbn [fold_left length]. split; [reflexivity|]. split; [exact HI|]. split; [repeat split|].
    split; [intros k; simpl; tauto|]. lia.
  - inversion Hnd as [|? ? Hk Hnd']; subst. cbn [fold_left reinsert length] in *.
    destruct (find_noexp_spec a k true HI ltac:(lia)) as (i & a' & F & Hi & Hcase). rewrite F.
    destruct Hcase as [(Hin & _) | (Hnin & Hcase)]; [exfalso; apply (Hdis k); simpl; auto|].
    destruct Hcase as [(X & _) | (_ & -> & Hnf & Hr)]; [discriminate|].
    destruct (insert_new_inv a k i HI Hi Hnin Hnf Hr) as (HI' & SP & Hel & Hnel & Hndel & Hcnt & _).
    set (a1 := put _ i (Full k)) in *.
    destruct (IH a1 HI' Hnd') as (t' & Fd & HIt & SPt & Helt & Hnelt & Hndelt & Hcntt).
    + intros k' Hk' Hin'. apply Hel in Hin'. destruct Hin' as [-> | Hin']; [contradiction|].
      apply (Hdis k'); simpl; auto.
    + destruct SP as (Sz & _). rewrite Sz. lia.
    + exists t'. split; [exact Fd|]. split; [exact HIt|]. split.
      * destruct SP as (A1 & A2 & A3), SPt as (B1 & B2 & B3). repeat split; congruence.
      * split; [intros k'; rewrite Helt, Hel; simpl; intuition|]. lia.
Qed.

Lemma create_inv sz a m t : create sz a m = Some t ->
  Inv t /\ fulls (entries t) = [] /\ sz + 2 <= size t /\ hmul t = a /\ hmod t = m /\ nel t = 0 /\ ndel t = 0 /\
  count_ne (entries t) = 0.
Proof.
  unfold create. destruct (higher_prime sz) as [p|] eqn:E; [|discriminate]. intros H. injection H as <-.
  destruct (higher_prime_spec sz p E) as (Hp & Hge & Hp3). unfold size; cbn [entries hmul hmod nel ndel].
  rewrite repeat_length, fulls_repeat, count_ne_repeat.
  split; [|repeat split; auto].
  constructor; unfold size; cbn [entries nel ndel]; rewrite ?repeat_length, ?fulls_repeat, ?count_ne_repeat; auto; try lia.
  - constructor.
  - intros i k _ Hn. rewrite nth_repeat_Empty in Hn. discriminate.
Qed.

Lemma new_size_of_eq n : new_size_of n = 2 * n.
Proof. unfold new_size_of. destruct (new_size_doubles (Z.of_nat n)) as [-> _]. lia. Qed.

Lemma expand_spec t : Inv t -> higher_prime (new_size_of (nel t)) <> None ->
  exists t', expand t = Some t' /\ Inv t' /\ hmul t' = hmul t /\ hmod t' = hmod t /\
    (forall k, In k (fulls (entries t')) <-> In k (fulls (entries t))) /\
    nel t' - ndel t' = nel t - ndel t /\ count_ne (entries t') < size t'.
Proof.
  intros HI HP. rewrite expand_unfold. unfold create at 1.
  destruct (higher_prime (new_size_of (nel t))) as [p|] eqn:E; [|congruence].
  fold (create (new_size_of (nel t)) (hmul t) (hmod t)).
  assert (C : create (new_size_of (nel t)) (hmul t) (hmod t) =
              Some {| entries := repeat Empty p; nel := 0; ndel := 0; hmul := hmul t; hmod := hmod t |})
    by (unfold create; rewrite E; reflexivity).
  set (t0 := {| entries := repeat Empty p; nel := 0; ndel := 0; hmul := hmul t; hmod := hmod t |}) in *.
  destruct (create_inv _ _ _ _ C) as (HI0 & F0 & S0 & M0 & D0 & N0 & ND0 & C0).
  rewrite new_size_of_eq in S0. pose proof (I_nel t HI) as Hn. pose proof (I_nodup t HI) as Hnd.
  destruct (reinsert_all (fulls (entries t)) t0 HI0 Hnd) as (t' & Fd & HIt & SPt & Helt & Hnelt & Hndelt & Hcntt).
  - intros k _. rewrite F0. simpl. tauto.
  - rewrite C0. lia.
  - exists t'. split; [exact Fd|]. split; [exact HIt|]. destruct SPt as (A1 & A2 & A3).
    split; [congruence|]. split; [congruence|]. split; [intros k; rewrite Helt, F0; simpl; tauto|].
    rewrite Hnelt, Hndelt, N0, ND0, A1, C0 in *. lia.
Qed.

(* the search of the C code: expansion test first *)
Lemma find_reduce t : Inv t ->
  (need_expand (size t) (nel t) = true -> higher_prime (new_size_of (nel t)) <> None) ->
  exists t1, Inv t1 /\ hmul t1 = hmul t /\ hmod t1 = hmod t /\
    (forall k, In k (fulls (entries t1)) <-> In k (fulls (entries t))) /\
    nel t1 - ndel t1 = nel t - ndel t /\ count_ne (entries t1) < size t1 /\
    (forall k r, find t k r = find_noexp t1 k r).
Proof.
  intros HI HP. destruct (need_expand (size t) (nel t)) eqn:E.
  - destruct (expand_spec t HI (HP eq_refl)) as (t' & Ex & HI' & A & B & C & D & F).
    exists t'. repeat (split; [assumption|]). intros k r. unfold find. rewrite E, Ex. reflexivity.
  - exists t. split; [exact HI|]. split; [reflexivity|]. split; [reflexivity|]. split; [tauto|]. split; [reflexivity|].
    split.
    + unfold need_expand in E. pose proof (I_size t HI). pose proof (I_count t HI).
      pose proof (no_expand_has_room (Z.of_nat (size t)) (Z.of_nat (nel t)) ltac:(lia) ltac:(lia) E). lia.
    + intros k r. unfold find. rewrite E. reflexivity.
Qed.

Lemma find_some_prime t k r x : find t k r = Some x ->
  need_expand (size t) (nel t) = true -> higher_prime (new_size_of (nel t)) <> None.
Proof.
  unfold find. intros H E. rewrite E in H. rewrite expand_unfold in H. unfold create in H.
  destruct (higher_prime (new_size_of (nel t))); [discriminate | discriminate].
Qed.

(* ---------- refinement to a finite set ---------- *)
Definition amemb (k : nat) (S : list nat) : bool := existsb (Nat.eqb k) S.
Lemma amemb_In k S : amemb k S = true <-> In k S.
Proof.
  unfold amemb. rewrite existsb_exists. split.
  - intros (x & Hx & E). apply Nat.eqb_eq in E. subst. exact Hx.
  - intros H. exists k. split; [exact H | apply Nat.eqb_refl].
Qed.

(* the specification: a set of keys *)
Definition astep (S : list nat) (o : hop) : list nat * option nat :=
  match o with
  | HFind k => (S, Some (if amemb k S then 1 else 0))
  | HInsert k => if amemb k S then (S, Some 0) else (k :: S, Some 1)
  | HRemove k => (remove Nat.eq_dec k S, None)
  | HEmpty => ([], None)
  | HNum => (S, Some (length S))
  | HSize => (S, None)
  end.
(* the C interface requires the element of a removal to be present *)
Definition pre (S : list nat) (o : hop) : Prop := match o with HRemove k => In k S | _ => True end.
(* the size of the entry array is not part of the abstract contents *)
Definition obs_eq (o : hop) (c a : option nat) : Prop := match o with HSize => True | _ => c = a end.

Definition R (t : ht) (S : list nat) : Prop := NoDup S /\ forall k, In k S <-> In k (fulls (entries t)).

Lemma NoDup_remove_eq (x : nat) l : NoDup l -> NoDup (remove Nat.eq_dec x l).
Proof.
  induction l as [|y l IH]; intros H; simpl; [constructor|]. inversion H; subst.
  destruct (Nat.eq_dec x y); auto. constructor; auto. intros Hin. apply in_remove in Hin. tauto.
Qed.

Lemma R_length t S : Inv t -> R t S -> length S = nel t - ndel t.
Proof.
  intros HI [Hnd Hel]. pose proof (I_nel t HI). pose proof (I_nodup t HI) as Hnf.
  assert (P : Permutation S (fulls (entries t))) by (apply NoDup_Permutation; auto).
  apply Permutation_length in P. lia.
Qed.

Theorem hstep_refines t S o t' r : Inv t -> R t S -> pre S o -> hstep t o = Some (t', r) ->
  Inv t' /\ R t' (fst (astep S o)) /\ obs_eq o r (snd (astep S o)).
Proof.
  intros HI HR Hpre H. destruct o as [k|k|k| | |]; cbn [hstep] in H.
  - (* find *)
    destruct (find t k false) as [[t1' i]|] eqn:F; [|discriminate]. injection H as <- <-.
    destruct (find_reduce t HI (find_some_prime t k false _ F)) as (t1 & HI1 & _ & _ & Hel & _ & Hroom & Fr).
    rewrite Fr in F. destruct (find_noexp_spec t1 k false HI1 Hroom) as (i' & t2 & F' & Hi' & Hcase).
    rewrite F' in F. injection F as <- <-. destruct HR as [Hnd HS].
    destruct Hcase as [(Hin & Ei & ->) | (Hnin & [(_ & -> & Ei) | (X & _)])]; [| |discriminate].
    + split; [exact HI1|]. split; [split; [exact Hnd | intros k'; rewrite HS, Hel; tauto]|].
      cbn [astep snd obs_eq]. rewrite Ei. assert (A : amemb k S = true) by (apply amemb_In, HS, Hel, Hin). rewrite A. reflexivity.
    + split; [exact HI1|]. split; [split; [exact Hnd | intros k'; rewrite HS, Hel; tauto]|].
      cbn [astep snd obs_eq]. rewrite Ei. destruct (amemb k S) eqn:A; [|reflexivity].
      exfalso. apply Hnin, Hel, HS, amemb_In, A.
  - (* insert *)
    destruct (find t k true) as [[t1' i]|] eqn:F; [|discriminate].
    destruct (find_reduce t HI (find_some_prime t k true _ F)) as (t1 & HI1 & _ & _ & Hel & _ & Hroom & Fr).
    rewrite Fr in F. destruct (find_noexp_spec t1 k true HI1 Hroom) as (i' & t2 & F' & Hi' & Hcase).
    rewrite F' in F. injection F as <- <-. destruct HR as [Hnd HS].
    destruct Hcase as [(Hin & Ei & ->) | (Hnin & [(X & _) | (_ & -> & Hnf & Hr)])]; [|discriminate|].
    + rewrite Ei in H. injection H as <- <-.
      assert (A : amemb k S = true) by (apply amemb_In, HS, Hel, Hin).
      cbn [astep]. rewrite A. cbn [fst snd obs_eq].
      split; [exact HI1|]. split; [split; [exact Hnd | intros k'; rewrite HS, Hel; tauto] | reflexivity].
    + cbn [entries] in H. rewrite nth_set_nth, Nat.eqb_refl in H by exact Hi'. injection H as <- <-.
      destruct (insert_new_inv t1 k i' HI1 Hi' Hnin Hnf Hr) as (HI' & _ & Hel' & _).
      assert (A : amemb k S = false).
      { destruct (amemb k S) eqn:A; [|reflexivity]. exfalso. apply Hnin, Hel, HS, amemb_In, A. }
      cbn [astep]. rewrite A. cbn [fst snd obs_eq].
      split; [exact HI'|]. split; [|reflexivity]. split.
      * constructor; [|exact Hnd]. intros Hk. apply amemb_In in Hk. congruence.
      * intros k'. rewrite Hel'. simpl. rewrite HS, Hel. intuition.
  - (* remove *)
    destruct (find t k false) as [[t1' i]|] eqn:F; [|discriminate]. injection H as <- <-.
    destruct (find_reduce t HI (find_some_prime t k false _ F)) as (t1 & HI1 & _ & _ & Hel & _ & Hroom & Fr).
    rewrite Fr in F. destruct (find_noexp_spec t1 k false HI1 Hroom) as (i' & t2 & F' & Hi' & Hcase).
    rewrite F' in F. injection F as <- <-. destruct HR as [Hnd HS]. cbn [pre] in Hpre.
    destruct Hcase as [(Hin & Ei & ->) | (Hnin & _)]; [|exfalso; apply Hnin, Hel, HS, Hpre].
    destruct (remove_inv t1 k i' HI1 Hi' Ei) as (HI' & _ & Hel' & _).
    split; [exact HI'|]. cbn [astep fst snd obs_eq]. split; [|reflexivity]. split; [apply NoDup_remove_eq, Hnd|].
    intros k'. rewrite Hel', Hel, <- HS. split.
    + intros Hr. apply in_remove in Hr. tauto.
    + intros [A B]. apply in_in_remove; auto.
  - (* empty *)
    injection H as <- <-. cbn [astep fst snd obs_eq]. split; [|split; [|reflexivity]].
    + pose proof (I_prime t HI). pose proof (I_size t HI).
      constructor; unfold size in *; cbn [entries nel ndel]; rewrite ?repeat_length, ?fulls_repeat, ?count_ne_repeat; auto.
      * constructor.
      * intros i k _ Hn. rewrite nth_repeat_Empty in Hn. discriminate.
    + split; [constructor|]. intros k. cbn [entries]. rewrite fulls_repeat. tauto.
  - (* number of elements *)
    injection H as <- <-. split; [exact HI|]. split; [exact HR|]. cbn [astep snd obs_eq].
    rewrite (R_length t S HI HR). reflexivity.
  - injection H as <- <-. split; [exact HI|]. split; [exact HR|]. exact I.
Qed.

(* no operation gets stuck, provided the search for the next prime size succeeds
   (higher_prime returns None only when its fuel - the number itself plus 8 candidates - is exhausted) *)
Theorem hstep_total t S o : Inv t -> R t S -> pre S o ->
  (need_expand (size t) (nel t) = true -> higher_prime (new_size_of (nel t)) <> None) ->
  hstep t o <> None.
Proof.
  intros HI HR Hpre HP.
  destruct (find_reduce t HI HP) as (t1 & HI1 & _ & _ & Hel & _ & Hroom & Fr).
  destruct o as [k|k|k| | |]; cbn [hstep]; try discriminate.
  - rewrite Fr. destruct (find_noexp_spec t1 k false HI1 Hroom) as (i & t2 & -> & _). discriminate.
  - rewrite Fr. destruct (find_noexp_spec t1 k true HI1 Hroom) as (i & t2 & -> & _).
    destruct (nth i (entries t2) Empty); discriminate.
  - rewrite Fr. destruct (find_noexp_spec t1 k false HI1 Hroom) as (i & t2 & -> & _). discriminate.
Qed.

Fixpoint arun (S : list nat) (os : list hop) : list (option nat) :=
  match os with [] => [] | o :: os' => snd (astep S o) :: arun (fst (astep S o)) os' end.
Fixpoint valid (S : list nat) (os : list hop) : Prop :=
  match os with [] => True | o :: os' => pre S o /\ valid (fst (astep S o)) os' end.
Fixpoint obs_all (os : list hop) (cs abs : list (option nat)) : Prop :=
  match os, cs, abs with
  | [], [], [] => True
  | o :: os', c :: cs', a :: abs' => obs_eq o c a /\ obs_all os' cs' abs'
  | _, _, _ => False
  end.

Theorem hrun_refines : forall os t S rs, Inv t -> R t S -> valid S os -> hrun t os = Some rs ->
  obs_all os rs (arun S os).
Proof.
  induction os as [|o os IH]; intros t S rs HI HR Hv H; cbn [hrun] in H.
  - injection H as <-. exact I.
  - destruct (hstep t o) as [[t' r]|] eqn:E; [|discriminate].
    destruct (hrun t' os) as [rs'|] eqn:E'; [|discriminate]. injection H as <-.
    destruct Hv as [Hp Hv]. destruct (hstep_refines t S o t' r HI HR Hp E) as (HI' & HR' & Ho).
    cbn [arun obs_all]. split; [exact Ho|]. eapply IH; eauto.
Qed.

Theorem ht_refines sz a m t os rs : create sz a m = Some t -> valid [] os -> hrun t os = Some rs ->
  obs_all os rs (arun [] os).
Proof.
  intros C Hv H. destruct (create_inv sz a m t C) as (HI & F & _).
  apply (hrun_refines os t [] rs HI); auto. split; [constructor|]. intros k. rewrite F. tauto.
Qed.

(* the premises are satisfiable: a table of 3 entries, two insertions forcing an expansion, a removal and re-insertion *)
Example ht_history : exists t, create 0 7 0 = Some t /\
  hrun t [HInsert 5; HInsert 9; HInsert 12; HRemove 9; HFind 9; HInsert 16; HFind 5; HNum; HInsert 9; HFind 9; HNum] =
  Some [Some 1; Some 1; Some 1; None; Some 0; Some 1; Some 1; Some 3; Some 1; Some 1; Some 4].
Proof. eexists. split; [reflexivity|]. vm_compute. reflexivity. Qed.
