(* TreeMem: yaep_free_tree on the DAG a parse returns.
   free_tree_reduce turns the DAG into a tree by a depth-first walk that marks
   nodes as visited and unlinks every child that is already visited (for ALT
   chains: skips visited ALT nodes); it also keeps the name of an abstract node
   only at the first node that carries it.  free_tree_sweep then walks that
   tree, calls the terminal callback for TERM nodes, passes the kept names and
   every node to parse_free.
   Theorem: every node reachable from the root is passed to parse_free exactly
   once and nothing else is; the terminal callback is called exactly once for
   each reachable TERM node; every name of a reachable abstract node is passed
   to parse_free exactly once.  (The walk is modelled on the immutable store:
   it follows the original `next' fields of ALT nodes, see DESIGN.md.) *)
From YV Require Import Prelude EarleySpec Recognizer Translate Dag.
From Coq Require Import Permutation.

Inductive rt :=
| RLeaf (id : nat) (is_term : bool)
| RAnode (id : nat) (name : option nat) (kids : list rt)
| RAlt (id : nat) (node : option rt) (next : option rt).

Record rs := { vis : list nat; names : list nat }.

Definition nmemb (x : nat) (l : list nat) : bool := existsb (Nat.eqb x) l.
Lemma nmemb_In x l : nmemb x l = true <-> In x l.
Proof.
  unfold nmemb. rewrite existsb_exists. split.
  - intros (y & Hy & E). apply Nat.eqb_eq in E. subst. exact Hy.
  - intros H. exists x. split; [exact H | apply Nat.eqb_refl].
Qed.
Lemma nmemb_nIn x l : nmemb x l = false <-> ~ In x l.
Proof. rewrite <- nmemb_In. destruct (nmemb x l); split; congruence. Qed.

Section R.
Variable st : store.

(* children in order, skipping the ones already visited *)
Definition kids_with (red : nat -> rs -> option (rt * rs)) : list nat -> rs -> option (list rt * rs) :=
  fix go l s :=
    match l with
    | [] => Some ([], s)
    | k :: l' => if nmemb k (vis s) then go l' s
                 else match red k s with
                      | Some (t, s') => match go l' s' with Some (ts, s'') => Some (t :: ts, s'') | None => None end
                      | None => None
                      end
    end.

(* the first ALT node of a chain that is not visited *)
Fixpoint skip (fuel : nat) (nx : option nat) (V : list nat) : option (option nat) :=
  match nx with
  | None => Some None
  | Some x => if nmemb x V
              then match fuel with
                   | O => None
                   | S f => match nth_error st x with Some (DAlt _ nx') => skip f nx' V | _ => None end
                   end
              else Some (Some x)
  end.

Definition opt_with (red : nat -> rs -> option (rt * rs)) (o : option nat) (s : rs) : option (option rt * rs) :=
  match o with
  | None => Some (None, s)
  | Some x => match red x s with Some (t, s') => Some (Some t, s') | None => None end
  end.

Fixpoint reduce (fuel : nat) (id : nat) (s : rs) : option (rt * rs) :=
  match fuel with
  | O => None
  | S f =>
      let s1 := {| vis := id :: vis s; names := names s |} in
      match nth_error st id with
      | None => None
      | Some DNil | Some DErr => Some (RLeaf id false, s1)
      | Some (DTerm _ _) => Some (RLeaf id true, s1)
      | Some (DAnode nm _ kids) =>
          let '(nmo, s2) := if nmemb nm (names s1) then (None, s1)
                            else (Some nm, {| vis := vis s1; names := nm :: names s1 |}) in
          match kids_with (reduce f) kids s2 with
          | Some (ks, s3) => Some (RAnode id nmo ks, s3)
          | None => None
          end
      | Some (DAlt nd nx) =>
          match opt_with (reduce f) (if nmemb nd (vis s1) then None else Some nd) s1 with
          | Some (tn, s2) =>
              match skip f nx (vis s2) with
              | Some first =>
                  match opt_with (reduce f) first s2 with
                  | Some (tx, s3) => Some (RAlt id tn tx, s3)
                  | None => None
                  end
              | None => None
              end
          | None => None
          end
      end
  end.

(* ---------- the sweep ---------- *)
Inductive ev := EFree (id : nat) | EFreeName (nm : option nat) | ETermCb (id : nat).

Fixpoint sweep (t : rt) : list ev :=
  match t with
  | RLeaf id b => (if b then [ETermCb id] else []) ++ [EFree id]
  | RAnode id nmo ks => EFreeName nmo :: (fix go l := match l with [] => [] | k :: l' => sweep k ++ go l' end) ks ++ [EFree id]
  | RAlt id nd nx => match nd with Some t' => sweep t' | None => [] end ++ [EFree id] ++
                     match nx with Some t' => sweep t' | None => [] end
  end.

Fixpoint ids (t : rt) : list nat :=
  match t with
  | RLeaf id _ => [id]
  | RAnode id _ ks => id :: (fix go l := match l with [] => [] | k :: l' => ids k ++ go l' end) ks
  | RAlt id nd nx => id :: match nd with Some t' => ids t' | None => [] end ++ match nx with Some t' => ids t' | None => [] end
  end.
Fixpoint terms (t : rt) : list nat :=
  match t with
  | RLeaf id b => if b then [id] else []
  | RAnode _ _ ks => (fix go l := match l with [] => [] | k :: l' => terms k ++ go l' end) ks
  | RAlt _ nd nx => match nd with Some t' => terms t' | None => [] end ++ match nx with Some t' => terms t' | None => [] end
  end.
Fixpoint tnames (t : rt) : list nat :=
  match t with
  | RLeaf _ _ => []
  | RAnode _ nmo ks => match nmo with Some nm => [nm] | None => [] end ++
                       (fix go l := match l with [] => [] | k :: l' => tnames k ++ go l' end) ks
  | RAlt _ nd nx => match nd with Some t' => tnames t' | None => [] end ++ match nx with Some t' => tnames t' | None => [] end
  end.

Definition ids_l (l : list rt) : list nat := flat_map ids l.
Definition terms_l (l : list rt) : list nat := flat_map terms l.
Definition tnames_l (l : list rt) : list nat := flat_map tnames l.
Definition sweep_l (l : list rt) : list ev := flat_map sweep l.

Lemma ids_anode id nmo ks : ids (RAnode id nmo ks) = id :: ids_l ks.
Proof. reflexivity. Qed.
Lemma terms_anode id nmo ks : terms (RAnode id nmo ks) = terms_l ks.
Proof. reflexivity. Qed.
Lemma tnames_anode id nmo ks : tnames (RAnode id nmo ks) = match nmo with Some nm => [nm] | None => [] end ++ tnames_l ks.
Proof. reflexivity. Qed.
Lemma sweep_anode id nmo ks : sweep (RAnode id nmo ks) = EFreeName nmo :: sweep_l ks ++ [EFree id].
Proof. reflexivity. Qed.

(* induction principle for the nested type *)
Section Ind.
Variable P : rt -> Prop.
Hypothesis Hleaf : forall id b, P (RLeaf id b).
Hypothesis Hanode : forall id nmo ks, Forall P ks -> P (RAnode id nmo ks).
Hypothesis Halt : forall id nd nx, (forall t, nd = Some t -> P t) -> (forall t, nx = Some t -> P t) -> P (RAlt id nd nx).
Fixpoint rt_ind' (t : rt) : P t :=
  match t with
  | RLeaf id b => Hleaf id b
  | RAnode id nmo ks => Hanode id nmo ks ((fix go l : Forall P l := match l with [] => Forall_nil P | k :: l' => Forall_cons k (rt_ind' k) (go l') end) ks)
  | RAlt id nd nx => Halt id nd nx
      (fun t' E => match nd as o return o = Some t' -> P t' with Some u => fun E' => eq_ind u P (rt_ind' u) t' (f_equal (fun o => match o with Some v => v | None => u end) E') | None => fun E' => False_ind _ (eq_ind None (fun o => match o with None => True | Some _ => False end) I _ E') end E)
      (fun t' E => match nx as o return o = Some t' -> P t' with Some u => fun E' => eq_ind u P (rt_ind' u) t' (f_equal (fun o => match o with Some v => v | None => u end) E') | None => fun E' => False_ind _ (eq_ind None (fun o => match o with None => True | Some _ => False end) I _ E') end E)
  end.
End Ind.

Definition frees (l : list ev) : list nat := flat_map (fun e => match e with EFree i => [i] | _ => [] end) l.
Definition termcbs (l : list ev) : list nat := flat_map (fun e => match e with ETermCb i => [i] | _ => [] end) l.
Definition namefrees (l : list ev) : list nat := flat_map (fun e => match e with EFreeName (Some n) => [n] | _ => [] end) l.

Lemma frees_app a b : frees (a ++ b) = frees a ++ frees b. Proof. apply flat_map_app. Qed.
Lemma termcbs_app a b : termcbs (a ++ b) = termcbs a ++ termcbs b. Proof. apply flat_map_app. Qed.
Lemma namefrees_app a b : namefrees (a ++ b) = namefrees a ++ namefrees b. Proof. apply flat_map_app. Qed.

(* what the sweep passes to parse_free / the terminal callback is what the tree holds *)
Lemma sweep_events t :
  Permutation (frees (sweep t)) (ids t) /\ termcbs (sweep t) = terms t /\ namefrees (sweep t) = tnames t.
Proof.
  induction t as [id b | id nmo ks IH | id nd nx IHn IHx] using rt_ind'.
  - destruct b; cbn; auto.
  - rewrite sweep_anode, ids_anode, terms_anode, tnames_anode.
    assert (L : Permutation (frees (sweep_l ks)) (ids_l ks) /\ termcbs (sweep_l ks) = terms_l ks /\ namefrees (sweep_l ks) = tnames_l ks).
    { induction IH as [|k ks (A & B & C) _ (A' & B' & C')]; cbn; [auto|].
      unfold sweep_l, ids_l, terms_l, tnames_l in *. cbn [flat_map].
      rewrite frees_app, termcbs_app, namefrees_app, B, C, B', C'. split; [apply Permutation_app; assumption | auto]. }
    destruct L as (A & B & C).
    change (EFreeName nmo :: sweep_l ks ++ [EFree id]) with ([EFreeName nmo] ++ sweep_l ks ++ [EFree id]).
    rewrite !frees_app, !termcbs_app, !namefrees_app, B, C. cbn [frees termcbs namefrees flat_map app].
    rewrite !app_nil_r. split; [|split; [reflexivity | destruct nmo; reflexivity]].
    rewrite <- Permutation_cons_append. constructor. exact A.
  - cbn [sweep ids terms tnames]. rewrite !frees_app, !termcbs_app, !namefrees_app.
    assert (Ln : forall o, (forall t, o = Some t -> Permutation (frees (sweep t)) (ids t) /\ termcbs (sweep t) = terms t /\ namefrees (sweep t) = tnames t) ->
                 Permutation (frees match o with Some t' => sweep t' | None => [] end) match o with Some t' => ids t' | None => [] end /\
                 termcbs match o with Some t' => sweep t' | None => [] end = match o with Some t' => terms t' | None => [] end /\
                 namefrees match o with Some t' => sweep t' | None => [] end = match o with Some t' => tnames t' | None => [] end).
    { intros [t'|] H; [apply H; reflexivity | cbn; auto]. }
    destruct (Ln nd IHn) as (A & B & C). destruct (Ln nx IHx) as (A' & B' & C').
    rewrite B, C, B', C'. cbn [frees termcbs namefrees flat_map app]. split; [|auto].
    apply Permutation_sym. apply Permutation_cons_app. apply Permutation_sym. apply Permutation_app; assumption.
Qed.

(* ---------- what the reduction visits ---------- *)
Definition succ (n m : nat) : Prop :=
  match nth_error st n with
  | Some (DAnode _ _ kids) => In m kids
  | Some (DAlt nd nx) => m = nd \/ nx = Some m
  | _ => False
  end.
Inductive reach : nat -> nat -> Prop :=
| reach_refl n : reach n n
| reach_step n m k : succ n m -> reach m k -> reach n k.
Lemma reach_trans a b c : reach a b -> reach b c -> reach a c.
Proof. induction 1; intros H'; [exact H' | econstructor; eauto]. Qed.

Definition name_of (n : nat) : option nat := match nth_error st n with Some (DAnode nm _ _) => Some nm | _ => None end.
Definition is_term (n : nat) : bool := match nth_error st n with Some (DTerm _ _) => true | _ => false end.

Record Post (roots : list nat) (s : rs) (tids tterms tnms : list nat) (s' : rs) : Prop := {
  P_vis : exists new, vis s' = new ++ vis s /\ Permutation new tids;
  P_nodup : NoDup (vis s) -> NoDup (vis s');
  P_roots : forall k, In k roots -> In k (vis s');
  P_closed : forall n, In n tids -> forall m, succ n m -> In m (vis s');
  P_reach : forall n, In n tids -> exists k, In k roots /\ reach k n;
  P_terms : tterms = filter is_term tids;
  P_names : exists nn, names s' = nn ++ names s /\ Permutation nn tnms /\ (forall nm, In nm nn -> ~ In nm (names s));
  P_nnodup : NoDup (names s) -> NoDup (names s');
  P_named : forall n nm, In n tids -> name_of n = Some nm -> In nm (names s');
  P_tnames : forall nm, In nm tnms -> exists n, In n tids /\ name_of n = Some nm }.

Lemma Post_mono roots s tids tt tn s' : Post roots s tids tt tn s' -> forall m, In m (vis s) -> In m (vis s').
Proof. intros [(new & E & _) _ _ _ _ _ _ _ _ _] m H. rewrite E. apply in_or_app. right. exact H. Qed.
Lemma Post_nmono roots s tids tt tn s' : Post roots s tids tt tn s' -> forall m, In m (names s) -> In m (names s').
Proof. intros [_ _ _ _ _ _ (nn & E & _) _ _ _] m H. rewrite E. apply in_or_app. right. exact H. Qed.

(* nothing visited: the empty step *)
Lemma Post_nil s : Post [] s [] [] [] s.
Proof.
  constructor; try (intros; contradiction); auto.
  - exists []. split; [reflexivity | constructor].
  - exists []. split; [reflexivity|]. split; [constructor | intros nm []].
Qed.

(* sequential composition: first the part rooted at roots1, then the part rooted at roots2 *)
Lemma Post_seq r1 r2 s s1 s2 i1 t1 n1 i2 t2 n2 :
  Post r1 s i1 t1 n1 s1 -> Post r2 s1 i2 t2 n2 s2 -> Post (r1 ++ r2) s (i1 ++ i2) (t1 ++ t2) (n1 ++ n2) s2.
Proof.
  intros A B. pose proof (Post_mono _ _ _ _ _ _ B) as Mono. pose proof (Post_nmono _ _ _ _ _ _ B) as NMono.
  destruct A as [(new1 & E1 & Pm1) ND1 R1 C1 Re1 T1 (nn1 & F1 & Pn1 & D1) NN1 Nm1 Tn1].
  destruct B as [(new2 & E2 & Pm2) ND2 R2 C2 Re2 T2 (nn2 & F2 & Pn2 & D2) NN2 Nm2 Tn2].
  constructor.
  - exists (new2 ++ new1). split; [rewrite E2, E1, app_assoc; reflexivity|].
    eapply Permutation_trans; [apply Permutation_app_comm|]. apply Permutation_app; assumption.
  - auto.
  - intros k Hk. apply in_app_or in Hk. destruct Hk; auto.
  - intros n Hn m Hs. apply in_app_or in Hn. destruct Hn; eauto.
  - intros n Hn. apply in_app_or in Hn. destruct Hn as [Hn|Hn].
    + destruct (Re1 n Hn) as (k & Hk & Hr). exists k. split; [apply in_or_app; auto | exact Hr].
    + destruct (Re2 n Hn) as (k & Hk & Hr). exists k. split; [apply in_or_app; auto | exact Hr].
  - rewrite filter_app, T1, T2. reflexivity.
  - exists (nn2 ++ nn1). split; [rewrite F2, F1, app_assoc; reflexivity|]. split.
    + eapply Permutation_trans; [apply Permutation_app_comm|]. apply Permutation_app; assumption.
    + intros nm Hnm. apply in_app_or in Hnm. destruct Hnm as [H|H]; [|auto].
      intros Hin. apply (D2 nm H). rewrite F1. apply in_or_app. right. exact Hin.
  - auto.
  - intros n nm Hn Hname. apply in_app_or in Hn. destruct Hn; eauto.
  - intros nm Hnm. apply in_app_or in Hnm. destruct Hnm as [H|H].
    + destruct (Tn1 nm H) as (n & Hn & E). exists n. split; [apply in_or_app; auto | exact E].
    + destruct (Tn2 nm H) as (n & Hn & E). exists n. split; [apply in_or_app; auto | exact E].
Qed.

(* a root that is already visited contributes nothing *)
Lemma Post_skip k s : In k (vis s) -> Post [k] s [] [] [] s.
Proof.
  intros H. constructor; try (intros; contradiction); auto.
  - exists []. split; [reflexivity | constructor].
  - intros k' [<-|[]]. exact H.
  - exists []. split; [reflexivity|]. split; [constructor | intros nm []].
Qed.

(* changing the set of roots to one from which the old roots are reachable in one step *)
Lemma Post_weaken_roots roots roots' s i t n s' :
  Post roots s i t n s' -> (forall k, In k roots' -> In k (vis s')) ->
  (forall k, In k roots -> exists k', In k' roots' /\ reach k' k) -> Post roots' s i t n s'.
Proof.
  intros [V ND R C Re T N NN Nm Tn] H1 H2. constructor; auto.
  intros x Hx. destruct (Re x Hx) as (k & Hk & Hr). destruct (H2 k Hk) as (k' & Hk' & Hr').
  exists k'. split; [exact Hk' | eapply reach_trans; eauto].
Qed.

Definition RedSpec (red : nat -> rs -> option (rt * rs)) : Prop :=
  forall id s t s', red id s = Some (t, s') -> ~ In id (vis s) -> Post [id] s (ids t) (terms t) (tnames t) s'.

Lemma kids_post red : RedSpec red -> forall l s ts s', kids_with red l s = Some (ts, s') ->
  Post l s (ids_l ts) (terms_l ts) (tnames_l ts) s'.
Proof.
  intros HR. induction l as [|k l IH]; intros s ts s' H; cbn [kids_with] in H.
  - injection H as <- <-. apply Post_nil.
  - destruct (nmemb k (vis s)) eqn:E.
    + apply nmemb_In in E. apply IH in H.
      change (k :: l) with ([k] ++ l).
      change (ids_l ts) with ([] ++ ids_l ts). change (terms_l ts) with ([] ++ terms_l ts). change (tnames_l ts) with ([] ++ tnames_l ts).
      eapply Post_seq; [apply Post_skip; exact E | exact H].
    + apply nmemb_nIn in E. destruct (red k s) as [[t s1]|] eqn:Er; [|discriminate].
      destruct (kids_with red l s1) as [[ts1 s2]|] eqn:Ek; [|discriminate]. injection H as <- <-.
      change (k :: l) with ([k] ++ l). unfold ids_l, terms_l, tnames_l. cbn [flat_map].
      eapply Post_seq; [apply (HR k s t s1 Er E) | apply IH; exact Ek].
Qed.

Lemma opt_post red : RedSpec red -> forall o s ot s', opt_with red o s = Some (ot, s') ->
  (forall x, o = Some x -> ~ In x (vis s)) ->
  Post (match o with Some x => [x] | None => [] end) s
       (match ot with Some t => ids t | None => [] end) (match ot with Some t => terms t | None => [] end)
       (match ot with Some t => tnames t | None => [] end) s'.
Proof.
  intros HR [x|] s ot s' H Hn; cbn [opt_with] in H.
  - destruct (red x s) as [[t s1]|] eqn:E; [|discriminate]. injection H as <- <-. apply (HR x s t s1 E). apply Hn. reflexivity.
  - injection H as <- <-. apply Post_nil.
Qed.

(* the chain walk ends at the first unvisited ALT node of the chain; the skipped ones are visited *)
Lemma skip_spec : forall fuel nx V first, skip fuel nx V = Some first ->
  (forall x, first = Some x -> ~ In x V) /\ (forall x, nx = Some x -> In x V \/ first = Some x) /\
  (forall y x, nx = Some y -> first = Some x -> reach y x).
Proof.
  induction fuel as [|f IH]; intros nx V first H; destruct nx as [x|]; cbn [skip] in H.
  - destruct (nmemb x V) eqn:E; [discriminate|]. injection H as <-. apply nmemb_nIn in E. split; [|split].
    + intros y Hy. injection Hy as <-. exact E.
    + intros y Hy. injection Hy as <-. right. reflexivity.
    + intros y z Hy Hz. injection Hy as <-. injection Hz as <-. constructor.
  - injection H as <-. split; [|split]; intros; discriminate.
  - destruct (nmemb x V) eqn:E.
    + apply nmemb_In in E. destruct (nth_error st x) as [[| | | |nd nx']|] eqn:En; try discriminate.
      assert (Hnone : nx' = None -> first = None) by (intros ->; destruct f; cbn [skip] in H; congruence).
      apply IH in H. destruct H as (H1 & H2 & H3). split; [exact H1|]. split.
      * intros y Hy. injection Hy as <-. left. exact E.
      * intros y z Hy Hz. injection Hy as <-. destruct nx' as [w|].
        -- apply reach_step with (m := w); [unfold succ; rewrite En; right; reflexivity | apply (H3 w z eq_refl Hz)].
        -- rewrite (Hnone eq_refl) in Hz. discriminate.
    + injection H as <-. apply nmemb_nIn in E. split; [|split].
      * intros y Hy. injection Hy as <-. exact E.
      * intros y Hy. injection Hy as <-. right. reflexivity.
      * intros y z Hy Hz. injection Hy as <-. injection Hz as <-. constructor.
  - injection H as <-. split; [|split]; intros; discriminate.
Qed.

(* the step of one node: id becomes visited, then the parts below it *)
Lemma Post_node id s s' i t n (nmo : option nat) :
  ~ In id (vis s) ->
  let s1 := {| vis := id :: vis s; names := match nmo with Some nm => nm :: names s | None => names s end |} in
  (forall nm, nmo = Some nm -> ~ In nm (names s) /\ name_of id = Some nm) ->
  (forall nm, name_of id = Some nm -> In nm (names s1)) ->
  forall roots, Post roots s1 i t n s' ->
  (forall m, succ id m -> In m roots) -> (forall k, In k roots -> succ id k) ->
  is_term id = false ->
  Post [id] s (id :: i) t (match nmo with Some nm => [nm] | None => [] end ++ n) s'.
Proof.
  intros Hid s1 Hnmo Hname roots P Hsucc Hroots Hterm.
  pose proof (Post_mono _ _ _ _ _ _ P) as Mono. pose proof (Post_nmono _ _ _ _ _ _ P) as NMono.
  destruct P as [(new & E & Pm) ND R C Re T (nn & F & Pn & D) NN Nm Tn]. cbn [vis names] in *.
  constructor.
  - exists (new ++ [id]). split; [rewrite E, <- app_assoc; reflexivity|].
    eapply Permutation_trans; [apply Permutation_app_comm|]. simpl. constructor. exact Pm.
  - intros H. apply ND. constructor; assumption.
  - intros k [<-|[]]. apply Mono. left. reflexivity.
  - intros x [<-|Hx] m Hs; [apply R, Hsucc, Hs | eapply C; eauto].
  - intros x [<-|Hx]; [exists id; split; [left; reflexivity | constructor]|].
    destruct (Re x Hx) as (k & Hk & Hr). exists id. split; [left; reflexivity|]. econstructor; [apply Hroots; exact Hk | exact Hr].
  - cbn [filter]. rewrite Hterm. exact T.
  - destruct nmo as [nm|].
    + exists (nn ++ [nm]). split; [rewrite F, <- app_assoc; reflexivity|]. split.
      * eapply Permutation_trans; [apply Permutation_app_comm|]. simpl. constructor. exact Pn.
      * intros x Hx. apply in_app_or in Hx. destruct Hx as [Hx|[<-|[]]].
        -- intros Hin. apply (D x Hx). right. exact Hin.
        -- apply (Hnmo nm eq_refl).
    + exists nn. split; [exact F|]. split; [exact Pn | exact D].
  - intros H. apply NN. destruct nmo as [nm|]; [constructor; [apply (Hnmo nm eq_refl) | exact H] | exact H].
  - intros x nm [<-|Hx] Hn; [apply NMono, Hname, Hn | eapply Nm; eauto].
  - intros nm Hnm. apply in_app_or in Hnm. destruct Hnm as [Hnm|Hnm].
    + destruct nmo as [nm'|]; [|destruct Hnm]. destruct Hnm as [<-|[]]. exists id. split; [left; reflexivity | apply (Hnmo nm' eq_refl)].
    + destruct (Tn nm Hnm) as (x & Hx & Ex). exists x. split; [right; exact Hx | exact Ex].
Qed.

Theorem reduce_post : forall fuel, RedSpec (reduce fuel).
Proof.
  induction fuel as [|f IH]; intros id s t s' H Hid; cbn [reduce] in H; [discriminate|].
  destruct (nth_error st id) as [[| |c a|nm c kids|nd nx]|] eqn:En; try discriminate.
  - (* NIL *) injection H as <- <-.
    apply (Post_node id s _ [] [] [] None Hid) with (roots := []); cbn [vis names].
    + intros nm Hn; discriminate.
    + intros nm Hn. unfold name_of in Hn. rewrite En in Hn. discriminate.
    + apply (Post_nil {| vis := id :: vis s; names := names s |}).
    + intros m Hm. unfold succ in Hm. rewrite En in Hm. contradiction.
    + intros k [].
    + unfold is_term. rewrite En. reflexivity.
  - (* ERROR *) injection H as <- <-.
    apply (Post_node id s _ [] [] [] None Hid) with (roots := []); cbn [vis names].
    + intros nm Hn; discriminate.
    + intros nm Hn. unfold name_of in Hn. rewrite En in Hn. discriminate.
    + apply (Post_nil {| vis := id :: vis s; names := names s |}).
    + intros m Hm. unfold succ in Hm. rewrite En in Hm. contradiction.
    + intros k [].
    + unfold is_term. rewrite En. reflexivity.
  - (* TERM *) injection H as <- <-. cbn [ids terms tnames].
    constructor; cbn [vis names].
    + exists [id]. split; [reflexivity | constructor; constructor].
    + intros H. constructor; assumption.
    + intros k [<-|[]]. left. reflexivity.
    + intros n [<-|[]] m Hm. unfold succ in Hm. rewrite En in Hm. contradiction.
    + intros n [<-|[]]. exists id. split; [left; reflexivity | constructor].
    + cbn [filter]. unfold is_term. rewrite En. reflexivity.
    + exists []. split; [reflexivity|]. split; [constructor | intros nm []].
    + auto.
    + intros n nm' [<-|[]] Hn. unfold name_of in Hn. rewrite En in Hn. discriminate.
    + intros nm' [].
  - (* ANODE *)
    cbn [names vis] in H.
    destruct (nmemb nm (names s)) eqn:Enm.
    + destruct (kids_with (reduce f) kids {| vis := id :: vis s; names := names s |}) as [[ks s3]|] eqn:Ek; [|discriminate].
      injection H as <- <-. rewrite ids_anode, terms_anode, tnames_anode.
      apply nmemb_In in Enm.
      apply (Post_node id s s3 (ids_l ks) (terms_l ks) (tnames_l ks) None Hid) with (roots := kids); cbn [vis names].
      * intros nm' Hn; discriminate.
      * intros nm' Hn. unfold name_of in Hn. rewrite En in Hn. injection Hn as <-. exact Enm.
      * apply (kids_post (reduce f) IH kids _ ks s3 Ek).
      * intros m Hm. unfold succ in Hm. rewrite En in Hm. exact Hm.
      * intros k Hk. unfold succ. rewrite En. exact Hk.
      * unfold is_term. rewrite En. reflexivity.
    + destruct (kids_with (reduce f) kids {| vis := id :: vis s; names := nm :: names s |}) as [[ks s3]|] eqn:Ek; [|discriminate].
      injection H as <- <-. rewrite ids_anode, terms_anode, tnames_anode.
      apply nmemb_nIn in Enm.
      apply (Post_node id s s3 (ids_l ks) (terms_l ks) (tnames_l ks) (Some nm) Hid) with (roots := kids); cbn [vis names].
      * intros nm' Hn. injection Hn as <-. split; [exact Enm | unfold name_of; rewrite En; reflexivity].
      * intros nm' Hn. unfold name_of in Hn. rewrite En in Hn. injection Hn as <-. left. reflexivity.
      * apply (kids_post (reduce f) IH kids _ ks s3 Ek).
      * intros m Hm. unfold succ in Hm. rewrite En in Hm. exact Hm.
      * intros k Hk. unfold succ. rewrite En. exact Hk.
      * unfold is_term. rewrite En. reflexivity.
  - (* ALT *)
    set (s1 := {| vis := id :: vis s; names := names s |}) in *.
    destruct (opt_with (reduce f) (if nmemb nd (vis s1) then None else Some nd) s1) as [[tn s2]|] eqn:E1; [|discriminate].
    destruct (skip f nx (vis s2)) as [first|] eqn:E2; [|discriminate].
    destruct (opt_with (reduce f) first s2) as [[tx s3]|] eqn:E3; [|discriminate].
    injection H as <- <-. cbn [ids terms tnames].
    destruct (skip_spec f nx (vis s2) first E2) as (Hf1 & Hf2 & Hf3).
    assert (P1 := opt_post (reduce f) IH _ s1 tn s2 E1).
    assert (P2 := opt_post (reduce f) IH first s2 tx s3 E3 Hf1).
    assert (P1' : Post match (if nmemb nd (vis s1) then None else Some nd) with Some x => [x] | None => [] end s1
                    match tn with Some t => ids t | None => [] end match tn with Some t => terms t | None => [] end
                    match tn with Some t => tnames t | None => [] end s2).
    { apply P1. intros x Hx. destruct (nmemb nd (vis s1)) eqn:Ev; [discriminate|]. injection Hx as <-. apply nmemb_nIn. exact Ev. }
    pose proof (Post_seq _ _ _ _ _ _ _ _ _ _ _ P1' P2) as P12.
    change (match tn with Some a' => tnames a' | None => [] end ++ match tx with Some b' => tnames b' | None => [] end)
      with ((match @None nat with Some nm => [nm] | None => [] end) ++ (match tn with Some c' => tnames c' | None => [] end ++ match tx with Some d' => tnames d' | None => [] end)).
    apply (Post_node id s s3 _ _ _ None Hid) with (roots := nd :: match nx with Some x => [x] | None => [] end); cbn [vis names]; fold s1.
    + intros nm Hn; discriminate.
    + intros nm Hn. unfold name_of in Hn. rewrite En in Hn. discriminate.
    + eapply Post_weaken_roots; [exact P12 | |].
      * pose proof (Post_mono _ _ _ _ _ _ P2) as M2. pose proof (Post_mono _ _ _ _ _ _ P1') as M1.
        intros k [<-|Hk].
        -- apply M2. destruct (nmemb nd (vis s1)) eqn:Ev.
           ++ apply M1. apply nmemb_In. exact Ev.
           ++ apply (P_roots _ _ _ _ _ _ P1'). left. reflexivity.
        -- destruct nx as [x|]; [|destruct Hk]. destruct Hk as [<-|[]].
           destruct (Hf2 x eq_refl) as [Hv | ->]; [apply M2; exact Hv | apply (P_roots _ _ _ _ _ _ P2); left; reflexivity].
      * intros k Hk. apply in_app_or in Hk. destruct Hk as [Hk|Hk].
        -- destruct (nmemb nd (vis s1)); [destruct Hk|]. destruct Hk as [<-|[]]. exists nd. split; [left; reflexivity | constructor].
        -- destruct first as [x|]; [|destruct Hk]. destruct Hk as [<-|[]].
           (* the first unvisited node of the chain is reachable from the next field through visited ALT nodes *)
           destruct nx as [y|].
           ++ exists y. split; [right; left; reflexivity | apply (Hf3 y x eq_refl eq_refl)].
           ++ exfalso. destruct f; cbn [skip] in E2; discriminate.
    + intros m Hm. unfold succ in Hm. rewrite En in Hm. destruct Hm as [->|Hm]; [left; reflexivity | right; rewrite Hm; left; reflexivity].
    + intros k [<-|Hk]; unfold succ; rewrite En; [left; reflexivity|]. destruct nx as [x|]; [|destruct Hk]. destruct Hk as [<-|[]]. right. reflexivity.
    + unfold is_term. rewrite En. reflexivity.
Qed.

End R.

(* ---------- yaep_free_tree ---------- *)
Section Top.
Variable st : store.

Lemma NoDup_perm_in {A} (l l' : list A) : Permutation l l' -> NoDup l -> NoDup l'.
Proof. intros P H. eapply Permutation_NoDup; eauto. Qed.

Theorem free_tree_correct fuel root t s' :
  reduce st fuel root {| vis := []; names := [] |} = Some (t, s') ->
  let log := sweep t in
  (* every reachable node is passed to parse_free exactly once, and nothing else *)
  NoDup (frees log) /\ (forall n, In n (frees log) <-> reach st root n) /\
  (* the terminal callback is called exactly once for every reachable TERM node *)
  NoDup (termcbs log) /\ (forall n, In n (termcbs log) <-> reach st root n /\ is_term st n = true) /\
  (* every name of a reachable abstract node is passed to parse_free exactly once *)
  NoDup (namefrees log) /\ (forall nm, In nm (namefrees log) <-> exists n, reach st root n /\ name_of st n = Some nm).
Proof.
  intros H log. pose proof (reduce_post st fuel root _ t s' H (fun x => x)) as P.
  destruct (sweep_events t) as (Ef & Et & En). fold log in Ef, Et, En.
  destruct P as [(new & Ev & Pv) ND R C Re T (nn & Fn & Pn & Dn) NN Nm Tn]. cbn [vis names] in *.
  rewrite app_nil_r in Ev, Fn.
  assert (NDv : NoDup (vis s')) by (apply ND; constructor).
  assert (NDi : NoDup (ids t)) by (apply (NoDup_perm_in new); [exact Pv | rewrite <- Ev; exact NDv]).
  assert (Vi : forall n, In n (vis s') <-> In n (ids t)).
  { intros n. rewrite Ev. split; intros X; [apply (Permutation_in n Pv X) | apply (Permutation_in n (Permutation_sym Pv) X)]. }
  assert (Reach : forall n, In n (ids t) <-> reach st root n).
  { intros n. split.
    - intros Hn. destruct (Re n Hn) as (k & [<-|[]] & Hr). exact Hr.
    - intros Hr. assert (G : forall a b, reach st a b -> In a (ids t) -> In b (ids t)).
      { clear Hr. intros a b Hab. induction Hab as [a | a m b Hs Hr' IH]; intros Ha; [exact Ha|]. apply IH. apply Vi. eapply C; eauto. }
      apply (G root n Hr). apply Vi. apply R. left. reflexivity. }
  assert (If : forall n, In n (frees log) <-> In n (ids t)).
  { intros n. split; intros X; [apply (Permutation_in n Ef X) | apply (Permutation_in n (Permutation_sym Ef) X)]. }
  split; [apply (NoDup_perm_in (ids t)); [apply Permutation_sym; exact Ef | exact NDi]|].
  split; [intros n; rewrite If; apply Reach|].
  rewrite Et, T. split; [apply NoDup_filter; exact NDi|].
  split; [intros n; rewrite filter_In, Reach; tauto|].
  rewrite En.
  assert (NDn : NoDup (tnames t)) by (apply (NoDup_perm_in nn); [exact Pn | rewrite <- Fn; apply NN; constructor]).
  split; [exact NDn|]. intros nm. split.
  - intros Hnm. destruct (Tn nm Hnm) as (n & Hn & E). exists n. split; [apply Reach; exact Hn | exact E].
  - intros (n & Hr & E). apply Reach in Hr. pose proof (Nm n nm Hr E) as X. rewrite Fn in X. apply (Permutation_in nm Pn X).
Qed.

(* what the correspondence run compares: number of parse_free calls for nodes, for names (non-NULL), terminal callbacks *)
Definition free_counts (fuel root : nat) : option (nat * nat * nat) :=
  match reduce st fuel root {| vis := []; names := [] |} with
  | Some (t, _) => let log := sweep t in Some (length (frees log), length (namefrees log), length (termcbs log))
  | None => None
  end.

End Top.

(* a shared TERM node under two abstract nodes of one rule inside an ALT chain *)
Example free_tree_ex :
  let st := [DAlt 1 (Some 2); DAnode 7 0 [4; 5]; DAlt 3 None; DAnode 7 0 [5; 4]; DTerm 97%Z 0; DNil] in
  free_counts st 10 0 = Some (6, 1, 1).
Proof. vm_compute. reflexivity. Qed.
