(* C16 - the C++ class interface behaves identically to the C interface.
   The two bindings share yaep.c and differ in the containers; the container
   expressions that decide behaviour (expansion test, new size, secondary hash)
   are regenerated from hashtab.c and hashtab.cpp and proved equal here, and
   the object-stack / VLO refinement theorems (C19) are about the one model
   both implementations are run against. *)
From YV Require Import Prelude Generated Containers ContainersProofs.
Local Open Scope Z_scope.

Theorem C16_same_expansion_test : forall size n, ht_need_expand_cpp size n = ht_need_expand_c size n.
Proof. reflexivity. Qed.
Print Assumptions C16_same_expansion_test.

Theorem C16_same_probe_step : forall size h, ht_step_cpp size h = ht_step_c size h.
Proof. reflexivity. Qed.
Print Assumptions C16_same_probe_step.

Theorem C16_same_new_size : forall n, ht_new_size_cpp n = ht_new_size_c n.
Proof. reflexivity. Qed.
Print Assumptions C16_same_new_size.

(* the growth of the variable length object and of the object stack segment is the same expression in both sources *)
Theorem C16_same_growth : forall len add dflt,
  vlo_new_len_cpp len add = vlo_new_len_c len add /\ os_new_seg_cpp len add dflt = os_new_seg_c len add dflt.
Proof. intros len add dflt. split; reflexivity. Qed.
Print Assumptions C16_same_growth.
