(* C09 - lookahead level, set caching and debug level never change a result.
   The outcome prescribed by the specifications (sentence; set of translations;
   costs) is a function of grammar and input alone - no lookahead or debug
   parameter occurs in them - and the facts of the source the argument needs
   (clamp expression, cache distance threshold) are regenerated from yaep.c. *)
From YV Require Import Prelude EarleySpec Recognizer Viable Lookahead FirstFollow Translate Dag Generated GeneratedChecks CacheModel.
From Coq Require Import String.
Local Open Scope Z_scope.

Theorem C09_level_clamped : forall l, setter_store_0 l = Z.max 0 (Z.min 2 l).
Proof. exact clamp_ok. Qed.
Print Assumptions C09_level_clamped.

Theorem C09_cache_threshold : cache_thr <= 1.
Proof. exact cache_thr_ok. Qed.
Print Assumptions C09_cache_threshold.

Theorem C09_verdict_determined : forall g axiom w b b',
  recognize g axiom w = Some b -> recognize g axiom w = Some b' -> b = b' /\ (b = true <-> sentence g axiom w).
Proof.
  intros g axiom w b b' H H'. split; [congruence|]. now apply recognize_correct.
Qed.
Print Assumptions C09_verdict_determined.

Local Close Scope Z_scope.
(* Pruning by one token of lookahead does not change the verdict: whatever the
   filter applied to scanned and completed items (static FIRST/FOLLOW sets at
   level 1, dynamic contexts at level 2, with or without the `error' exemption),
   as long as it keeps the items that lie on a derivation of the input, every
   family of sets between the filtered and the unfiltered items contains the
   final item exactly for the sentences. *)
Theorem C09_verdict_under_lookahead : forall g axiom (keep : option nat -> item -> Prop),
  (forall w p i, useful g axiom w p i -> keep (next w p) i) ->
  forall Sets : list nat -> list nat -> item -> Prop,
  (forall w p i, ItemF g axiom keep w p i -> Sets w p i) -> (forall w p i, Sets w p i -> Item g axiom p i) ->
  forall w, (exists i, Sets w w i /\ final axiom i) <-> sentence g axiom w.
Proof. intros g axiom keep Hk Sets Hlo Hhi. exact (proj1 (sandwich g axiom keep Hk Sets Hlo Hhi)). Qed.
Print Assumptions C09_verdict_under_lookahead.

(* The FIRST/FOLLOW filter of level 1 keeps those items, and so does every more
   permissive filter (the fixpoint sets of create_first_follow_sets are
   supersets of the exact FIRST/FOLLOW sets; items that `error' can follow are
   kept as well). *)
Theorem C09_static_filter_keeps_useful_items : forall g axiom (keep : option nat -> item -> Prop),
  (forall nx i, keep_static g axiom nx i -> keep nx i) ->
  forall w p i, useful g axiom w p i -> keep (next w p) i.
Proof. exact keep_superset_ok. Qed.
Print Assumptions C09_static_filter_keeps_useful_items.

(* every useful item is in the filtered sets (so nothing a parse needs is pruned) *)
Theorem C09_useful_items_survive : forall g axiom (keep : option nat -> item -> Prop),
  (forall w p i, useful g axiom w p i -> keep (next w p) i) ->
  forall w p i, useful g axiom w p i -> ItemF g axiom keep w p i.
Proof. exact useful_ItemF. Qed.
Print Assumptions C09_useful_items_survive.

(* "Internally reusing a previously computed Earley set always yields the set a
   fresh computation would produce": in the model of build_new_set (scan, then
   completion through the sets at [place + 1 - distance]), when the validity
   test of the cache succeeds - with the distance threshold found in the source
   - and the parse list up to the place of caching is unchanged, a fresh
   computation returns exactly the cached start situations. *)
Theorem C09_cache_reuse_is_sound : forall after adv lhs empty_tail keep fuel pl pl' k k' a R,
  build after adv lhs empty_tail keep fuel pl k a = Some R ->
  (forall j, j <= k -> pl' j = pl j) -> pl' k' = pl k ->
  cache_check (Z.to_nat cache_thr) pl' k k' R ->
  build after adv lhs empty_tail keep fuel pl' k' a = Some R.
Proof. exact cache_sound_src. Qed.
Print Assumptions C09_cache_reuse_is_sound.

(* the facts of the source the two theorems above rest on: both lookahead filters of build_new_set test
   the next token and exempt situations that `error' can follow; the places compared by the validity test
   of the cache and the place the completer looks at are k + 1 - distance *)
Theorem C09_source_filters_and_places :
  (la_filter_scan = la_filter_complete /\ In "grammar->term_error_num"%string la_filter_scan /\ In "lookahead_term_num"%string la_filter_scan) /\
  (forall k p d, cache_index_now k p d = (k + 1 - d)%Z /\ cache_index_then k p d = (p + 1 - d)%Z /\ completion_place k d = (k + 1 - d)%Z) /\
  cache_check_visits_all_start_sits = true.
Proof. split; [exact la_filters_same | split; [exact cache_indexes_ok | exact cache_check_loop_ok]]. Qed.
Print Assumptions C09_source_filters_and_places.

(* C09_cache_reuse_is_sound assumes that the parse list below the place of caching is the one the entry was saved
   with.  Only an error recovery rewrites the list; the source gives every saved entry the number of recoveries made
   so far, uses an entry only when that number is the current one, counts every recovery and starts every parse at 0 *)
Theorem C09_cache_entries_do_not_survive_a_recovery : cache_entries_carry_recovery_number = true.
Proof. reflexivity. Qed.
Print Assumptions C09_cache_entries_do_not_survive_a_recovery.

(* the sets the level-1 filter works with (nullable flags, FIRST, FOLLOW), read from the implementation through a hook
   and checked to be closed under the rules by the extracted [closed_tbl], contain the exact sets; hence the filter built
   from them keeps every item that lies on a derivation of the input, and by C09_verdict_under_lookahead the verdict and
   the error token are those of the unfiltered parser.  A fixpoint loop that stops too early leaves sets that are not
   closed. *)
Theorem C09_closed_sets_contain_first_and_follow : forall g axiom NL FIt FOt, closed_tbl g axiom NL FIt FOt = true ->
  (forall al, nullable_form g al -> nl_form NL al = true) /\
  (forall al a, first_of g al a -> fi_form NL (fun x => nth x FIt []) al a = true) /\
  (forall x a, follow_of g axiom x a -> memo (Some a) (nth x FOt []) = true) /\
  (forall x, follow_end g axiom x -> memo None (nth x FOt []) = true).
Proof. intros g axiom NL FIt FOt H. exact (closed_sets_contain_exact_sets g axiom NL _ _ H). Qed.
Print Assumptions C09_closed_sets_contain_first_and_follow.

Theorem C09_closed_sets_filter_keeps_useful_items : forall g axiom NL FIt FOt, closed_tbl g axiom NL FIt FOt = true ->
  forall w p i, useful g axiom w p i ->
  keep_closed NL (fun x => nth x FIt []) (fun x => nth x FOt []) (next w p) i = true.
Proof. intros g axiom NL FIt FOt H. exact (closed_filter_keeps_useful_items g axiom NL _ _ H). Qed.
Print Assumptions C09_closed_sets_filter_keeps_useful_items.

(* while the count of recoveries is the same, the parsing list only grows: what was below the place of caching is still
   there (the premise of C09_cache_reuse_is_sound that the source establishes by the recovery number of an entry) *)
Theorem C09_same_recovery_number_means_unchanged_list : forall (A : Type) ops (st : list A * nat) d j,
  snd (fold_left (plstep A) ops st) = snd st -> j < List.length (fst st) ->
  nth j (fst (fold_left (plstep A) ops st)) d = nth j (fst st) d.
Proof. exact same_epoch_unchanged_below. Qed.
Print Assumptions C09_same_recovery_number_means_unchanged_list.

(* why the loop of create_first_follow_sets ends with closed sets: one pass performs the unions the closure conditions
   ask for and reports whether a set changed; after a pass that reports no change the tables satisfy those conditions.
   (A pass whose report forgets one of its unions - the seeded changes to term_set_or and to the FOLLOW-from-FOLLOW
   step - loses exactly this, and the closure check on the sets read from the implementation shows it.) *)
Theorem C09_a_pass_without_change_leaves_closed_sets : forall NL g axiom FI FO,
  snd (pass NL g (FI, FO)) = false ->
  (forall r, In r g -> nl_form NL (rhs r) = true -> nl NL (lhs r) = true) ->
  memo None (FO axiom) = true ->
  closed_b g axiom NL FI FO = true.
Proof. exact pass_without_change_means_closed. Qed.
Print Assumptions C09_a_pass_without_change_leaves_closed_sets.
