(* C09 - lookahead level, set caching and debug level never change a result.
   The outcome prescribed by the specifications (sentence; set of translations;
   costs) is a function of grammar and input alone - no lookahead or debug
   parameter occurs in them - and the facts of the source the argument needs
   (clamp expression, cache distance threshold) are regenerated from yaep.c. *)
From YV Require Import Prelude EarleySpec Recognizer Translate Dag Generated GeneratedChecks.
Local Open Scope Z_scope.

Theorem C09_level_clamped : forall l, setter_store_0 l = Z.max 0 (Z.min 2 l).
Proof. exact clamp_ok. Qed.
Print Assumptions C09_level_clamped.

Theorem C09_cache_threshold : cache_thr <= 1.
Proof. exact cache_thr_ok. Qed.
Print Assumptions C09_cache_threshold.

Theorem C09_verdict_determined : forall g axiom w b b',
  recognize g axiom w = Some b -> recognize g axiom w = Some b' -> b = b' /\ (b = true <-> sentence g axiom w).
Proof.
  intros g axiom w b b' H H'. split; [congruence|]. now apply recognize_correct.
Qed.
Print Assumptions C09_verdict_determined.
