(* PruneMem: the release of the nodes discarded by minimal cost pruning (find_minimal_translation in yaep.c).
   prune_to_minimal logs every node it visits (terminal nodes and ALT nodes once per visit, abstract nodes at the
   first visit); traverse_pruned_translation enters every node of the pruned result and the names of its abstract
   nodes into a table; then the log is swept: a logged node that is not in the table is entered and passed to
   parse_free, together with its name when the name is not in the table either.
   Theorems: whatever the log (repetitions, any order), a node is freed iff it is logged and not reserved, never
   twice; a name is freed iff an abstract node carrying it is freed and the name is not reserved (no node of the
   result carries it), never twice. *)
From YV Require Import Prelude.

Definition pmem (x : nat) (l : list nat) : bool := existsb (Nat.eqb x) l.
Lemma pmem_In x l : pmem x l = true <-> In x l.
Proof.
  unfold pmem. rewrite existsb_exists. split.
  - intros (y & Hy & E). apply Nat.eqb_eq in E. now subst.
  - intros H. exists x. split; auto. apply Nat.eqb_refl.
Qed.
Lemma pmem_false x l : pmem x l = false <-> ~ In x l.
Proof. rewrite <- pmem_In. destruct (pmem x l); split; congruence. Qed.

Section Sweep.
Variable name_of : nat -> option nat.      (* the name block of an abstract node *)
Variable R : list nat.                     (* nodes of the pruned result *)
Variable RN : list nat.                    (* names of the abstract nodes of the pruned result *)

Record sw := { seen : list nat; seen_names : list nat; fnodes : list nat; fnames : list nat }.

Definition psweep1 (s : sw) (v : nat) : sw :=
  if pmem v (R ++ seen s) then s else
  match name_of v with
  | Some nm =>
      if pmem nm (RN ++ seen_names s)
      then {| seen := v :: seen s; seen_names := seen_names s; fnodes := fnodes s ++ [v]; fnames := fnames s |}
      else {| seen := v :: seen s; seen_names := nm :: seen_names s; fnodes := fnodes s ++ [v]; fnames := fnames s ++ [nm] |}
  | None => {| seen := v :: seen s; seen_names := seen_names s; fnodes := fnodes s ++ [v]; fnames := fnames s |}
  end.

Definition psweep (V : list nat) : sw := fold_left psweep1 V {| seen := []; seen_names := []; fnodes := []; fnames := [] |}.

(* invariant of the psweep over a prefix P of the log *)
Record PInv (P : list nat) (s : sw) : Prop := {
  i_nodes : forall v, In v (fnodes s) <-> In v P /\ ~ In v R;
  i_seen : forall v, In v (seen s) <-> In v (fnodes s);
  i_nodup : NoDup (fnodes s);
  i_names : forall nm, In nm (fnames s) <-> (exists v, In v (fnodes s) /\ name_of v = Some nm) /\ ~ In nm RN;
  i_seen_names : forall nm, In nm (seen_names s) <-> In nm (fnames s);
  i_nodup_names : NoDup (fnames s)
}.

Lemma NoDup_snoc' (l : list nat) x : NoDup l -> ~ In x l -> NoDup (l ++ [x]).
Proof.
  induction l as [|y l IH]; intros H Hx; simpl; [constructor; [intros [] | constructor]|].
  inversion H; subst. constructor.
  - intros Hin. apply in_app_or in Hin. destruct Hin as [Hin|[<-|[]]]; [contradiction | apply Hx; left; reflexivity].
  - apply IH; [assumption | intros Hin; apply Hx; right; exact Hin].
Qed.

Lemma psweep1_inv P s v : PInv P s -> PInv (P ++ [v]) (psweep1 s v).
Proof.
  intros [I1 I2 I3 I4 I5 I6]. unfold psweep1.
  destruct (pmem v (R ++ seen s)) eqn:Em.
  - (* reserved or already freed *)
    apply pmem_In in Em. apply in_app_or in Em.
    constructor; auto. intros w. rewrite I1, in_app_iff. simpl. split.
    + intros [H1 H2]. split; auto.
    + intros [[H|[<-|[]]] H2]; [split; auto|]. destruct Em as [Em|Em]; [contradiction|]. apply I2, I1 in Em. exact Em.
  - apply pmem_false in Em. assert (HvR : ~ In v R) by (intros H; apply Em, in_or_app; left; exact H).
    assert (Hvs : ~ In v (fnodes s)) by (intros H; apply Em, in_or_app; right; apply I2; exact H).
    assert (N1 : forall w, In w (fnodes s ++ [v]) <-> In w (P ++ [v]) /\ ~ In w R).
    { intros w. rewrite !in_app_iff. simpl. rewrite I1. split.
      - intros [[H1 H2]|[<-|[]]]; split; auto.
      - intros [[H|[<-|[]]] H2]; [left; split; auto | right; left; reflexivity]. }
    assert (N2 : forall w, In w (v :: seen s) <-> In w (fnodes s ++ [v])).
    { intros w. rewrite in_app_iff. simpl. rewrite I2. split; [intros [H|H]; [right; left; exact H | left; exact H] | intros [H|[H|[]]]; [right; exact H | left; exact H]]. }
    assert (N3 : NoDup (fnodes s ++ [v])) by (apply NoDup_snoc'; auto).
    destruct (name_of v) as [nm|] eqn:En.
    + destruct (pmem nm (RN ++ seen_names s)) eqn:Enm.
      * (* the name is reserved or already freed *)
        apply pmem_In in Enm. apply in_app_or in Enm.
        constructor; simpl; [exact N1 | exact N2 | exact N3 | | exact I5 | exact I6].
        intros n. rewrite I4. split.
        -- intros [(w & Hw & Hn) Hr]. split; auto. exists w. split; auto. apply in_or_app. left. exact Hw.
        -- intros [(w & Hw & Hn) Hr]. apply in_app_or in Hw. destruct Hw as [Hw|[<-|[]]].
           ++ split; auto. exists w. split; auto.
           ++ assert (n = nm) by congruence. subst n. destruct Enm as [Enm|Enm]; [contradiction|].
              apply I5, I4 in Enm. exact Enm.
      * apply pmem_false in Enm.
        assert (HnR : ~ In nm RN) by (intros H; apply Enm, in_or_app; left; exact H).
        assert (Hns : ~ In nm (fnames s)) by (intros H; apply Enm, in_or_app; right; apply I5; exact H).
        constructor; simpl; [exact N1 | exact N2 | exact N3 | | | ].
        -- intros n. rewrite in_app_iff. simpl. rewrite I4. split.
           ++ intros [[(w & Hw & Hn) Hr]|[<-|[]]].
              ** split; auto. exists w. split; auto. apply in_or_app. left. exact Hw.
              ** split; auto. exists v. split; auto. apply in_or_app. right. left. reflexivity.
           ++ intros [(w & Hw & Hn) Hr]. apply in_app_or in Hw. destruct Hw as [Hw|[<-|[]]].
              ** left. split; auto. exists w. split; auto.
              ** right. left. congruence.
        -- intros n. rewrite in_app_iff. simpl. rewrite I5. split; [intros [H|H]; [right; left; exact H | left; exact H] | intros [H|[H|[]]]; [right; exact H | left; exact H]].
        -- apply NoDup_snoc'; auto.
    + constructor; simpl; [exact N1 | exact N2 | exact N3 | | exact I5 | exact I6].
      intros n. rewrite I4. split.
      * intros [(w & Hw & Hn) Hr]. split; auto. exists w. split; auto. apply in_or_app. left. exact Hw.
      * intros [(w & Hw & Hn) Hr]. apply in_app_or in Hw. destruct Hw as [Hw|[<-|[]]]; [|congruence].
        split; auto. exists w. split; auto.
Qed.

Lemma psweep_fold V : forall P s, PInv P s -> PInv (P ++ V) (fold_left psweep1 V s).
Proof.
  induction V as [|v V IH]; intros P s H; simpl.
  - now rewrite app_nil_r.
  - replace (P ++ v :: V) with ((P ++ [v]) ++ V) by (rewrite <- app_assoc; reflexivity).
    apply IH. apply psweep1_inv. exact H.
Qed.

Theorem psweep_inv V : PInv V (psweep V).
Proof.
  unfold psweep. change V with ([] ++ V) at 1. apply psweep_fold.
  constructor; simpl.
  - intros v. split; [intros [] | intros [[] _]].
  - intros v. tauto.
  - constructor.
  - intros nm. split; [intros [] | intros [(v & [] & _) _]].
  - intros nm. tauto.
  - constructor.
Qed.

(* the statements *)
Theorem freed_nodes V : NoDup (fnodes (psweep V)) /\ forall v, In v (fnodes (psweep V)) <-> In v V /\ ~ In v R.
Proof. destruct (psweep_inv V) as [I1 _ I3 _ _ _]. split; auto. Qed.

Theorem freed_names V : NoDup (fnames (psweep V)) /\
  forall nm, In nm (fnames (psweep V)) <-> (exists v, In v V /\ ~ In v R /\ name_of v = Some nm) /\ ~ In nm RN.
Proof.
  destruct (psweep_inv V) as [I1 _ _ I4 _ I6]. split; auto.
  intros nm. rewrite I4. split; intros [(v & Hv & Hn) Hr]; split; auto; exists v.
  - apply I1 in Hv. tauto.
  - destruct Hn as [Hn1 Hn2]. split; auto. apply I1. tauto.
Qed.

(* no leak: with a log that contains every block of the unpruned result, each block is in the pruned result or freed *)
Corollary every_block_kept_or_freed V (blocks : list nat) : incl blocks V ->
  forall v, In v blocks -> (In v R /\ ~ In v (fnodes (psweep V))) \/ (~ In v R /\ In v (fnodes (psweep V))).
Proof.
  intros Hi v Hv. destruct (freed_nodes V) as [_ H].
  destruct (in_dec Nat.eq_dec v R) as [Hr|Hr].
  - left. split; auto. intros Hf. apply H in Hf. tauto.
  - right. split; auto. apply H. split; auto.
Qed.

End Sweep.

(* nodes 1 2 3 4 logged (2 twice); 1 and 4 stay in the result; names: 1 -> 10, 2 -> 10, 3 -> 11 *)
Example psweep_ex :
  let s := psweep (fun v => match v with 1 => Some 10 | 2 => Some 10 | 3 => Some 11 | _ => None end) [1; 4] [10] [1; 2; 3; 2; 4] in
  fnodes s = [2; 3] /\ fnames s = [11].
Proof. vm_compute. auto. Qed.
