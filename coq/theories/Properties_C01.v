(* C01 - Recognition is exact.  Statements only; proofs are in the cited files. *)
From YV Require Import Prelude EarleySpec Recognizer.

(* The declarative item system is exactly "valid item of the consumed prefix". *)
Theorem C01_items_characterised : forall g axiom p i, Item g axiom p i <-> valid g axiom p i.
Proof. exact Item_iff. Qed.
Print Assumptions C01_items_characterised.

(* The oracle the implementation's verdict is compared with decides "sentence". *)
Theorem C01_decider_exact : forall g axiom w b,
  recognize g axiom w = Some b -> (b = true <-> sentence g axiom w).
Proof. exact recognize_correct. Qed.
Print Assumptions C01_decider_exact.
