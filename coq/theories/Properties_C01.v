(* C01 - Recognition is exact.  Statements only; proofs are in the cited files. *)
From YV Require Import Prelude EarleySpec Recognizer Viable Lookahead YaepClosure.

(* The declarative item system is exactly "valid item of the consumed prefix". *)
Theorem C01_items_characterised : forall g axiom p i, Item g axiom p i <-> valid g axiom p i.
Proof. exact Item_iff. Qed.
Print Assumptions C01_items_characterised.

(* The oracle the implementation's verdict is compared with decides "sentence". *)
Theorem C01_decider_exact : forall g axiom w b,
  recognize g axiom w = Some b -> (b = true <-> sentence g axiom w).
Proof. exact recognize_correct. Qed.
Print Assumptions C01_decider_exact.

(* "the verdict is the same for every lookahead level": sets pruned by a
   lookahead filter that keeps the items on a derivation of the input accept
   exactly the sentences (Lookahead.v; the level-1 filter is shown to be such a
   filter in C09_static_filter_keeps_useful_items). *)
Theorem C01_verdict_under_lookahead : forall g axiom (keep : option nat -> item -> Prop),
  (forall w p i, useful g axiom w p i -> keep (next w p) i) ->
  forall w, (exists i, ItemF g axiom keep w w i /\ final axiom i) <-> sentence g axiom w.
Proof. exact acceptF. Qed.
Print Assumptions C01_verdict_under_lookahead.

(* YAEP's treatment of nullable symbols (the dot is moved over a nullable
   nonterminal when a set is expanded; the completer fires for situations with a
   nullable tail whose origin is an earlier set; nothing is completed over an
   empty span) derives exactly the textbook items ... *)
Theorem C01_yaep_rules_derive_the_same_items : forall g axiom nl,
  (forall x, nl x = true <-> derives g [N x] []) ->
  forall p i, YItem g axiom nl p i <-> Item g axiom p i.
Proof. exact YItem_iff. Qed.
Print Assumptions C01_yaep_rules_derive_the_same_items.

(* ... and a family of sets closed under these five rules contains every item of every prefix. *)
Theorem C01_closed_sets_are_complete : forall g axiom nl,
  (forall x, nl x = true <-> derives g [N x] []) ->
  forall w S_, certificate g axiom nl w S_ ->
  forall k i, k <= length w -> Item g axiom (firstn k w) i -> In i (S_ k).
Proof. exact certificate_contains_all_items. Qed.
Print Assumptions C01_closed_sets_are_complete.
