(* Viable: in a grammar all of whose nonterminals derive a terminal string (what
   strict checking establishes), an Earley item of a prefix exists exactly when
   the prefix can be continued to a sentence.  Hence the first token that cannot
   be shifted is the first token such that no sentence starts with the tokens
   up to and including it - independently of any lookahead level. *)
From YV Require Import Prelude EarleySpec Recognizer.

Section V.
Variable g : grammar.
Variable axiom : nat.

(* every nonterminal that occurs in a right-hand side derives a terminal string *)
Definition productive : Prop :=
  forall r x, In r g -> In (N x) (rhs r) -> exists w, derives g [N x] w.

Lemma productive_form : productive -> forall r, In r g -> forall be, incl be (rhs r) -> exists v, derives g be v.
Proof.
  intros HP r Hr be. induction be as [|s be IH]; intros Hi.
  - exists []. constructor.
  - destruct IH as (v & Hv); [intros y Hy; apply Hi; right; exact Hy|].
    destruct s as [a|x].
    + exists (a :: v). constructor. exact Hv.
    + destruct (HP r x Hr (Hi _ (or_introl eq_refl))) as (u & Hu).
      exists (u ++ v). change (N x :: be) with ([N x] ++ be). apply derives_app; assumption.
Qed.

(* whatever a reachable nonterminal derives can be completed to a sentence *)
Lemma reach_completes : productive -> forall p x, reach g axiom p x ->
  forall u, derives g [N x] u -> exists s, sentence g axiom (p ++ u ++ s).
Proof.
  intros HP p x H. induction H as [| p1 p2 r al x be Hre IH Hr Hrhs Hd]; intros u Hu.
  - exists []. rewrite app_nil_r. exact Hu.
  - destruct (productive_form HP r Hr be) as (v & Hv).
    { intros y Hy. rewrite Hrhs. apply in_or_app. right. right. exact Hy. }
    assert (D : derives g [N (lhs r)] (p2 ++ u ++ v)).
    { apply derives_single_N. exists r. split; [exact Hr|]. split; [reflexivity|].
      rewrite Hrhs. apply derives_app; [exact Hd|]. change (N x :: be) with ([N x] ++ be). apply derives_app; assumption. }
    destruct (IH _ D) as (s & Hs). exists (v ++ s).
    replace ((p1 ++ p2) ++ u ++ v ++ s) with (p1 ++ (p2 ++ u ++ v) ++ s); [exact Hs|].
    rewrite <- !app_assoc. reflexivity.
Qed.

Lemma skipn_incl {A} n (l : list A) : incl (skipn n l) l.
Proof. intros x Hx. rewrite <- (firstn_skipn n l). apply in_or_app. right. exact Hx. Qed.

Theorem item_viable : productive -> forall p i, Item g axiom p i -> exists s, sentence g axiom (p ++ s).
Proof.
  intros HP p i Hi. apply Item_sound in Hi. destruct Hi as (Hin & Hle & p1 & p2 & -> & Hlen & Hre & Hd).
  destruct (productive_form HP (ir i) Hin (after i)) as (v & Hv); [apply skipn_incl|].
  assert (D : derives g [N (lhs (ir i))] (p2 ++ v)).
  { apply derives_single_N. exists (ir i). split; [exact Hin|]. split; [reflexivity|].
    rewrite <- (firstn_skipn (idot i) (rhs (ir i))). apply derives_app; assumption. }
  destruct (reach_completes HP _ _ Hre _ D) as (s & Hs). exists (v ++ s).
  replace ((p1 ++ p2) ++ v ++ s) with (p1 ++ (p2 ++ v) ++ s); [exact Hs|]. rewrite <- !app_assoc. reflexivity.
Qed.

(* the sets of the prefixes of a recognised string are not empty *)
Lemma item_prefix : forall q i, Item g axiom q i -> forall p s, q = p ++ s -> exists i', Item g axiom p i'.
Proof.
  intros q i H. induction H as [r Hr Hax | q i a be Hi IH Ha | q i x be r Hi IH Ha Hr Hl
                               | p1 p2 i c be Hi IHi Ha Hc IHc Hcn Hco]; intros p s E.
  - symmetry in E. apply app_eq_nil in E. destruct E as [-> _]. eexists. apply I_init; eauto.
  - destruct s as [|b s] using rev_ind.
    + rewrite app_nil_r in E. subst p. eexists. eapply I_scan; eauto.
    + rewrite app_assoc in E. apply app_inj_tail in E. destruct E as [E _]. eapply IH; eauto.
  - eapply IH; eauto.
  - eapply IHc; eauto.
Qed.

Theorem viable_item : forall p s, sentence g axiom (p ++ s) -> exists i, Item g axiom p i.
Proof.
  intros p s H. apply accept_iff in H. destruct H as (i & Hi & _). eapply item_prefix; eauto.
Qed.

Theorem viable_prefix_iff : productive -> forall p,
  (exists i, Item g axiom p i) <-> (exists s, sentence g axiom (p ++ s)).
Proof.
  intros HP p. split.
  - intros (i & Hi). eapply item_viable; eauto.
  - intros (s & Hs). eapply viable_item; eauto.
Qed.

(* the decider's count, read as the property states it *)
Theorem first_offending_token : productive -> forall w k acc,
  shift_count g axiom w = Some (k, acc) -> count_nonempty (earley_sets g axiom w) > 0 ->
  (forall j, j <= k -> j <= length w -> exists s, sentence g axiom (firstn j w ++ s)) /\
  (k < length w -> ~ exists s, sentence g axiom (firstn (S k) w ++ s)).
Proof.
  intros HP w k acc H Hpos. destruct (shift_count_spec g axiom w k acc H) as (A & B & _). split.
  - intros j Hj Hjw. apply viable_prefix_iff; auto.
  - intros Hk Hs. apply (B Hk Hpos). apply viable_prefix_iff; auto.
Qed.

End V.

(* non-vacuity: S -> a S b | <empty> is productive; "aab" continues to a sentence, "ab a" does not *)
Example productive_ex :
  let g := [ {| lhs := 0; rhs := [T 0; N 0; T 1] |}; {| lhs := 0; rhs := [] |} ] in
  productive g /\ shift_count g 0 [0; 0; 1] = Some (3, false) /\ shift_count g 0 [0; 1; 0] = Some (2, false).
Proof.
  split; [|vm_compute; auto].
  intros r x Hr Hx. exists []. apply derives_single_N. exists {| lhs := 0; rhs := [] |}.
  destruct Hr as [<- | [<- | []]]; simpl in Hx.
  - destruct Hx as [Hx | [Hx | [Hx | []]]]; try discriminate. injection Hx as <-. simpl. split; [auto|]. split; [reflexivity | constructor].
  - destruct Hx.
Qed.
