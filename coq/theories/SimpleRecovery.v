(* SimpleRecovery: the yardstick of C08.  A simple recovery (b, f) for an input
   whose first unshiftable token has index e goes back to position b <= e,
   shifts `error' there and continues with the tokens from e + f on (toks is
   the input followed by the end marker).  It succeeds when `error' and the
   next recovery_match tokens can be shifted - or, if fewer remain, all of them
   up to acceptance.  Its cost is (e - b) + f.  [min_simple_cost] is the least
   cost of a successful simple recovery, computed with the verified decider
   shift_count; the check compares the number of tokens the implementation
   reports as ignored with it. *)
From YV Require Import Prelude EarleySpec Recognizer.

Section R.
Variable g : grammar.
Variable axiom : nat.
Variable err : nat.               (* the terminal `error' *)
Variable toks : list nat.         (* input ++ [end marker] *)
Variable e m : nat.               (* index of the error token; recovery_match *)

Definition repaired (b f : nat) : list nat := firstn b toks ++ err :: skipn (e + f) toks.

(* Some true: (b, f) is a successful simple recovery; None: the decider gave up (certificate) *)
Definition simple_ok (b f : nat) : option bool :=
  match skipn (e + f) toks with
  | [] => Some false
  | rest =>
      match shift_count g axiom (repaired b f) with
      | None => None
      | Some (k, acc) => Some (if Nat.leb m (length rest) then Nat.leb (b + 1 + m) k else acc)
      end
  end.

(* what Some true means, in terms of the declarative items *)
Theorem simple_ok_spec b f : simple_ok b f = Some true ->
  count_nonempty (earley_sets g axiom (repaired b f)) > 0 ->
  skipn (e + f) toks <> [] /\
  (m <= length (skipn (e + f) toks) -> b <= length toks ->
     forall j, j <= b + 1 + m -> exists i, Item g axiom (firstn j (repaired b f)) i) /\
  (length (skipn (e + f) toks) < m -> sentence g axiom (repaired b f)).
Proof.
  unfold simple_ok. intros H Hpos. destruct (skipn (e + f) toks) as [|x rest'] eqn:Er; [discriminate|].
  destruct (shift_count g axiom (repaired b f)) as [[k acc]|] eqn:Es; [|discriminate].
  destruct (shift_count_spec g axiom _ k acc Es) as (A & _ & C).
  split; [discriminate|]. split.
  - intros Hm Hb j Hj. destruct (Nat.leb_spec m (length (x :: rest'))) as [L|L]; [|lia].
    injection H as H. apply Nat.leb_le in H. apply A; [lia| |exact Hpos].
    unfold repaired. rewrite app_length, firstn_length, Er. cbn [length] in *. rewrite Nat.min_l by lia. lia.
  - intros Hm. destruct (Nat.leb_spec m (length (x :: rest'))) as [L|L]; [lia|]. injection H as ->. apply C. reflexivity.
Qed.

(* all candidates (b, f) with b <= e and e + f <= |toks|, with their costs *)
Definition candidates : list (nat * nat) :=
  flat_map (fun b => map (fun f => (b, f)) (seq 0 (S (length toks - e)))) (seq 0 (S e)).

Lemma candidates_In b f : In (b, f) candidates <-> b <= e /\ f <= length toks - e.
Proof.
  unfold candidates. rewrite in_flat_map. split.
  - intros (b' & Hb & H). apply in_map_iff in H. destruct H as (f' & E & Hf). injection E as -> ->.
    apply in_seq in Hb, Hf. lia.
  - intros [Hb Hf]. exists b. split; [apply in_seq; lia|]. apply in_map_iff. exists f. split; [reflexivity | apply in_seq; lia].
Qed.

Definition cost (bf : nat * nat) : nat := (e - fst bf) + snd bf.

(* None: the decider gave up on some candidate; Some None: no successful simple recovery; Some (Some c): the least cost *)
Fixpoint min_over (l : list (nat * nat)) (best : option nat) : option (option nat) :=
  match l with
  | [] => Some best
  | bf :: l' =>
      match simple_ok (fst bf) (snd bf) with
      | None => None
      | Some true => min_over l' (match best with Some c => Some (Nat.min c (cost bf)) | None => Some (cost bf) end)
      | Some false => min_over l' best
      end
  end.
Definition min_simple_cost : option (option nat) := min_over candidates None.

Lemma min_over_spec : forall l best r, min_over l best = Some r ->
  (forall bf, In bf l -> simple_ok (fst bf) (snd bf) = Some true -> exists c, r = Some c /\ c <= cost bf) /\
  (forall c0, best = Some c0 -> exists c, r = Some c /\ c <= c0) /\
  (forall c, r = Some c -> best = Some c \/ exists bf, In bf l /\ simple_ok (fst bf) (snd bf) = Some true /\ cost bf = c).
Proof.
  induction l as [|bf l IH]; intros best r H; cbn [min_over] in H.
  - injection H as <-. split; [intros bf []|]. split; [intros c0 ->; exists c0; auto | intros c ->; left; reflexivity].
  - destruct (simple_ok (fst bf) (snd bf)) as [[|]|] eqn:E; [| |discriminate].
    + destruct (IH _ _ H) as (A & B & C). split; [|split].
      * intros bf' [<-|Hin] Hok.
        -- destruct best as [c0|]; [destruct (B (Nat.min c0 (cost bf)) eq_refl) as (c & -> & L) | destruct (B (cost bf) eq_refl) as (c & -> & L)]; exists c; split; auto; lia.
        -- apply A; auto.
      * intros c0 ->. destruct (B (Nat.min c0 (cost bf)) eq_refl) as (c & -> & L). exists c. split; auto. lia.
      * intros c Hc. destruct (C c Hc) as [X | (bf' & Hin & Hok & Hcost)].
        -- destruct best as [c0|].
           ++ injection X as X. destruct (Nat.min_spec c0 (cost bf)) as [[_ M]|[_ M]]; rewrite M in X.
              ** left. congruence.
              ** right. exists bf. split; [left; reflexivity | auto].
           ++ injection X as X. right. exists bf. split; [left; reflexivity | auto].
        -- right. exists bf'. split; [right; exact Hin | auto].
    + destruct (IH _ _ H) as (A & B & C). split; [|split; [exact B|]].
      * intros bf' [<-|Hin] Hok; [congruence | apply A; auto].
      * intros c Hc. destruct (C c Hc) as [X | (bf' & Hin & Hok & Hcost)]; [left; exact X | right; exists bf'; split; [right; exact Hin | auto]].
Qed.

(* the least cost of a successful simple recovery *)
Theorem min_simple_cost_spec r : min_simple_cost = Some r ->
  (forall b f, b <= e -> f <= length toks - e -> simple_ok b f = Some true -> exists c, r = Some c /\ c <= (e - b) + f) /\
  (forall c, r = Some c -> exists b f, b <= e /\ f <= length toks - e /\ simple_ok b f = Some true /\ (e - b) + f = c).
Proof.
  unfold min_simple_cost. intros H. destruct (min_over_spec _ _ _ H) as (A & _ & C). split.
  - intros b f Hb Hf Hok. apply (A (b, f)); [apply candidates_In; auto | exact Hok].
  - intros c Hc. destruct (C c Hc) as [X | ([b f] & Hin & Hok & Hcost)]; [discriminate|].
    apply candidates_In in Hin. exists b, f. cbn [fst snd] in *. unfold cost in Hcost. cbn [fst snd] in Hcost. tauto.
Qed.
End R.

(* S' : S $ | error $ ;  S : a b c | a error c   (terminals a=0 b=1 c=2 error=3 $=4; nonterminals S'=0 S=1).
   Input a b b c $: the first token that cannot be shifted is token 2; with recovery_match 2 the cheapest
   simple recovery goes back to position 1 (error expected after a), skips token 2: cost (2 - 1) + 1 = 2. *)
Example simple_recovery_ex :
  let g := [ {| lhs := 0; rhs := [N 1; T 4] |}; {| lhs := 0; rhs := [T 3; T 4] |};
             {| lhs := 1; rhs := [T 0; T 1; T 2] |}; {| lhs := 1; rhs := [T 0; T 3; T 2] |} ] in
  shift_count g 0 [0; 1; 1; 2; 4] = Some (2, false) /\
  min_simple_cost g 0 3 [0; 1; 1; 2; 4] 2 2 = Some (Some 2) /\
  simple_ok g 0 3 [0; 1; 1; 2; 4] 2 2 1 1 = Some true.
Proof. vm_compute. auto. Qed.
