(* CacheModel: why re-using a cached successor set is sound.
   build_new_set computes the start situations of the next set from the current
   set (scan) and, for every new start situation whose tail is nullable, from
   the set at the place where its rule began (complete): pl[k + 1 - dist].
   The result is therefore a function of the current set, the token, the
   lookahead filter and of those earlier sets only.  check_cached_transition_set
   accepts a cached result when, for every start situation of the cached set
   with distance above a threshold, the set at [current place + 1 - distance]
   is the set at [place of caching + 1 - distance].  Theorem: if the threshold
   is at most 1 (the value regenerated from the source satisfies this,
   GeneratedChecks.cache_thr_ok) and the parse list up to the place of caching
   has not changed, a fresh computation at the current place returns exactly the
   cached start situations - hence, after expansion, the same set. *)
From YV Require Import Prelude Generated GeneratedChecks.

Record citem := { isit : nat; idist : nat }.     (* situation (number), distance *)
Definition cset := list citem.

Definition item_eqb (a b : citem) : bool := Nat.eqb (isit a) (isit b) && Nat.eqb (idist a) (idist b).
Lemma item_eqb_spec a b : item_eqb a b = true <-> a = b.
Proof.
  destruct a as [s d], b as [s' d']. unfold item_eqb; cbn [isit idist]. rewrite andb_true_iff, !Nat.eqb_eq.
  split; [intros [-> ->]; reflexivity | intros H; injection H as -> ->; auto].
Qed.

Section C.
Variable after : nat -> option nat.   (* the symbol after the dot of a situation *)
Variable adv : nat -> nat.            (* the situation with the dot moved over it *)
Variable lhs : nat -> nat.
Variable empty_tail : nat -> bool.    (* everything after the dot is nullable *)
Variable keep : nat -> bool.          (* lookahead filter for the token after the one being shifted *)

Definition trans (S : cset) (x : nat) : cset :=
  filter (fun it => match after (isit it) with Some y => Nat.eqb x y | None => false end) S.

Definition imemb (it : citem) (l : list citem) : bool := existsb (item_eqb it) l.

(* moved items of a transition vector, filtered by lookahead, without those already known *)
Fixpoint fresh (extra : nat) (tr : cset) (known : list citem) : list citem :=
  match tr with
  | [] => []
  | it :: tr' =>
      let n := {| isit := adv (isit it); idist := idist it + extra |} in
      if keep (isit n) && negb (imemb n known) then n :: fresh extra tr' (known ++ [n]) else fresh extra tr' known
  end.

(* the completion loop over the growing array of new start situations *)
Fixpoint close (fuel : nat) (pl : nat -> cset) (k : nat) (todo acc : list citem) : option (list citem) :=
  match todo with
  | [] => Some acc
  | it :: todo' =>
      match fuel with
      | O => None
      | S f =>
          if empty_tail (isit it)
          then let news := fresh (idist it) (trans (pl (k + 1 - idist it)) (lhs (isit it))) acc in
               close f pl k (todo' ++ news) (acc ++ news)
          else close f pl k todo' acc
      end
  end.

Definition build (fuel : nat) (pl : nat -> cset) (k a : nat) : option (list citem) :=
  let init := fresh 1 (trans (pl k) a) [] in close fuel pl k init init.

Lemma fresh_dist extra tr : forall known it, In it (fresh extra tr known) -> extra <= idist it.
Proof.
  induction tr as [|x tr IH]; intros known it H; cbn [fresh] in H; [destruct H|].
  destruct (keep _ && negb _).
  - destruct H as [<-|H]; [cbn; lia | eapply IH; eauto].
  - eapply IH; eauto.
Qed.

Lemma close_ext : forall fuel pl k todo acc R, close fuel pl k todo acc = Some R -> exists more, R = acc ++ more.
Proof.
  induction fuel as [|f IH]; intros pl k todo acc R H; destruct todo as [|it todo]; cbn [close] in H; try discriminate.
  - injection H as <-. exists []. rewrite app_nil_r. reflexivity.
  - injection H as <-. exists []. rewrite app_nil_r. reflexivity.
  - destruct (empty_tail (isit it)).
    + apply IH in H. destruct H as (more & ->). eexists. rewrite <- app_assoc. reflexivity.
    + apply IH in H. exact H.
Qed.

(* the loop consults the earlier sets only at the places of the items it has found *)
Lemma close_same : forall fuel pl pl' k k' todo acc R,
  close fuel pl k todo acc = Some R ->
  (forall it, In it todo -> In it acc) -> (forall it, In it acc -> 1 <= idist it) ->
  (forall it, In it R -> pl' (k' + 1 - idist it) = pl (k + 1 - idist it)) ->
  close fuel pl' k' todo acc = Some R.
Proof.
  induction fuel as [|f IH]; intros pl pl' k k' todo acc R H Hsub Hd Hag; destruct todo as [|it todo]; cbn [close] in *; try discriminate; auto.
  destruct (empty_tail (isit it)) eqn:E.
  - assert (HitR : In it R).
    { destruct (close_ext _ _ _ _ _ _ H) as (more & ->). apply in_or_app. left. apply in_or_app. left. apply Hsub. left. reflexivity. }
    rewrite (Hag it HitR). apply (IH pl pl' k k'); auto.
    + intros x Hx. apply in_app_or in Hx. apply in_or_app. destruct Hx as [Hx|Hx]; [left; apply Hsub; right; exact Hx | right; exact Hx].
    + intros x Hx. apply in_app_or in Hx. destruct Hx as [Hx|Hx]; [apply Hd; exact Hx|].
      apply fresh_dist in Hx. pose proof (Hd it (Hsub it (or_introl eq_refl))). lia.
  - apply (IH pl pl' k k'); auto. intros x Hx. apply Hsub. right. exact Hx.
Qed.

Lemma close_dist : forall fuel pl k todo acc R, close fuel pl k todo acc = Some R ->
  (forall it, In it todo -> In it acc) -> (forall it, In it acc -> 1 <= idist it) ->
  forall it, In it R -> 1 <= idist it.
Proof.
  induction fuel as [|f IH]; intros pl k todo acc R H Hsub Hd; destruct todo as [|t todo]; cbn [close] in H; try discriminate.
  - injection H as <-. exact Hd.
  - injection H as <-. exact Hd.
  - destruct (empty_tail (isit t)).
    + apply (IH _ _ _ _ _ H).
      * intros x Hx. apply in_app_or in Hx. apply in_or_app. destruct Hx as [Hx|Hx]; [left; apply Hsub; right; exact Hx | right; exact Hx].
      * intros x Hx. apply in_app_or in Hx. destruct Hx as [Hx|Hx]; [apply Hd; exact Hx|].
        apply fresh_dist in Hx. pose proof (Hd t (Hsub t (or_introl eq_refl))). lia.
    + apply (IH _ _ _ _ _ H); [intros x Hx; apply Hsub; right; exact Hx | exact Hd].
Qed.

(* the validity test of the cache, as a proposition: for every cached start situation with a distance
   above the threshold, the set now at [k' + 1 - dist] is the set at [k + 1 - dist] *)
Definition cache_check (thr : nat) (pl' : nat -> cset) (k k' : nat) (R : list citem) : Prop :=
  forall it, In it R -> thr < idist it -> pl' (k' + 1 - idist it) = pl' (k + 1 - idist it).

Theorem cache_sound fuel thr pl pl' k k' a R :
  thr <= 1 ->
  build fuel pl k a = Some R ->                      (* the cached result, computed at place k of the list pl *)
  (forall j, j <= k -> pl' j = pl j) ->               (* the list up to that place has not changed since *)
  pl' k' = pl k ->                                   (* same current set (the key of the cache) *)
  cache_check thr pl' k k' R ->                      (* check_cached_transition_set says yes *)
  build fuel pl' k' a = Some R.                      (* a fresh computation gives the cached result *)
Proof.
  intros Hthr H Hpre Hcur Hchk. unfold build in *. rewrite Hcur.
  assert (Hinit : forall it, In it (fresh 1 (trans (pl k) a) []) -> 1 <= idist it) by (intros it Hit; apply (fresh_dist 1 _ [] it Hit)).
  apply (close_same fuel pl pl' k k'); auto.
  intros it Hit. pose proof (close_dist _ _ _ _ _ _ H (fun x Hx => Hx) Hinit it Hit) as Hd.
  destruct (Nat.eq_dec (idist it) 1) as [E1|N1].
  - rewrite E1. replace (k' + 1 - 1) with k' by lia. replace (k + 1 - 1) with k by lia. exact Hcur.
  - rewrite (Hchk it Hit) by lia. apply Hpre. lia.
Qed.

(* with the threshold found in the source *)
Corollary cache_sound_src fuel pl pl' k k' a R :
  build fuel pl k a = Some R -> (forall j, j <= k -> pl' j = pl j) -> pl' k' = pl k ->
  cache_check (Z.to_nat cache_thr) pl' k k' R -> build fuel pl' k' a = Some R.
Proof. apply cache_sound. pose proof cache_thr_ok. lia. Qed.

End C.

(* the test as the source writes it: the places are the expressions regenerated from check_cached_transition_set,
   and the place the model's completer looks at is the expression regenerated from build_new_set *)
Lemma source_places_are_the_models : forall (k k' d : nat), d <= k + 1 -> d <= k' + 1 ->
  Z.to_nat (cache_index_now (Z.of_nat k') (Z.of_nat k) (Z.of_nat d)) = k' + 1 - d /\
  Z.to_nat (cache_index_then (Z.of_nat k') (Z.of_nat k) (Z.of_nat d)) = k + 1 - d /\
  Z.to_nat (completion_place (Z.of_nat k) (Z.of_nat d)) = k + 1 - d.
Proof.
  intros k k' d H1 H2. destruct (cache_indexes_ok (Z.of_nat k') (Z.of_nat k) (Z.of_nat d)) as (A & B & _).
  destruct (cache_indexes_ok (Z.of_nat k) 0 (Z.of_nat d)) as (_ & _ & C). rewrite A, B, C. repeat split; lia.
Qed.

(* L : L x | x  (situations 0: L -> . L x, 1: L -> L . x, 2: L -> L x ., 3: L -> . x, 4: L -> x .; symbols x = 0, L = 1):
   the set after the second x is built from the sets at places 1 and 0 *)
Example cache_ex :
  let after := fun s => match s with 0 => Some 1 | 1 => Some 0 | 3 => Some 0 | _ => None end in
  let et := fun s => match s with 2 | 4 => true | _ => false end in
  let pl := fun j => match j with
                     | 0 => [{| isit := 0; idist := 0 |}; {| isit := 3; idist := 0 |}]
                     | 1 => [{| isit := 4; idist := 1 |}; {| isit := 1; idist := 1 |}]
                     | _ => [] end in
  build after S (fun _ => 1) et (fun _ => true) 10 pl 0 0 = Some [{| isit := 4; idist := 1 |}; {| isit := 1; idist := 1 |}] /\
  build after S (fun _ => 1) et (fun _ => true) 10 pl 1 0 = Some [{| isit := 2; idist := 2 |}; {| isit := 1; idist := 2 |}].
Proof. vm_compute. split; reflexivity. Qed.

(* ---------- why the list below the place of caching is unchanged ----------
   The parsing list changes in two ways: a set is appended (pl[++pl_curr] = new_set), or an error recovery replaces it by
   another list.  Every recovery is counted, an entry of the cache remembers the count at the time it was saved and is
   used only while the count is the same (fact cache_entries_carry_recovery_number of the source).  Then the list at
   the time of use extends the list at the time of saving: the second premise of [cache_sound]. *)
Section Epoch.
Variable A : Type.
Inductive plop := Push (s : A) | Recover (newpl : list A).
Definition plstep (st : list A * nat) (o : plop) : list A * nat :=
  match o with Push s => (fst st ++ [s], snd st) | Recover l' => (l', S (snd st)) end.

Lemma epoch_mono ops : forall st, snd st <= snd (fold_left plstep ops st).
Proof.
  induction ops as [|o ops IH]; intros st; simpl; [lia|].
  specialize (IH (plstep st o)). destruct o; simpl in *; lia.
Qed.

Theorem same_epoch_extends ops : forall st, snd (fold_left plstep ops st) = snd st ->
  exists ext, fst (fold_left plstep ops st) = fst st ++ ext.
Proof.
  induction ops as [|o ops IH]; intros st H; simpl in *.
  - exists []. now rewrite app_nil_r.
  - destruct o as [s|l'].
    + destruct (IH (fst st ++ [s], snd st) H) as (ext & E). exists (s :: ext).
      change (plstep st (Push s)) with (fst st ++ [s], snd st). rewrite E. simpl. now rewrite <- app_assoc.
    + change (plstep st (Recover l')) with (l', S (snd st)) in H.
      pose proof (epoch_mono ops (l', S (snd st))) as M. cbn [snd] in M. lia.
Qed.

Corollary same_epoch_unchanged_below ops st d j : snd (fold_left plstep ops st) = snd st -> j < length (fst st) ->
  nth j (fst (fold_left plstep ops st)) d = nth j (fst st) d.
Proof.
  intros H Hj. destruct (same_epoch_extends ops st H) as (ext & ->). now rewrite app_nth1.
Qed.
End Epoch.
