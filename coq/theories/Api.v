(* Api: grammar objects as the API documents them.  One object = settings,
   a definition (or none), the last error code.  A history over several
   objects acts on each object separately; the independence theorem says the
   results seen on one object are those of its own sub-history.  The setters'
   stored values and defaults come from Generated.v. *)
From YV Require Import Prelude Generated GeneratedChecks.
Local Open Scope Z_scope.

Record obj := { settings : list Z;            (* la, debug, one_parse, cost, recovery, match *)
                defined : option nat;         (* id of the current definition *)
                last_err : Z }.

Definition new_obj : obj := {| settings := defaults; defined := None; last_err := default_error_code |}.

Fixpoint replace_nth {A} (n : nat) (x : A) (l : list A) : list A :=
  match l, n with
  | [], _ => []
  | _ :: l', O => x :: l'
  | y :: l', S n' => y :: replace_nth n' x l'
  end.

Inductive op :=
| OSet (i : nat) (x : Z)                 (* i-th setter *)
| ODefine (gid : nat) (code : Z)         (* definition gid; code = what the definition functions return for it *)
| OParse (null_alloc_with_free : bool) (invalid_token : bool)
| OErrCode.

(* one call: new object state and the value returned *)
Definition step (o : obj) (p : op) : obj * Z :=
  match p with
  | OSet i x => ({| settings := replace_nth i (setter_store i x) (settings o); defined := defined o; last_err := last_err o |},
                 nth i (settings o) 0)
  | ODefine gid code =>
      if Z.eqb code 0 then ({| settings := settings o; defined := Some gid; last_err := last_err o |}, 0)
      else ({| settings := settings o; defined := None; last_err := code |}, code)
  | OParse na inv =>
      let rc := if na then YAEP_NO_MEMORY
                else match defined o with
                     | None => YAEP_UNDEFINED_OR_BAD_GRAMMAR
                     | Some _ => if inv then YAEP_INVALID_TOKEN_CODE else 0
                     end in
      ({| settings := settings o; defined := defined o; last_err := if Z.eqb rc 0 then last_err o else rc |}, rc)
  | OErrCode => (o, last_err o)
  end.

Fixpoint run (o : obj) (ps : list op) : obj * list Z :=
  match ps with
  | [] => (o, [])
  | p :: ps' => let '(o', r) := step o p in let '(o'', rs) := run o' ps' in (o'', r :: rs)
  end.

(* ---------- setters ---------- *)
Lemma nth_replace_nth_eq {A} n (x d : A) l : (n < length l)%nat -> nth n (replace_nth n x l) d = x.
Proof. revert n; induction l as [|y l IH]; intros [|n] H; simpl in *; try lia; auto. apply IH. lia. Qed.
Lemma nth_replace_nth_neq {A} n m (x d : A) l : n <> m -> nth m (replace_nth n x l) d = nth m l d.
Proof. revert n m; induction l as [|y l IH]; intros [|n] [|m] H; simpl; auto; try congruence. Qed.
Lemma length_replace_nth {A} n (x : A) l : length (replace_nth n x l) = length l.
Proof. revert n; induction l as [|y l IH]; intros [|n]; simpl; auto. Qed.

Theorem setter_contract o i x : (i < 6)%nat -> length (settings o) = 6%nat ->
  let '(o', r) := step o (OSet i x) in
  r = nth i (settings o) 0 /\                                   (* returns the previous value *)
  nth i (settings o') 0 = setter_store i x /\                    (* stores its argument (clamped for i = 0) *)
  (forall j, j <> i -> nth j (settings o') 0 = nth j (settings o) 0) /\
  defined o' = defined o /\ last_err o' = last_err o /\ length (settings o') = 6%nat.
Proof.
  intros Hi Hl. cbn [step settings defined last_err]. repeat split; auto.
  - apply nth_replace_nth_eq. lia.
  - intros j Hj. apply nth_replace_nth_neq. congruence.
  - now rewrite length_replace_nth.
Qed.

Theorem lookahead_clamped o x : nth 0%nat (settings (fst (step o (OSet 0 x)))) 0 = Z.max 0 (Z.min 2 x) \/ settings o = [].
Proof.
  destruct (settings o) as [|y l] eqn:E; [now right|left].
  cbn [step fst settings]. rewrite E. simpl. apply clamp_ok.
Qed.

Theorem new_object_contract :
  settings new_obj = [1; 0; 1; 0; 1; 3] /\ defined new_obj = None /\ last_err new_obj = 0.
Proof. unfold new_obj. destruct defaults_ok as (-> & _ & -> & _). auto. Qed.

(* ---------- error state ---------- *)
(* the last failing result among the calls (definitions and parses), or the initial code *)
Definition failing (p : op) (r : Z) : bool :=
  match p with ODefine _ _ | OParse _ _ => negb (Z.eqb r 0) | _ => false end.

Fixpoint last_failure (init : Z) (prs : list (op * Z)) : Z :=
  match prs with
  | [] => init
  | (p, r) :: rest => last_failure (if failing p r then r else init) rest
  end.

Lemma step_last_err o p : last_err (fst (step o p)) = if failing p (snd (step o p)) then snd (step o p) else last_err o.
Proof.
  destruct p as [i x|gid code|na inv|]; cbn [step fst snd failing]; auto.
  - destruct (Z.eqb code 0) eqn:E; cbn [fst snd last_err]; rewrite ?E; auto.
  - cbn [fst snd last_err]. destruct (Z.eqb _ 0); auto.
Qed.

Lemma run_cons o p ps : run o (p :: ps) =
  let '(o', r) := step o p in let '(o'', rs) := run o' ps in (o'', r :: rs).
Proof. reflexivity. Qed.

Theorem error_state_contract ps : forall o,
  let '(o', rs) := run o ps in
  length rs = length ps /\ last_err o' = last_failure (last_err o) (combine ps rs).
Proof.
  induction ps as [|p ps IH]; intros o.
  - simpl. auto.
  - rewrite run_cons. destruct (step o p) as [o1 r] eqn:E.
    specialize (IH o1). destruct (run o1 ps) as [o2 rs]. destruct IH as [IH1 IH2].
    split; [simpl; lia|]. simpl. rewrite IH2. f_equal.
    pose proof (step_last_err o p) as H. rewrite E in H. exact H.
Qed.

(* ---------- several objects ---------- *)
Definition objs := list (nat * obj).
Fixpoint get (os : objs) (k : nat) : obj :=
  match os with [] => new_obj | (k', o) :: r => if Nat.eqb k k' then o else get r k end.
Definition put (os : objs) (k : nat) (o : obj) : objs := (k, o) :: os.

Definition mstep (os : objs) (kp : nat * op) : objs * Z :=
  let '(k, p) := kp in let '(o', r) := step (get os k) p in (put os k o', r).

Fixpoint mrun (os : objs) (kps : list (nat * op)) : objs * list Z :=
  match kps with
  | [] => (os, [])
  | kp :: rest => let '(os', r) := mstep os kp in let '(os'', rs) := mrun os' rest in (os'', r :: rs)
  end.

(* the results of the calls on object k, in order *)
Fixpoint project (k : nat) (kps : list (nat * op)) (rs : list Z) : list op * list Z :=
  match kps, rs with
  | (k', p) :: kps', r :: rs' =>
      let '(ps, out) := project k kps' rs' in
      if Nat.eqb k k' then (p :: ps, r :: out) else (ps, out)
  | _, _ => ([], [])
  end.

Lemma get_put os k k' o : get (put os k' o) k = if Nat.eqb k k' then o else get os k.
Proof. reflexivity. Qed.

(* Independence: what the history returns on object k is what k's own calls return on it alone. *)
Theorem objects_independent kps : forall os k,
  let '(os', rs) := mrun os kps in
  let '(ps, out) := project k kps rs in
  run (get os k) ps = (get os' k, out).
Proof.
  induction kps as [|[k' p] kps IH]; intros os k; cbn [mrun].
  - cbn [project]. reflexivity.
  - cbn [mstep]. destruct (step (get os k') p) as [o' r] eqn:E.
    specialize (IH (put os k' o') k). destruct (mrun (put os k' o') kps) as [os2 rs]. cbn [project].
    destruct (project k kps rs) as [ps out]. rewrite get_put in IH.
    destruct (Nat.eqb_spec k k') as [->|Hne].
    + rewrite run_cons, E, IH. reflexivity.
    + exact IH.
Qed.
