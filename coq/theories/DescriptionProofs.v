(* DescriptionProofs: the terminal post-processing of set_sgrammar.
   - a terminal described without a code gets the smallest code from the start
     value (regenerated from the source: 256) upwards that no terminal holds
     explicitly and that was not handed out before: implicit codes are free,
     strictly increasing in order of appearance, hence distinct from each other
     and from every explicit code; explicit codes are kept;
   - duplicate elimination keeps one entry per name, in order of first
     appearance, and fails only when one name comes with two different explicit
     codes (a repeated declaration with the same code, or without a code, is
     harmless). *)
From YV Require Import Prelude Generated Description.
Local Open Scope Z_scope.

Lemma NoDup_snoc' {A} (l : list A) x : NoDup l -> ~ In x l -> NoDup (l ++ [x]).
Proof.
  induction l as [|y l IH]; intros H Hx; simpl; [constructor; [intros [] | constructor]|].
  inversion H; subst. constructor.
  - intros Hin. apply in_app_or in Hin. destruct Hin as [Hin|[<-|[]]]; [contradiction | apply Hx; left; reflexivity].
  - apply IH; [assumption | intros Hin; apply Hx; right; exact Hin].
Qed.

Lemma Forall2_imp {A B} (R S : A -> B -> Prop) : (forall a b, R a b -> S a b) ->
  forall l l', Forall2 R l l' -> Forall2 S l l'.
Proof. intros H l l' F. induction F; constructor; auto. Qed.

Lemma Forall2_nth {A B} (R : A -> B -> Prop) l l' : Forall2 R l l' ->
  forall k a b, nth_error l k = Some a -> nth_error l' k = Some b -> R a b.
Proof.
  induction 1 as [|x y l l' H0 _ IH]; intros [|k] a b Ha Hb; try discriminate.
  - cbn in Ha, Hb. injection Ha as <-. injection Hb as <-. exact H0.
  - cbn in Ha, Hb. eapply IH; eauto.
Qed.

Definition above (c : Z) (used : list Z) : list Z := filter (fun u => c <=? u) used.

Lemma above_step c used : In c used -> (length (above (c + 1) used) < length (above c used))%nat.
Proof.
  unfold above. induction used as [|u used IH]; intros H; [destruct H|]. cbn [filter].
  destruct H as [->|H].
  - rewrite Z.leb_refl. destruct (Z.leb_spec (c + 1) c); [lia|]. cbn [length].
    assert (G : forall l, (length (filter (fun u => (c + 1 <=? u)%Z) l) <= length (filter (fun u => (c <=? u)%Z) l))%nat).
    { induction l as [|x l IHl]; cbn [filter]; [lia|]. destruct (Z.leb_spec (c + 1) x), (Z.leb_spec c x); cbn [length]; lia. }
    specialize (G used). lia.
  - specialize (IH H). destruct (Z.leb_spec (c + 1) u), (Z.leb_spec c u); cbn [length]; lia.
Qed.

Lemma next_free_spec : forall fuel used c, (length (above c used) < fuel)%nat ->
  c <= next_free fuel used c /\ ~ In (next_free fuel used c) used /\
  (forall x, c <= x < next_free fuel used c -> In x used).
Proof.
  induction fuel as [|f IH]; intros used c H; [lia|]. cbn [next_free].
  destruct (existsb (Z.eqb c) used) eqn:E.
  - apply existsb_exists in E. destruct E as (y & Hy & Ey). apply Z.eqb_eq in Ey. subst y.
    pose proof (above_step c used Hy) as L. destruct (IH used (c + 1)) as (A & B & C); [lia|].
    split; [lia|]. split; [exact B|]. intros x Hx. destruct (Z.eq_dec x c) as [->|N]; [exact Hy | apply C; lia].
  - split; [lia|]. split.
    + intros Hin. assert (X : existsb (Z.eqb c) used = true) by (apply existsb_exists; exists c; split; [exact Hin | apply Z.eqb_refl]). congruence.
    + intros x Hx. lia.
Qed.

Lemma above_le c used : (length (above c used) <= length used)%nat.
Proof. unfold above. induction used as [|u used IH]; cbn [filter length]; [lia|]. destruct (c <=? u); cbn [length]; lia. Qed.

(* the code the i-th terminal gets *)
Definition implicit (t : sterm) : bool := snd t <? 0.

Theorem assign_codes_spec : forall ts used next,
  let out := assign_codes used next ts in
  map fst out = map fst ts /\
  Forall2 (fun t o => if implicit t then next <= snd o /\ ~ In (snd o) used else snd o = snd t) ts out /\
  (* implicit codes strictly increase in order of appearance *)
  (forall i j ti tj oi oj, (i < j)%nat -> nth_error ts i = Some ti -> nth_error ts j = Some tj ->
     nth_error out i = Some oi -> nth_error out j = Some oj -> implicit ti = true -> implicit tj = true -> snd oi < snd oj).
Proof.
  induction ts as [|[nm c] ts IH]; intros used next out.
  - split; [reflexivity|]. split; [constructor|]. intros i j ti tj oi oj _ H. destruct i; discriminate.
  - subst out. cbn [assign_codes]. destruct (c <? 0) eqn:E.
    + set (c' := next_free (S (length used)) used next).
      destruct (next_free_spec (S (length used)) used next) as (A & B & _); [pose proof (above_le next used); lia|]. fold c' in A, B.
      destruct (IH used (c' + 1)) as (M & F & I). cbn [map fst]. split; [f_equal; exact M|]. split.
      * constructor; [unfold implicit; cbn [snd]; rewrite E; split; assumption|].
        refine (Forall2_imp _ _ _ _ _ F). intros t o H. destruct (implicit t); [destruct H; split; [lia | assumption] | exact H].
      * intros i j ti tj oi oj Hij Hi Hj Hoi Hoj Ii Ij. destruct j as [|j]; [lia|]. destruct i as [|i].
        -- cbn [nth_error] in Hi, Hoi, Hj, Hoj. injection Hoi as <-. cbn [snd].
           assert (G : forall k t o, nth_error ts k = Some t -> nth_error (assign_codes used (c' + 1) ts) k = Some o -> implicit t = true -> c' + 1 <= snd o).
           { intros k t o Ht Ho It. pose proof (Forall2_nth _ _ _ F k t o Ht Ho) as X. cbv beta in X. rewrite It in X. tauto. }
           specialize (G j tj oj Hj Hoj Ij). lia.
        -- cbn [nth_error] in Hi, Hoi, Hj, Hoj. eapply (I i j); eauto. lia.
    + destruct (IH used next) as (M & F & I). cbn [map fst]. split; [f_equal; exact M|]. split.
      * constructor; [unfold implicit; cbn [snd]; rewrite E; reflexivity | exact F].
      * intros i j ti tj oi oj Hij Hi Hj Hoi Hoj Ii Ij. destruct j as [|j]; [lia|]. destruct i as [|i].
        -- cbn [nth_error] in Hi. injection Hi as <-. unfold implicit in Ii. cbn [snd] in Ii. congruence.
        -- cbn [nth_error] in Hi, Hoi, Hj, Hoj. eapply (I i j); eauto. lia.
Qed.

(* the codes of a description's terminals are distinct as soon as the explicit ones are *)
Corollary implicit_codes_fresh ts next :
  let used := flat_map (fun t => if (snd t <? 0)%Z then [] else [snd t]) ts in
  let out := assign_codes used next ts in
  forall i ti oi, nth_error ts i = Some ti -> nth_error out i = Some oi -> implicit ti = true ->
  next <= snd oi /\
  (forall j tj oj, j <> i -> nth_error ts j = Some tj -> nth_error out j = Some oj -> snd oj <> snd oi).
Proof.
  intros used out i ti oi Hi Hoi Ii. destruct (assign_codes_spec ts used next) as (M & F & I). fold out in M, F, I.
  assert (G : forall k t o, nth_error ts k = Some t -> nth_error out k = Some o ->
              if implicit t then next <= snd o /\ ~ In (snd o) used else snd o = snd t).
  { intros k t o Ht Ho. exact (Forall2_nth _ _ _ F k t o Ht Ho). }
  pose proof (G i ti oi Hi Hoi) as Gi. rewrite Ii in Gi. destruct Gi as [Gn Gu]. split; [exact Gn|].
  intros j tj oj Hne Hj Hoj E. pose proof (G j tj oj Hj Hoj) as Gj. destruct (implicit tj) eqn:Ij.
  - destruct (Nat.lt_trichotomy i j) as [L|[L|L]]; [|congruence|].
    + pose proof (I i j ti tj oi oj L Hi Hj Hoi Hoj Ii Ij). lia.
    + pose proof (I j i tj ti oj oi L Hj Hi Hoj Hoi Ij Ii). lia.
  - apply Gu. rewrite <- E, Gj. unfold used. apply in_flat_map. exists tj. split; [eapply nth_error_In; eauto|].
    unfold implicit in Ij. rewrite Ij. left. reflexivity.
Qed.

(* ----- duplicate elimination ----- *)
Lemma set_code_names nm c seen : map fst (set_code nm c seen) = map fst seen.
Proof. unfold set_code. rewrite map_map. apply map_ext. intros [n0 c0]. cbn [fst]. destruct (bytes_eqb n0 nm); reflexivity. Qed.

Lemma dedupe_names : forall ts seen out, dedupe_terms seen ts = Some out ->
  NoDup (map fst seen) -> NoDup (map fst out) /\ (exists more, map fst out = map fst seen ++ more) /\
  (forall nm, In nm (map fst out) <-> In nm (map fst seen) \/ In nm (map fst ts)).
Proof.
  induction ts as [|[nm c] ts IH]; intros seen out H ND; cbn [dedupe_terms] in H.
  - injection H as <-. split; [exact ND|]. split; [exists []; rewrite app_nil_r; reflexivity|]. intros x. simpl. tauto.
  - destruct (find (fun p => bytes_eqb (fst p) nm) seen) as [[n0 c0]|] eqn:F.
    + apply find_some in F. destruct F as [Fin Feq]. cbn [fst] in Feq. apply bytes_eqb_spec in Feq. subst n0.
      assert (Hin : In nm (map fst seen)) by (apply in_map_iff; exists (nm, c0); auto).
      destruct (negb (c =? -1) && negb (c0 =? -1) && negb (c =? c0))%bool; [discriminate|].
      destruct (c0 =? -1).
      * destruct (IH (set_code nm c seen) out H) as (A & (more & B) & C); [rewrite set_code_names; exact ND|].
        rewrite set_code_names in B, C. split; [exact A|]. split; [exists more; exact B|].
        intros x. rewrite C. cbn [map fst]. split; [intros [X|X]; auto; right; right; exact X|].
        intros [X|[<-|X]]; auto.
      * destruct (IH seen out H ND) as (A & B & C). split; [exact A|]. split; [exact B|].
        intros x. rewrite C. cbn [map fst]. split; [intros [X|X]; auto; right; right; exact X|].
        intros [X|[<-|X]]; auto.
    + assert (Hn : ~ In nm (map fst seen)).
      { intros Hin. apply in_map_iff in Hin. destruct Hin as ([n1 c1] & E1 & Hin). cbn [fst] in E1. subst n1.
        pose proof (find_none _ _ F (nm, c1) Hin) as X. cbn [fst] in X.
        assert (Y : bytes_eqb nm nm = true) by (apply bytes_eqb_spec; reflexivity). congruence. }
      destruct (IH (seen ++ [(nm, c)]) out H) as (A & (more & B) & C).
      { rewrite map_app. cbn [map fst]. apply NoDup_snoc'; assumption. }
      split; [exact A|]. split; [exists (nm :: more); rewrite B, map_app, <- app_assoc; reflexivity|].
      intros x. rewrite C, map_app, in_app_iff. cbn [map fst In]. tauto.
Qed.

(* a terminal described with an explicit code somewhere keeps that code: the entry of a name never loses an explicit code *)
Lemma dedupe_keeps_explicit : forall ts seen out nm c, dedupe_terms seen ts = Some out ->
  In (nm, c) seen -> c <> (-1) -> NoDup (map fst seen) -> In (nm, c) out.
Proof.
  induction ts as [|[n1 c1] ts IH]; intros seen out nm c H Hin Hc ND; cbn [dedupe_terms] in H.
  - injection H as <-. exact Hin.
  - destruct (find (fun p => bytes_eqb (fst p) n1) seen) as [[n0 c0]|] eqn:F.
    + destruct (negb (c1 =? -1) && negb (c0 =? -1) && negb (c1 =? c0))%bool; [discriminate|].
      destruct (c0 =? -1) eqn:E0.
      * apply (IH _ _ _ _ H); auto; [|rewrite set_code_names; exact ND].
        apply find_some in F. destruct F as [Fin Feq]. cbn [fst] in Feq. apply bytes_eqb_spec in Feq. subst n0.
        apply Z.eqb_eq in E0. subst c0. unfold set_code. apply in_map_iff. exists (nm, c). split; [|exact Hin]. cbn [fst].
        destruct (bytes_eqb nm n1) eqn:B; [|reflexivity]. apply bytes_eqb_spec in B. subst n1. exfalso.
        (* nm is in seen with c and with -1: contradiction with NoDup names *)
        assert (X : forall l, NoDup (map fst l) -> In (nm, c) l -> In (nm, (-1)%Z) l -> c = (-1)%Z).
        { clear. induction l as [|[a b] l IHl]; intros ND H1 H2; [destruct H1|]. cbn [map fst] in ND. inversion ND as [|? ? Hn ND']; subst.
          destruct H1 as [H1|H1], H2 as [H2|H2].
          - congruence.
          - injection H1 as -> ->. exfalso. apply Hn. apply in_map_iff. exists (nm, (-1)%Z). auto.
          - injection H2 as -> ->. exfalso. apply Hn. apply in_map_iff. exists (nm, c). auto.
          - apply IHl; auto. }
        apply Hc. apply (X seen ND Hin Fin).
      * apply (IH _ _ _ _ H); auto.
    + apply (IH _ _ _ _ H); auto; [apply in_or_app; left; exact Hin|].
      rewrite map_app. cbn [map fst]. apply NoDup_snoc'; [exact ND|].
      intros Hin'. apply in_map_iff in Hin'. destruct Hin' as ([n2 c2] & E2 & Hin2). cbn [fst] in E2. subst n2.
      pose proof (find_none _ _ F (n1, c2) Hin2) as X. cbn [fst] in X.
      assert (Y : bytes_eqb n1 n1 = true) by (apply bytes_eqb_spec; reflexivity). congruence.
Qed.
