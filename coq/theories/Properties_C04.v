(* C04 - minimal cost translations; cost fields add up. *)
From YV Require Import Prelude EarleySpec Recognizer Translate Dag.

Theorem C04_fields_decider : forall t t', uncum t = Some t' -> cum t' = t /\ tcost t' = field t.
Proof. exact uncum_spec. Qed.
Print Assumptions C04_fields_decider.

Theorem C04_enumerator_exact : forall fuel g codes t_err start w L,
  all_translations fuel g codes t_err start w = Some L ->
  forall t, In t L <-> translation g codes t_err start w t.
Proof. exact all_translations_spec. Qed.
Print Assumptions C04_enumerator_exact.

Theorem C04_denotation_exact : forall st root L,
  denote st root = Some L -> forall t, In t L <-> denotes st root t.
Proof. exact denote_spec. Qed.
Print Assumptions C04_denotation_exact.
