(* C04 - minimal cost translations; cost fields add up. *)
From YV Require Import Prelude EarleySpec Recognizer Translate Dag Prune.

Theorem C04_fields_decider : forall t t', uncum t = Some t' -> cum t' = t /\ tcost t' = field t.
Proof. exact uncum_spec. Qed.
Print Assumptions C04_fields_decider.

Theorem C04_enumerator_exact : forall fuel g codes t_err start w L,
  all_translations fuel g codes t_err start w = Some L ->
  forall t, In t L <-> translation g codes t_err start w t.
Proof. exact all_translations_spec. Qed.
Print Assumptions C04_enumerator_exact.

Theorem C04_denotation_exact : forall st root L,
  denote st root = Some L -> forall t, In t L <-> denotes st root t.
Proof. exact denote_spec. Qed.
Print Assumptions C04_denotation_exact.

(* minimal cost pruning (prune_to_minimal): the cost handed back is the least cost of a denoted tree *)
Theorem C04_least_cost : forall st (one : bool) F root m, mc st F root = Some m ->
  (exists t, denotes st root t /\ tcost t = m) /\ (forall t, denotes st root t -> (m <= tcost t)%Z).
Proof. exact mc_is_minimum. Qed.
Print Assumptions C04_least_cost.

(* all parses: keeping, in every list of alternatives, those of least cost leaves exactly the denoted trees of least cost *)
Theorem C04_pruning_exact : forall st F root m, mc st F root = Some m ->
  forall t, denotes (pst st false F) root t <-> (denotes st root t /\ tcost t = m).
Proof. intros st F root m. exact (prune_exact st false F root m eq_refl). Qed.
Print Assumptions C04_pruning_exact.

(* one parse: keeping the first alternative of least cost leaves exactly one tree, of least cost *)
Theorem C04_pruning_one_parse : forall st F root m, mc st F root = Some m ->
  exists t, (forall t', denotes (pst st true F) root t' <-> t' = t) /\ denotes st root t /\ tcost t = m.
Proof. intros st F root m. exact (prune_one st true F root m eq_refl). Qed.
Print Assumptions C04_pruning_one_parse.

(* the cumulative cost field of a node is the cost of every tree the pruned node denotes, and it is the node's own cost
   plus the fields of its children *)
Theorem C04_field_is_cost : forall st (one : bool) F id m t, mc st F id = Some m -> denotes (pst st one F) id t -> tcost t = m.
Proof. exact field_is_cost. Qed.
Print Assumptions C04_field_is_cost.

Theorem C04_field_adds_up : forall st id nm c kids f, nth_error st id = Some (DAnode nm c kids) ->
  forall m, mc st (S f) id = Some m -> exists ms, Forall2 (fun k mk => mc st f k = Some mk) kids ms /\ m = (c + zsum ms)%Z.
Proof. exact field_adds_up. Qed.
Print Assumptions C04_field_adds_up.

(* the executable form the correspondence check runs on the implementation's unpruned DAG *)
Theorem C04_pruned_denotation_all : forall st root m L, prune_denote st false root = Some (m, L) ->
  (forall t, In t L <-> (denotes st root t /\ tcost t = m)) /\
  (forall t, denotes st root t -> (m <= tcost t)%Z) /\ (exists t, In t L).
Proof. exact prune_denote_all. Qed.
Print Assumptions C04_pruned_denotation_all.

Theorem C04_pruned_denotation_one : forall st root m L, prune_denote st true root = Some (m, L) ->
  exists t, (forall t', In t' L <-> t' = t) /\ denotes st root t /\ tcost t = m /\
            (forall t', denotes st root t' -> (m <= tcost t')%Z).
Proof. exact prune_denote_one. Qed.
Print Assumptions C04_pruned_denotation_one.
