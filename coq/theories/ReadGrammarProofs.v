(* ReadGrammarProofs: the model of yaep_read_grammar returns 0 exactly when no
   documented defect is present, and a nonzero code names a defect that is
   present - for all terminal lists, rule lists and both strictness values. *)
From YV Require Import Prelude Generated ReadGrammar.
Local Open Scope Z_scope.

(* ---------- repeats <-> ~NoDup ---------- *)
Section Rep.
  Context {A : Type} (eqb : A -> A -> bool).
  Hypothesis eqb_spec : forall x y, eqb x y = true <-> x = y.

  Let go := fix go (seen l : list A) : bool :=
     match l with [] => false | x :: l' => existsb (eqb x) seen || go (x :: seen) l' end.

  Lemma existsb_eqb_In x l : existsb (eqb x) l = true <-> In x l.
  Proof.
    rewrite existsb_exists. split.
    - intros (y & Hy & E). apply eqb_spec in E. now subst.
    - intros H. exists x. split; auto. now apply eqb_spec.
  Qed.

  Lemma go_false seen l : go seen l = false <-> NoDup l /\ forall x, In x l -> ~ In x seen.
  Proof.
    revert seen; induction l as [|x l IH]; intros seen; simpl.
    - split; [intros _; split; [constructor | intros x []] | auto].
    - rewrite orb_false_iff, IH. split.
      + intros (H1 & H2 & H3). split.
        * constructor; auto. intros Hin. apply (H3 x Hin). now left.
        * intros y [<-|Hy].
          -- intros Hin. apply existsb_eqb_In in Hin. congruence.
          -- intros Hin. apply (H3 y Hy). now right.
      + intros (Hnd & Hf). inversion Hnd as [|? ? Hx Hl]; subst. split; [|split; auto].
        * destruct (existsb (eqb x) seen) eqn:E; auto. apply existsb_eqb_In in E. exfalso. apply (Hf x); simpl; auto.
        * intros y Hy [<-|Hin]; [contradiction|]. apply (Hf y); simpl; auto.
  Qed.

  Lemma repeats_false l : repeats eqb l = false <-> NoDup l.
  Proof. unfold repeats. fold go. rewrite go_false. split; [tauto|]. intros H; split; auto. Qed.
End Rep.

Lemma NoDup_snoc {A} (l : list A) x : NoDup (l ++ [x]) <-> NoDup l /\ ~ In x l.
Proof.
  split.
  - intros H. split.
    + now apply NoDup_remove_1 in H; rewrite app_nil_r in H.
    + apply NoDup_remove_2 in H. now rewrite app_nil_r in H.
  - intros [H1 H2]. rewrite <- (rev_involutive (l ++ [x])). apply NoDup_rev. rewrite rev_app_distr. simpl.
    constructor; [now rewrite <- in_rev | now apply NoDup_rev].
Qed.

Lemma existsb_fst (n : nat) (seen : list (nat * Z)) : existsb (fun p => Nat.eqb (fst p) n) seen = true <-> In n (map fst seen).
Proof.
  rewrite existsb_exists, in_map_iff. split.
  - intros (p & Hp & E). apply Nat.eqb_eq in E. eauto.
  - intros (p & E & Hp). exists p. split; auto. now apply Nat.eqb_eq.
Qed.
Lemma existsb_snd (c : Z) (seen : list (nat * Z)) : existsb (fun p => Z.eqb (snd p) c) seen = true <-> In c (map snd seen).
Proof.
  rewrite existsb_exists, in_map_iff. split.
  - intros (p & Hp & E). apply Z.eqb_eq in E. eauto.
  - intros (p & E & Hp). exists p. split; auto. now apply Z.eqb_eq.
Qed.

(* ---------- terminals ---------- *)
Lemma terms_check_ok ts : forall seen, NoDup (map fst seen) -> NoDup (map snd seen) ->
  (terms_check seen ts = 0 <->
     Forall (fun p => 0 <= snd p) ts /\ NoDup (map fst (seen ++ ts)) /\ NoDup (map snd (seen ++ ts))).
Proof.
  induction ts as [|[n c] ts IH]; intros seen Hn Hc; simpl.
  - rewrite app_nil_r. split; [intros _; repeat split; auto | reflexivity].
  - destruct (Z.ltb_spec c 0) as [Hneg|Hpos].
    + split; [discriminate|]. intros (Hf & _). inversion Hf; subst. simpl in *. lia.
    + destruct (existsb (fun p => Nat.eqb (fst p) n) seen) eqn:E1.
      * split; [discriminate|]. intros (_ & Hnd & _). apply existsb_fst in E1.
        rewrite map_app in Hnd. simpl in Hnd. apply NoDup_remove_2 in Hnd. exfalso. apply Hnd. apply in_or_app. now left.
      * destruct (existsb (fun p => Z.eqb (snd p) c) seen) eqn:E2.
        -- split; [discriminate|]. intros (_ & _ & Hnd). apply existsb_snd in E2.
           rewrite map_app in Hnd. simpl in Hnd. apply NoDup_remove_2 in Hnd. exfalso. apply Hnd. apply in_or_app. now left.
        -- assert (F1 : ~ In n (map fst seen)) by (intros H; apply existsb_fst in H; congruence).
           assert (F2 : ~ In c (map snd seen)) by (intros H; apply existsb_snd in H; congruence).
           rewrite IH.
           ++ rewrite <- app_assoc. simpl. split.
              ** intros (A & B & C). split; auto.
              ** intros (A & B & C). inversion A; subst. auto.
           ++ rewrite map_app. simpl. apply NoDup_snoc; auto.
           ++ rewrite map_app. simpl. apply NoDup_snoc; auto.
Qed.

Lemma terms_check_bad ts : forall seen c, terms_check seen ts = c -> c <> 0 ->
  (c = 6 /\ Exists (fun p => snd p < 0) ts) \/
  (c = 5 /\ ~ NoDup (map fst (seen ++ ts))) \/
  (c = 7 /\ ~ NoDup (map snd (seen ++ ts))).
Proof.
  induction ts as [|[n k] ts IH]; intros seen c H Hc; simpl in H; [congruence|].
  destruct (Z.ltb_spec k 0) as [Hneg|Hpos].
  - left. split; [congruence|]. now constructor.
  - destruct (existsb (fun p => Nat.eqb (fst p) n) seen) eqn:E1.
    + right; left. split; [congruence|]. apply existsb_fst in E1. intros Hnd.
      rewrite map_app in Hnd. simpl in Hnd. apply NoDup_remove_2 in Hnd. apply Hnd. apply in_or_app. now left.
    + destruct (existsb (fun p => Z.eqb (snd p) k) seen) eqn:E2.
      * right; right. split; [congruence|]. apply existsb_snd in E2. intros Hnd.
        rewrite map_app in Hnd. simpl in Hnd. apply NoDup_remove_2 in Hnd. apply Hnd. apply in_or_app. now left.
      * destruct (IH _ _ H Hc) as [(A & B)|[(A & B)|(A & B)]].
        -- left. split; auto.
        -- right; left. split; auto. now rewrite <- app_assoc in B.
        -- right; right. split; auto. now rewrite <- app_assoc in B.
Qed.

(* ---------- translation lists ---------- *)
Lemma transl_check_codes n tr : forall seen, let c := transl_check n seen tr in c = 0 \/ c = 12 \/ c = 13.
Proof.
  induction tr as [|el tr IH]; intros seen; simpl; auto.
  destruct (n <=? el); [destruct (Z.eqb el NIL_NUM); auto|]. destruct (existsb _ seen); auto.
Qed.

Definition in_range (n el : Z) : bool := el <? n.

Lemma transl_check_ok n tr : forall seen,
  transl_check n seen tr = 0 <->
    (forall el, In el tr -> n <= el -> el = NIL_NUM) /\
    NoDup (filter (in_range n) tr) /\ (forall el, In el (filter (in_range n) tr) -> ~ In el seen).
Proof.
  induction tr as [|el tr IH]; intros seen; simpl.
  - split; auto. intros _. repeat split; auto; try constructor; intros ? [].
  - destruct (Z.leb_spec n el) as [Hge|Hlt].
    + assert (R : in_range n el = false) by (apply Z.ltb_ge; lia). rewrite R.
      destruct (Z.eqb_spec el NIL_NUM) as [E|E].
      * rewrite IH. split.
        -- intros (A & B & C). split; auto. intros e [<-|He]; auto.
        -- intros (A & B & C). split; auto.
      * split; [discriminate|]. intros (A & _). exfalso. apply E. apply A; auto.
    + assert (R : in_range n el = true) by (apply Z.ltb_lt; lia). rewrite R.
      destruct (existsb (Z.eqb el) seen) eqn:E.
      * split; [discriminate|]. intros (_ & _ & C). apply (existsb_eqb_In Z.eqb Z.eqb_eq) in E.
        exfalso. apply (C el); simpl; auto.
      * assert (F : ~ In el seen) by (intros Hin; apply (existsb_eqb_In Z.eqb Z.eqb_eq) in Hin; congruence).
        rewrite IH. split.
        -- intros (A & B & C). split; [|split].
           ++ intros e [<-|He] Hn; [lia | auto].
           ++ constructor; auto. intros Hin. apply (C el Hin). now left.
           ++ intros e [<-|He]; auto. intros Hin. apply (C e He). now right.
        -- intros (A & B & C). inversion B as [|? ? Hx Hl]; subst. split; [|split]; auto.
           intros e He [<-|Hin]; [contradiction|]. apply (C e); simpl; auto.
Qed.

Lemma transl_check_bad n tr : forall seen c, transl_check n seen tr = c -> c <> 0 ->
  (c = 12 /\ exists el, In el tr /\ n <= el /\ el <> NIL_NUM) \/
  (c = 13 /\ ~ (NoDup (filter (in_range n) tr) /\ forall el, In el (filter (in_range n) tr) -> ~ In el seen)).
Proof.
  induction tr as [|el tr IH]; intros seen c H Hc; simpl in H; [congruence|].
  destruct (Z.leb_spec n el) as [Hge|Hlt].
  - assert (R : in_range n el = false) by (apply Z.ltb_ge; lia).
    destruct (Z.eqb_spec el NIL_NUM) as [E|E].
    + destruct (IH _ _ H Hc) as [(A & e & He & B)|(A & B)].
      * left. split; auto. exists e. simpl; auto.
      * right. split; auto. simpl. rewrite R. exact B.
    + left. split; [congruence|]. exists el. simpl; auto.
  - assert (R : in_range n el = true) by (apply Z.ltb_lt; lia).
    destruct (existsb (Z.eqb el) seen) eqn:E.
    + right. split; [congruence|]. apply (existsb_eqb_In Z.eqb Z.eqb_eq) in E. intros (_ & C).
      apply (C el); auto. simpl. rewrite R. now left.
    + destruct (IH _ _ H Hc) as [(A & e & He & B)|(A & B)].
      * left. split; auto. exists e. simpl; auto.
      * right. split; auto. simpl. rewrite R.
        intros (N & C). apply B. inversion N as [|? ? Hx Hl]; subst. split; auto.
        intros e He [<-|Hin]; [contradiction|]. apply (C e); simpl; auto.
Qed.

Section P.
Variable strict : bool.
Variable terms : list (nat * Z).
Variable rules : list rrule.

Notation declared := (is_declared_term terms).

Definition d9 (r : rrule) : bool := is_term terms (r_lhs r).
Definition d4 (r : rrule) : bool := Nat.eqb (r_lhs r) n_axiom || Nat.eqb (r_lhs r) n_eof || reserved_in_rhs r.
Definition d10 (r : rrule) : bool := negb (r_anode r) && two_translated (r_transl r).
Definition d11 (r : rrule) : bool := r_anode r && (r_cost r <? 0).

Lemma range_filter (r : rrule) :
  filter (fun el => el <? Z.of_nat (length (r_rhs r))) (r_transl r) = filter (in_range (Z.of_nat (length (r_rhs r)))) (r_transl r).
Proof. reflexivity. Qed.

Lemma d12_spec r : transl_out_of_range r = true <->
  exists el, In el (r_transl r) /\ Z.of_nat (length (r_rhs r)) <= el /\ el <> NIL_NUM.
Proof.
  unfold transl_out_of_range. rewrite existsb_exists. split.
  - intros (el & He & H). apply andb_true_iff in H. destruct H as [H1 H2]. exists el. split; auto.
    apply Z.leb_le in H1. apply negb_true_iff in H2. apply Z.eqb_neq in H2. auto.
  - intros (el & He & H1 & H2). exists el. split; auto. apply andb_true_iff. split; [now apply Z.leb_le|].
    apply negb_true_iff. now apply Z.eqb_neq.
Qed.

Lemma d13_spec r : transl_repeated r = false <-> NoDup (filter (in_range (Z.of_nat (length (r_rhs r)))) (r_transl r)).
Proof. unfold transl_repeated. rewrite range_filter. apply repeats_false. apply Z.eqb_eq. Qed.

(* a rule that passes has none of the per-rule defects *)
Lemma rule_check_ok first r : rule_check terms first r = 0 ->
  d9 r = false /\ d4 r = false /\ d10 r = false /\ d11 r = false /\
  transl_out_of_range r = false /\ transl_repeated r = false /\
  (first = true -> declared n_axiom = false /\ declared n_eof = false).
Proof.
  unfold rule_check, d9, d4, d10, d11, is_term.
  destruct (declared (r_lhs r)) eqn:E1; simpl; [discriminate|].
  destruct (Nat.eqb (r_lhs r) n_error) eqn:E2; simpl; [discriminate|].
  destruct first; simpl.
  - destruct (negb (r_anode r) && two_translated (r_transl r)) eqn:E3; [discriminate|].
    destruct (r_anode r && (r_cost r <? 0)) eqn:E4; [discriminate|].
    destruct (declared n_axiom) eqn:E5; simpl; [discriminate|].
    destruct (Nat.eqb (r_lhs r) n_axiom) eqn:E6; simpl; [discriminate|].
    destruct (declared n_eof) eqn:E7; simpl; [discriminate|].
    destruct (Nat.eqb (r_lhs r) n_eof) eqn:E8; simpl; [discriminate|].
    destruct (reserved_in_rhs r) eqn:E9; [discriminate|].
    intros H. apply transl_check_ok in H. destruct H as (A & B & _).
    repeat split; auto.
    + destruct (transl_out_of_range r) eqn:E; auto. apply d12_spec in E. destruct E as (el & He & H1 & H2). exfalso. auto.
    + now apply d13_spec.
  - destruct (Nat.eqb (r_lhs r) n_eof) eqn:E8; simpl; [discriminate|].
    destruct (Nat.eqb (r_lhs r) n_axiom) eqn:E6; simpl; [discriminate|].
    destruct (negb (r_anode r) && two_translated (r_transl r)) eqn:E3; [discriminate|].
    destruct (r_anode r && (r_cost r <? 0)) eqn:E4; [discriminate|].
    destruct (reserved_in_rhs r) eqn:E9; [discriminate|].
    intros H. apply transl_check_ok in H. destruct H as (A & B & _).
    repeat split; auto; try discriminate.
    + destruct (transl_out_of_range r) eqn:E; auto. apply d12_spec in E. destruct E as (el & He & H1 & H2). exfalso. auto.
    + now apply d13_spec.
Qed.

(* a rule without per-rule defects passes (given the global conditions the first rule checks) *)
Lemma rule_check_pass first r :
  d9 r = false -> d4 r = false -> d10 r = false -> d11 r = false ->
  transl_out_of_range r = false -> transl_repeated r = false ->
  declared n_axiom = false -> declared n_eof = false ->
  rule_check terms first r = 0.
Proof.
  unfold rule_check, d9, d4, d10, d11, is_term. intros H9 H4 H10 H11 H12 H13 Ha He.
  apply orb_false_iff in H9. destruct H9 as [H9 H9c]. apply orb_false_iff in H9. destruct H9 as [H9a H9b].
  apply orb_false_iff in H4. destruct H4 as [H4 H4c]. apply orb_false_iff in H4. destruct H4 as [H4a H4b].
  destruct first; simpl;
    rewrite ?H9a, ?H9b, ?H9c, ?H4a, ?H4b, ?H4c, ?H10, ?H11, ?Ha, ?He; simpl;
    rewrite ?H9a, ?H9b, ?H9c, ?H4a, ?H4b, ?H4c, ?H10, ?H11, ?Ha, ?He; simpl;
  (apply transl_check_ok; split; [|split];
  [ intros el Hel Hge; destruct (Z.eq_dec el NIL_NUM); auto;
    assert (transl_out_of_range r = true) by (apply d12_spec; eauto); congruence
  | now apply d13_spec
  | intros el _ [] ]).
Qed.

(* a failing rule names one of its defects (or a reserved name declared as terminal) *)
Lemma rule_check_bad first r c : rule_check terms first r = c -> c <> 0 ->
  (c = 9 /\ d9 r = true) \/ (c = 4 /\ (d4 r = true \/ declared n_axiom = true \/ declared n_eof = true)) \/
  (c = 10 /\ d10 r = true) \/ (c = 11 /\ d11 r = true) \/
  (c = 12 /\ transl_out_of_range r = true) \/ (c = 13 /\ transl_repeated r = true).
Proof.
  unfold rule_check, d9, d4, d10, d11, is_term. intros H Hc.
  destruct (declared (r_lhs r)) eqn:E1; simpl in *; [left; split; [congruence | reflexivity]|].
  destruct (Nat.eqb (r_lhs r) n_error) eqn:E2; simpl in *; [left; split; [congruence | reflexivity]|].
  destruct (negb first && Nat.eqb (r_lhs r) n_eof) eqn:E3; simpl in *.
  { left. split; [congruence|]. apply andb_true_iff in E3. destruct E3 as [_ ->]. reflexivity. }
  destruct (negb first && Nat.eqb (r_lhs r) n_axiom) eqn:E4.
  { right; left. split; [congruence|]. left. apply andb_true_iff in E4. destruct E4 as [_ ->]. reflexivity. }
  destruct (negb (r_anode r) && two_translated (r_transl r)) eqn:E5; [right; right; left; split; [congruence | reflexivity]|].
  destruct (r_anode r && (r_cost r <? 0)) eqn:E6; [right; right; right; left; split; [congruence | reflexivity]|].
  destruct (first && (declared n_axiom || Nat.eqb (r_lhs r) n_axiom)) eqn:E7.
  { right; left. split; [congruence|]. apply andb_true_iff in E7. destruct E7 as [_ E7]. apply orb_true_iff in E7.
    destruct E7 as [E7|E7]; [right; left; exact E7 | left; rewrite E7; reflexivity]. }
  destruct (first && (declared n_eof || Nat.eqb (r_lhs r) n_eof)) eqn:E8.
  { right; left. split; [congruence|]. apply andb_true_iff in E8. destruct E8 as [_ E8]. apply orb_true_iff in E8.
    destruct E8 as [E8|E8]; [right; right; exact E8 | left; rewrite E8; now rewrite orb_true_r]. }
  destruct (reserved_in_rhs r) eqn:E9.
  { right; left. split; [congruence|]. left. now rewrite !orb_true_r. }
  destruct (transl_check_bad _ _ _ _ H Hc) as [(A & B)|(A & B)].
  - right; right; right; right; left. split; auto. now apply d12_spec.
  - right; right; right; right; right. split; auto. destruct (transl_repeated r) eqn:E; auto.
    apply d13_spec in E. exfalso. apply B. split; [exact E | intros el _ Hf; exact Hf].
Qed.

Lemma rules_check_ok rs : forall first, rules_check terms first rs = 0 ->
  (forall r, In r rs -> d9 r = false /\ d4 r = false /\ d10 r = false /\ d11 r = false /\
                        transl_out_of_range r = false /\ transl_repeated r = false) /\
  (first = true -> rs <> [] -> declared n_axiom = false /\ declared n_eof = false).
Proof.
  induction rs as [|r rs IH]; intros first H; simpl in H.
  - split; [intros r []|]. intros _ E; congruence.
  - destruct (Z.eqb_spec (rule_check terms first r) 0) as [E|E]; [|congruence].
    destruct (rule_check_ok _ _ E) as (A1 & A2 & A3 & A4 & A5 & A6 & A7).
    destruct (IH _ H) as (B1 & _). split.
    + intros r' [<-|Hr]; auto. repeat split; auto.
    + intros Hf _. now apply A7.
Qed.

Lemma rules_check_pass rs : forall first,
  (forall r, In r rs -> d9 r = false /\ d4 r = false /\ d10 r = false /\ d11 r = false /\
                        transl_out_of_range r = false /\ transl_repeated r = false) ->
  declared n_axiom = false -> declared n_eof = false ->
  rules_check terms first rs = 0.
Proof.
  induction rs as [|r rs IH]; intros first H Ha He; simpl; auto.
  destruct (H r ltac:(now left)) as (A1 & A2 & A3 & A4 & A5 & A6).
  rewrite (rule_check_pass first r A1 A2 A3 A4 A5 A6 Ha He). simpl. apply IH; auto. intros r' Hr. apply H. now right.
Qed.

Lemma rules_check_bad rs : forall first c, rules_check terms first rs = c -> c <> 0 ->
  exists r first', In r rs /\ rule_check terms first' r = c.
Proof.
  induction rs as [|r rs IH]; intros first c H Hc; simpl in H; [congruence|].
  destruct (Z.eqb_spec (rule_check terms first r) 0) as [E|E].
  - destruct (IH _ _ H Hc) as (r' & f' & Hr & Hk). exists r', f'. split; auto. now right.
  - exists r, first. split; [now left | exact H].
Qed.

(* ---------- semantic checks ---------- *)
Definition prod_set := productive terms rules.
Definition reach_set := reachable rules.
Definition nts := nonterms terms rules.
Definition loop_set := loops terms rules.

Lemma grammar_check_codes : let c := grammar_check strict terms rules in c = 0 \/ c = 14 \/ c = 15 \/ c = 16.
Proof.
  unfold grammar_check. destruct strict.
  - destruct (find _ _) as [x|]; simpl.
    + destruct (negb (memn x (productive terms rules))); simpl; auto.
    + destruct (loops terms rules); auto.
  - destruct (memn (start rules) (productive terms rules)); simpl; auto. destruct (loops terms rules); auto.
Qed.

Lemma find_none_iff {A} (f : A -> bool) l : find f l = None <-> forall x, In x l -> f x = false.
Proof.
  induction l as [|a l IH]; simpl; [split; auto; intros _ x []|].
  destruct (f a) eqn:E.
  - split; [discriminate|]. intros H. specialize (H a ltac:(now left)). congruence.
  - rewrite IH. split; [intros H x [<-|Hx]; auto | intros H x Hx; apply H; now right].
Qed.

Lemma existsb_false_iff {A} (f : A -> bool) l : existsb f l = false <-> forall x, In x l -> f x = false.
Proof.
  induction l as [|a l IH]; simpl; [split; auto; intros _ x []|].
  rewrite orb_false_iff, IH. split; [intros [H1 H2] x [<-|Hx]; auto | intros H; split; [apply H; now left | intros x Hx; apply H; now right]].
Qed.

Definition d14 : bool := strict && existsb (fun x => negb (memn x reach_set)) nts.
Definition d15 : bool := if strict then existsb (fun x => negb (memn x prod_set)) nts else negb (memn (start rules) prod_set).
Definition d16 : bool := match loop_set with [] => false | _ => true end.

Lemma grammar_check_zero : grammar_check strict terms rules = 0 <-> d14 = false /\ d15 = false /\ d16 = false.
Proof.
  unfold grammar_check, d14, d15, d16, prod_set, reach_set, nts, loop_set. destruct strict; simpl.
  - destruct (find _ (nonterms terms rules)) as [x|] eqn:E; simpl.
    + split.
      * destruct (negb (memn x (productive terms rules))); discriminate.
      * intros (A & B & _). apply find_some in E. destruct E as [Hx Hf].
        rewrite existsb_false_iff in A, B. rewrite (A x Hx), (B x Hx) in Hf. discriminate.
    + rewrite find_none_iff in E. split.
      * destruct (loops terms rules); [|discriminate]. intros _. repeat split; auto; apply existsb_false_iff; intros x Hx;
          specialize (E x Hx); apply orb_false_iff in E; tauto.
      * intros (_ & _ & C). destruct (loops terms rules); [reflexivity | discriminate].
  - destruct (memn (start rules) (productive terms rules)); simpl.
    + destruct (loops terms rules); split; auto; try discriminate. intros (_ & _ & C). discriminate.
    + split; [discriminate|]. intros (_ & B & _). discriminate.
Qed.

Lemma grammar_check_bad c : grammar_check strict terms rules = c -> c <> 0 ->
  (c = 14 /\ d14 = true) \/ (c = 15 /\ d15 = true) \/ (c = 16 /\ d16 = true).
Proof.
  unfold grammar_check, d14, d15, d16, prod_set, reach_set, nts, loop_set. intros H Hc. destruct strict; simpl in *.
  - destruct (find _ (nonterms terms rules)) as [x|] eqn:E; simpl in H.
    + apply find_some in E. destruct E as [Hx Hf].
      destruct (negb (memn x (productive terms rules))) eqn:Ep; simpl in H.
      * right; left. split; [congruence|]. apply existsb_exists. exists x. auto.
      * left. split; [congruence|]. simpl in Hf. apply existsb_exists. exists x. auto.
    + destruct (loops terms rules); [congruence|]. right; right. split; [congruence | reflexivity].
  - destruct (memn (start rules) (productive terms rules)); simpl in H.
    + destruct (loops terms rules); [congruence|]. right; right. split; [congruence | reflexivity].
    + right; left. split; [congruence | reflexivity].
Qed.

(* ---------- the two theorems ---------- *)
Lemma defect_unfold c : defect_b strict terms rules c =
  if Z.eqb c 4 then declared n_error || declared n_axiom || declared n_eof || existsb d4 rules
  else if Z.eqb c 5 then repeats Nat.eqb (tnames terms)
  else if Z.eqb c 6 then existsb (fun p => snd p <? 0) terms
  else if Z.eqb c 7 then repeats Z.eqb (map snd terms)
  else if Z.eqb c 8 then match rules with [] => true | _ => false end
  else if Z.eqb c 9 then existsb d9 rules
  else if Z.eqb c 10 then existsb d10 rules
  else if Z.eqb c 11 then existsb d11 rules
  else if Z.eqb c 12 then existsb transl_out_of_range rules
  else if Z.eqb c 13 then existsb transl_repeated rules
  else if Z.eqb c 14 then d14
  else if Z.eqb c 15 then d15
  else if Z.eqb c 16 then d16
  else false.
Proof. reflexivity. Qed.

Theorem code_names_defect c : read_model strict terms rules = c -> c <> 0 -> defect_b strict terms rules c = true.
Proof.
  unfold read_model. intros H Hc.
  destruct (Z.eqb_spec (terms_check [] terms) 0) as [E1|E1]; simpl in H.
  2:{ destruct (terms_check_bad terms [] _ eq_refl E1) as [(A & B)|[(A & B)|(A & B)]]; rewrite A in H; subst c; rewrite defect_unfold; simpl.
      - apply existsb_exists. apply Exists_exists in B. destruct B as (p & Hp & Hn). exists p. split; auto. now apply Z.ltb_lt.
      - destruct (repeats Nat.eqb (tnames terms)) eqn:E; auto. apply (repeats_false Nat.eqb Nat.eqb_eq) in E. contradiction.
      - destruct (repeats Z.eqb (map snd terms)) eqn:E; auto. apply (repeats_false Z.eqb Z.eqb_eq) in E. contradiction. }
  destruct (declared n_error) eqn:E2; simpl in H.
  { subst c. rewrite defect_unfold. simpl. now rewrite E2. }
  destruct (Z.eqb_spec (rules_check terms true rules) 0) as [E3|E3]; simpl in H.
  2:{ destruct (rules_check_bad rules true _ eq_refl E3) as (r & f & Hr & Hk).
      rewrite <- H in *. rewrite <- Hk in Hc.
      destruct (rule_check_bad f r _ eq_refl Hc) as [(A & B)|[(A & B)|[(A & B)|[(A & B)|[(A & B)|(A & B)]]]]];
        rewrite Hk in A; rewrite A; rewrite defect_unfold; simpl.
      - apply existsb_exists; eauto.
      - destruct B as [B|[B|B]].
        + rewrite !orb_true_iff. right. apply existsb_exists; eauto.
        + rewrite B. now rewrite !orb_true_r.
        + rewrite B. now rewrite !orb_true_r.
      - apply existsb_exists; eauto.
      - apply existsb_exists; eauto.
      - apply existsb_exists; eauto.
      - apply existsb_exists; eauto. }
  destruct rules as [|r0 rs] eqn:Er.
  { subst c. reflexivity. }
  rewrite <- Er in *.
  destruct (grammar_check_bad _ H Hc) as [(A & B)|[(A & B)|(A & B)]]; rewrite A, defect_unfold; simpl; exact B.
Qed.

Theorem ok_iff_well_formed : read_model strict terms rules = 0 <-> well_formed_b strict terms rules = true.
Proof.
  unfold well_formed_b. rewrite forallb_forall. split.
  - intros H c Hin. apply negb_true_iff. unfold read_model in H.
    destruct (Z.eqb_spec (terms_check [] terms) 0) as [E1|E1]; simpl in H; [|congruence].
    destruct (declared n_error) eqn:E2; simpl in H; [discriminate|].
    destruct (Z.eqb_spec (rules_check terms true rules) 0) as [E3|E3]; simpl in H; [|congruence].
    destruct rules as [|r0 rs] eqn:Er; [discriminate|]. rewrite <- Er in *.
    apply (terms_check_ok terms [] ltac:(constructor) ltac:(constructor)) in E1. destruct E1 as (T1 & T2 & T3). simpl in T2, T3.
    destruct (rules_check_ok rules true E3) as (R1 & R2).
    destruct (R2 eq_refl ltac:(rewrite Er; discriminate)) as (Ga & Ge).
    apply grammar_check_zero in H. destruct H as (S14 & S15 & S16).
    assert (Hex : forall (f : rrule -> bool), (forall r, In r rules -> f r = false) -> existsb f rules = false)
      by (intros f Hf; now apply existsb_false_iff).
    rewrite defect_unfold. simpl in Hin.
    destruct Hin as [<-|[<-|[<-|[<-|[<-|[<-|[<-|[<-|[<-|[<-|[<-|[<-|[<-|[]]]]]]]]]]]]]]; simpl.
    + rewrite E2, Ga, Ge. simpl. apply Hex. intros r Hr. apply R1 in Hr. tauto.
    + now apply (repeats_false Nat.eqb Nat.eqb_eq).
    + apply existsb_false_iff. intros p Hp. rewrite Forall_forall in T1. specialize (T1 p Hp). now apply Z.ltb_ge.
    + now apply (repeats_false Z.eqb Z.eqb_eq).
    + now rewrite Er.
    + apply Hex. intros r Hr. apply R1 in Hr. tauto.
    + apply Hex. intros r Hr. apply R1 in Hr. tauto.
    + apply Hex. intros r Hr. apply R1 in Hr. tauto.
    + apply Hex. intros r Hr. apply R1 in Hr. tauto.
    + apply Hex. intros r Hr. apply R1 in Hr. tauto.
    + exact S14.
    + exact S15.
    + exact S16.
  - intros H.
    assert (D : forall c, In c [4; 5; 6; 7; 8; 9; 10; 11; 12; 13; 14; 15; 16] -> defect_b strict terms rules c = false).
    { intros c Hc. apply negb_true_iff. now apply H. }
    pose proof (D 4 ltac:(simpl; tauto)) as D4. pose proof (D 5 ltac:(simpl; tauto)) as D5.
    pose proof (D 6 ltac:(simpl; tauto)) as D6. pose proof (D 7 ltac:(simpl; tauto)) as D7.
    pose proof (D 8 ltac:(simpl; tauto)) as D8. pose proof (D 9 ltac:(simpl; tauto)) as D9.
    pose proof (D 10 ltac:(simpl; tauto)) as D10. pose proof (D 11 ltac:(simpl; tauto)) as D11.
    pose proof (D 12 ltac:(simpl; tauto)) as D12. pose proof (D 13 ltac:(simpl; tauto)) as D13.
    pose proof (D 14 ltac:(simpl; tauto)) as D14. pose proof (D 15 ltac:(simpl; tauto)) as D15.
    pose proof (D 16 ltac:(simpl; tauto)) as D16.
    rewrite defect_unfold in *. simpl in *.
    apply orb_false_iff in D4. destruct D4 as [D4 D4r]. apply orb_false_iff in D4. destruct D4 as [D4 D4e].
    apply orb_false_iff in D4. destruct D4 as [D4err D4a].
    rewrite existsb_false_iff in D4r, D9, D10, D11, D12, D13.
    unfold read_model.
    assert (E1 : terms_check [] terms = 0).
    { apply (terms_check_ok terms [] ltac:(constructor) ltac:(constructor)). simpl. split; [|split].
      - apply Forall_forall. intros p Hp. rewrite existsb_false_iff in D6. specialize (D6 p Hp). now apply Z.ltb_ge.
      - now apply (repeats_false Nat.eqb Nat.eqb_eq).
      - now apply (repeats_false Z.eqb Z.eqb_eq). }
    rewrite E1. simpl. rewrite D4err. simpl.
    rewrite (rules_check_pass rules true); auto.
    + simpl. destruct rules as [|r0 rs] eqn:Er; [discriminate|]. rewrite <- Er. apply grammar_check_zero. auto.
    + intros r Hr. repeat split; auto.
Qed.

End P.
