(* Extraction of the executable deciders to OCaml (ExtrOcamlBasic only:
   bool, option, list, pair, unit, sumbool; nat, Z stay inductive). *)
From YV Require Import Prelude EarleySpec Recognizer FirstFollow SimpleRecovery Translate FullInfo Dag TreeMem Prune Generated Api Containers ReadGrammar Description.
Require Extraction.
Require Import ExtrOcamlBasic.
Extraction Language OCaml.
Set Extraction Optimize.
Cd "../ocaml/extracted".
Extraction "Core.ml" closed_tbl full min_simple_cost free_counts desc_model shift_count all_translations_a read_model defect_b well_formed_b create hrun vcreate vrun ocreate orun mrun new_obj strip recognize all_translations denote prune_denote acyclic_b altflat_b has_alt_b uncum tcost cum.
Cd "../../coq".
