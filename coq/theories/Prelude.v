(* Prelude: imports, arithmetic hooks and small list lemmas shared by the
   whole development.  Standard library only. *)
From Coq Require Export List Arith ZArith NArith Lia Bool.
From Coq Require Import ZifyBool ZifyNat.
Export ListNotations.

Ltac Zify.zify_post_hook ::= Z.div_mod_to_equations.

Lemma app_eq_len {A} (l1 l2 l3 l4 : list A) :
  l1 ++ l2 = l3 ++ l4 -> length l1 = length l3 -> l1 = l3 /\ l2 = l4.
Proof.
  revert l3; induction l1 as [|x l1 IH]; intros [|y l3] H Hl; simpl in *; try discriminate; auto.
  injection H as -> H. destruct (IH _ H) as [-> ->]; auto.
Qed.

Lemma skipn_cons_S {A} n (l : list A) s be : skipn n l = s :: be -> skipn (S n) l = be.
Proof.
  revert l; induction n as [|n IH]; intros l H; simpl in *.
  - subst; auto.
  - destruct l; [discriminate|]. apply IH in H. exact H.
Qed.

Lemma existsb_In {A} (f : A -> bool) l : existsb f l = true <-> exists x, In x l /\ f x = true.
Proof. apply existsb_exists. Qed.

Lemma forallb_In {A} (f : A -> bool) l : forallb f l = true <-> forall x, In x l -> f x = true.
Proof. apply forallb_forall. Qed.

(* Boolean list membership for a decidable boolean equality. *)
Section Mem.
  Context {A : Type} (eqb : A -> A -> bool).
  Hypothesis eqb_spec : forall x y, eqb x y = true <-> x = y.
  Definition memb (x : A) (l : list A) : bool := existsb (eqb x) l.
  Lemma memb_In x l : memb x l = true <-> In x l.
  Proof.
    unfold memb. rewrite existsb_exists. split.
    - intros (y & Hy & E). apply eqb_spec in E. now subst.
    - intros H. exists x. split; auto. now apply eqb_spec.
  Qed.
  Definition add_new (x : A) (l : list A) : list A := if memb x l then l else l ++ [x].
  Lemma add_new_In x l y : In y (add_new x l) <-> In y l \/ y = x.
  Proof.
    unfold add_new. destruct (memb x l) eqn:E.
    - apply memb_In in E. split; [auto|]. intros [H| ->]; auto.
    - rewrite in_app_iff. simpl. intuition.
  Qed.
  Definition add_all (xs l : list A) : list A := fold_left (fun acc x => add_new x acc) xs l.
  Lemma add_all_In xs : forall l y, In y (add_all xs l) <-> In y l \/ In y xs.
  Proof.
    induction xs as [|x xs IH]; intros l y; simpl.
    - intuition.
    - unfold add_all in *. simpl. rewrite IH, add_new_In. intuition.
  Qed.
End Mem.
