(* Dag: the result of yaep_parse as a store of nodes, the set of trees it
   denotes (one alternative chosen independently at every occurrence of an
   ALT node), an executable enumerator of that set which is complete when the
   final table is a pre-fixpoint, acyclicity and alt-flatness deciders, and
   the conversion between cumulative cost fields and own costs. *)
From YV Require Import Prelude EarleySpec Recognizer Translate.

Inductive dnode :=
| DNil | DErr
| DTerm (code : Z) (attr : nat)
| DAnode (name : nat) (cost : Z) (kids : list nat)
| DAlt (node : nat) (next : option nat).
Definition store := list dnode.

Lemma Forall2_impl' {A B} (R S : A -> B -> Prop) : (forall a b, R a b -> S a b) ->
  forall l l', Forall2 R l l' -> Forall2 S l l'.
Proof. intros H l l' F. induction F; constructor; auto. Qed.

Section D.
Variable st : store.

Definition dpred := nat -> tree -> Prop.

Definition dstep (P : dpred) : dpred := fun id t =>
  match nth_error st id with
  | Some DNil => t = Nil
  | Some DErr => t = Err
  | Some (DTerm c a) => t = Term c a
  | Some (DAnode nm c kids) => exists ts, Forall2 P kids ts /\ t = Anode nm c ts
  | Some (DAlt nd nx) => P nd t \/ exists x, nx = Some x /\ P x t
  | None => False
  end.

Fixpoint dlevel (n : nat) : dpred :=
  match n with 0 => fun _ _ => False | S n => dstep (dlevel n) end.

(* t is obtained from node id by choosing one alternative at every ALT *)
Definition denotes (id : nat) (t : tree) : Prop := exists n, dlevel n id t.

Lemma dstep_mono (P Q : dpred) : (forall id t, P id t -> Q id t) -> forall id t, dstep P id t -> dstep Q id t.
Proof.
  intros H id t. unfold dstep. destruct (nth_error st id) as [[| |c a|nm c kids|nd nx]|]; auto.
  - intros (ts & Hf & ->). exists ts. split; auto. eapply Forall2_impl'; eauto.
  - intros [H1|(x & -> & H1)]; [left; auto | right; eauto].
Qed.

Lemma dprefix_contains_levels (P : dpred) :
  (forall id t, dstep P id t -> P id t) -> forall n id t, dlevel n id t -> P id t.
Proof.
  intros HP n. induction n as [|n IH]; intros id t H; [contradiction|].
  cbn [dlevel] in H. apply HP. eapply dstep_mono; [|exact H]. exact IH.
Qed.

(* executable *)
Definition dtable := list (list tree).     (* node id -> trees *)
Definition dget (tb : dtable) (id : nat) : list tree := nth id tb [].
Definition dmem (tb : dtable) : dpred := fun id t => In t (dget tb id).

Fixpoint prod_all (ls : list (list tree)) : list (list tree) :=
  match ls with
  | [] => [[]]
  | l :: ls' => let rest := prod_all ls' in flat_map (fun t => map (cons t) rest) l
  end.

Lemma prod_all_spec ls ts : In ts (prod_all ls) <-> Forall2 (fun l t => In t l) ls ts.
Proof.
  revert ts; induction ls as [|l ls IH]; intros ts; simpl.
  - split; [intros [<-|[]]; constructor | intros H; inversion H; auto].
  - rewrite in_flat_map. split.
    + intros (t & Ht & H). apply in_map_iff in H. destruct H as (ts' & <- & H). constructor; auto. now apply IH.
    + intros H. inversion H as [|l' t ls' ts' Ht Hr]; subst. exists t. split; auto. apply in_map. now apply IH.
Qed.

Definition dentry (tb : dtable) (nd : dnode) : list tree :=
  match nd with
  | DNil => [Nil]
  | DErr => [Err]
  | DTerm c a => [Term c a]
  | DAnode nm c kids => map (Anode nm c) (prod_all (map (dget tb) kids))
  | DAlt n nx => dedup (dget tb n ++ match nx with Some x => dget tb x | None => [] end)
  end.

Definition dnext (tb : dtable) : dtable := map (dentry tb) st.

Lemma Forall2_map_l {A B C} (R : B -> C -> Prop) (f : A -> B) l l' :
  Forall2 R (map f l) l' <-> Forall2 (fun a c => R (f a) c) l l'.
Proof.
  revert l'; induction l as [|a l IH]; intros l'; simpl; split; intros H; inversion H; subst; constructor; auto;
    now apply IH.
Qed.

Lemma dmem_dnext tb id t : dmem (dnext tb) id t <-> dstep (dmem tb) id t.
Proof.
  unfold dmem at 1, dget, dnext, dstep.
  destruct (nth_error st id) as [nd|] eqn:E.
  - rewrite (nth_indep _ [] (dentry tb DNil)) by (rewrite map_length; apply nth_error_Some; congruence).
    rewrite map_nth. rewrite (nth_error_nth _ _ _ E).
    destruct nd as [| |c a|nm c kids|n nx]; simpl.
    + split; [intros [<-|[]]; auto | intros ->; auto].
    + split; [intros [<-|[]]; auto | intros ->; auto].
    + split; [intros [<-|[]]; auto | intros ->; auto].
    + rewrite in_map_iff. split.
      * intros (ts & <- & H). apply prod_all_spec in H. apply Forall2_map_l in H. eauto.
      * intros (ts & H & ->). exists ts. split; auto. apply prod_all_spec. now apply Forall2_map_l.
    + rewrite dedup_In, in_app_iff. unfold dmem. destruct nx as [x|].
      * split; [intros [H|H]; [left; auto | right; eauto] | intros [H|(y & Hy & H)]; [left; auto | injection Hy as ->; right; auto]].
      * split; [intros [H|[]]; left; auto | intros [H|(y & Hy & _)]; [left; auto | discriminate]].
  - apply nth_error_None in E. rewrite nth_overflow by (rewrite map_length; exact E). simpl. tauto.
Qed.

Fixpoint dtab (n : nat) : dtable :=
  match n with 0 => [] | S n => dnext (dtab n) end.

Lemma dstep_ext (P Q : dpred) : (forall id t, P id t <-> Q id t) -> forall id t, dstep P id t <-> dstep Q id t.
Proof. intros H id t; split; apply dstep_mono; intros; apply H; auto. Qed.

Theorem dtab_level n : forall id t, dmem (dtab n) id t <-> dlevel n id t.
Proof.
  induction n as [|n IH]; intros id t.
  - unfold dmem, dget. simpl. destruct id; simpl; tauto.
  - cbn [dtab dlevel]. rewrite dmem_dnext. apply dstep_ext. exact IH.
Qed.

(* ---------- shape of the DAG ---------- *)
Definition succs (nd : dnode) : list nat :=
  match nd with
  | DAnode _ _ kids => kids
  | DAlt n nx => n :: match nx with Some x => [x] | None => [] end
  | _ => []
  end.
Definition edge (a b : nat) : Prop := exists nd, nth_error st a = Some nd /\ In b (succs nd).

(* good n id: every edge path starting at id has fewer than n edges ... computed by rounds *)
Definition gnext (gt : list bool) : list bool :=
  map (fun nd => forallb (fun s => nth s gt false) (succs nd)) st.
Fixpoint gtab (n : nat) : list bool := match n with 0 => map (fun _ => false) st | S n => gnext (gtab n) end.

Inductive path : nat -> list nat -> Prop :=
| p_nil a : path a []
| p_cons a b l : edge a b -> path b l -> path a (b :: l).

Lemma gtab_bound n : forall id, nth id (gtab n) false = true -> forall l, path id l -> length l < n.
Proof.
  induction n as [|n IH]; intros id H l Hp.
  - simpl in H. exfalso. clear Hp. revert H. generalize (st). intros s. revert id. induction s as [|a0 s IHs]; intros [|id]; simpl; try discriminate. apply IHs.
  - cbn [gtab] in H. unfold gnext in H.
    destruct Hp as [a|a b l (nd & Hnd & Hb) Hp]; [simpl; lia|].
    rewrite (nth_indep _ false (forallb (fun s => nth s (gtab n) false) (succs DNil))) in H
      by (rewrite map_length; apply nth_error_Some; congruence).
    rewrite (map_nth (fun nd => forallb (fun s => nth s (gtab n) false) (succs nd))) in H.
    rewrite (nth_error_nth _ _ _ Hnd) in H. rewrite forallb_forall in H.
    specialize (IH b (H b Hb) l Hp). simpl. lia.
Qed.

(* Nodes from which every path has fewer than m edges denote at level m
   everything they denote at any level: the table after "depth" rounds is
   complete.  The depth is found by iterating [gnext] until all nodes are good. *)
Lemma gtab0_false id : nth id (gtab 0) false = false.
Proof.
  simpl. generalize st. intros s. revert id. induction s as [|a0 s IHs]; intros [|id]; simpl; auto.
Qed.

Lemma Forall2_impl_In {A B} (R S : A -> B -> Prop) l l' :
  (forall a b, In a l -> R a b -> S a b) -> Forall2 R l l' -> Forall2 S l l'.
Proof.
  intros H F. induction F as [|a b l l' Hab F IH]; constructor.
  - apply H; simpl; auto.
  - apply IH. intros a' b' Ha'. apply H. simpl; auto.
Qed.

Lemma dstep_local (P Q : dpred) id t nd : nth_error st id = Some nd ->
  (forall s t', In s (succs nd) -> P s t' -> Q s t') -> dstep P id t -> dstep Q id t.
Proof.
  intros E H. unfold dstep. rewrite E. destruct nd as [| |c a|nm c kids|n nx]; auto.
  - intros (ts & Hf & ->). exists ts. split; auto. eapply Forall2_impl_In; [|exact Hf]. intros a b Ha. apply H. exact Ha.
  - intros [H1|(x & -> & H1)]; [left; apply H; simpl; auto | right; exists x; split; auto; apply H; simpl; auto].
Qed.

Lemma good_levels m : forall id, nth id (gtab m) false = true ->
  forall n t, dlevel n id t -> dlevel m id t.
Proof.
  induction m as [|m IH]; intros id Hg n t Hn.
  - rewrite gtab0_false in Hg. discriminate.
  - destruct n as [|n]; [contradiction|]. cbn [dlevel] in *.
    destruct (nth_error st id) as [nd|] eqn:E; [|unfold dstep in Hn; rewrite E in Hn; contradiction].
    cbn [gtab] in Hg. unfold gnext in Hg.
    rewrite (nth_indep _ false (forallb (fun s => nth s (gtab m) false) (succs DNil))) in Hg
      by (rewrite map_length; apply nth_error_Some; congruence).
    rewrite (map_nth (fun nd => forallb (fun s => nth s (gtab m) false) (succs nd))) in Hg.
    rewrite (nth_error_nth _ _ _ E) in Hg. rewrite forallb_forall in Hg.
    eapply dstep_local; [exact E| |exact Hn].
    intros s t' Hs Ht'. eapply IH; [apply Hg; exact Hs | exact Ht'].
Qed.

Definition all_good (gt : list bool) : bool := forallb (fun b => b) gt.

Fixpoint find_depth (fuel n : nat) (gt : list bool) : option nat :=
  if all_good gt then Some n else
  match fuel with 0 => None | S f => find_depth f (S n) (gnext gt) end.

Lemma find_depth_spec fuel : forall n m, find_depth fuel n (gtab n) = Some m -> all_good (gtab m) = true.
Proof.
  induction fuel as [|f IH]; intros n m H; cbn [find_depth] in H.
  - destruct (all_good (gtab n)) eqn:E; [|discriminate]. now injection H as <-.
  - destruct (all_good (gtab n)) eqn:E.
    + now injection H as <-.
    + apply (IH (S n)). exact H.
Qed.

(* [None]: the store has a cycle (no depth within |st|+1 rounds) *)
Definition denote (root : nat) : option (list tree) :=
  match find_depth (S (length st)) 0 (gtab 0) with
  | Some m => Some (dget (dtab m) root)
  | None => None
  end.

Theorem denote_spec root L : denote root = Some L -> forall t, In t L <-> denotes root t.
Proof.
  unfold denote. destruct (find_depth _ 0 (gtab 0)) as [m|] eqn:E; [|discriminate].
  intros H t; injection H as <-. apply find_depth_spec in E.
  split.
  - intros Hm. exists m. now apply dtab_level.
  - intros (n & Hn). apply dtab_level.
    destruct (nth_error st root) as [nd|] eqn:Er.
    + eapply good_levels; [|exact Hn]. unfold all_good in E. rewrite forallb_forall in E.
      apply E. apply nth_In. assert (length (gtab m) = length st).
      { clear. induction m; simpl; unfold gnext; now rewrite map_length. }
      rewrite H. apply nth_error_Some. congruence.
    + destruct n as [|n]; [contradiction|]. cbn [dlevel] in Hn. unfold dstep in Hn. rewrite Er in Hn. contradiction.
Qed.

(* every node reachable or not: all nodes are good after |st|+1 rounds *)
Definition acyclic_b : bool := forallb (fun b => b) (gtab (S (length st))).

Theorem acyclic_b_spec : acyclic_b = true -> forall id l, id < length st -> path id l -> length l <= length st.
Proof.
  intros H id l Hid Hp. unfold acyclic_b in H. rewrite forallb_forall in H.
  assert (Hg : nth id (gtab (S (length st))) false = true).
  { apply H. apply nth_In. cbn [gtab]. unfold gnext. now rewrite map_length. }
  pose proof (gtab_bound _ _ Hg l Hp). lia.
Qed.

(* an alternative is never itself an ALT; the chain links only ALT nodes *)
Definition is_alt (id : nat) : bool := match nth_error st id with Some (DAlt _ _) => true | _ => false end.
Definition altflat_b : bool :=
  forallb (fun nd => match nd with
                     | DAlt n nx => negb (is_alt n) && match nx with Some x => is_alt x | None => true end
                     | _ => true end) st.
Definition has_alt_b : bool := existsb (fun nd => match nd with DAlt _ _ => true | _ => false end) st.

End D.

(* ---------- cost fields ---------- *)
Definition zsum (l : list Z) : Z := fold_right Z.add 0%Z l.

(* own-cost tree -> tree with cumulative cost fields (what the cost flag documents) *)
Fixpoint cum (t : tree) : tree :=
  match t with
  | Anode nm c ks => Anode nm (c + zsum (map tcost ks)) (map cum ks)
  | _ => t
  end.

Definition field (t : tree) : Z := match t with Anode _ c _ => c | _ => 0%Z end.

(* cumulative-field tree -> own-cost tree (None when a field is smaller than the sum below it) *)
Fixpoint uncum (t : tree) : option tree :=
  match t with
  | Anode nm c ks =>
      let fix go (l : list tree) : option (list tree) :=
        match l with
        | [] => Some []
        | k :: l' => match uncum k, go l' with Some k', Some r => Some (k' :: r) | _, _ => None end
        end in
      match go ks with
      | Some ks' => let own := (c - zsum (map field ks))%Z in
                    if (own <? 0)%Z then None else Some (Anode nm own ks')
      | None => None
      end
  | _ => Some t
  end.

Lemma tcost_zsum nm c ks : tcost (Anode nm c ks) = (c + zsum (map tcost ks))%Z.
Proof. simpl. f_equal. induction ks; simpl; auto. now rewrite IHks. Qed.

Lemma field_cum t : field (cum t) = tcost t.
Proof. destruct t; simpl; auto. f_equal. induction kids; simpl; auto. now rewrite IHkids. Qed.

Theorem uncum_spec t : forall t', uncum t = Some t' -> cum t' = t /\ tcost t' = field t.
Proof.
  induction t as [| |c a|nm c ks IH] using tree_ind'; intros t' H; simpl in H; try (injection H as <-; auto).
  set (go := fix go (l : list tree) : option (list tree) :=
        match l with
        | [] => Some []
        | k :: l' => match uncum k, go l' with Some k', Some r => Some (k' :: r) | _, _ => None end
        end) in *.
  destruct (go ks) as [ks'|] eqn:E; [|discriminate].
  destruct (Z.ltb_spec (c - zsum (map field ks)) 0); [discriminate|]. injection H as <-.
  assert (Hks : map cum ks' = ks /\ map tcost ks' = map field ks).
  { clear H0. revert ks' E. induction IH as [|k l Hk Hl IHl]; intros ks' E; simpl in E.
    - injection E as <-. auto.
    - destruct (uncum k) as [k'|] eqn:Ek; [|discriminate]. destruct (go l) as [r|] eqn:Er; [|discriminate].
      injection E as <-. destruct (Hk _ eq_refl) as [H1 H2]. destruct (IHl _ eq_refl) as [H3 H4].
      simpl. split; congruence. }
  destruct Hks as [H1 H2]. split.
  - simpl. rewrite H1, H2. f_equal. lia.
  - rewrite tcost_zsum, H2. simpl. lia.
Qed.
