(* YaepClosure: YAEP does not complete rules over an empty span.  It moves the
   dot over nullable nonterminals when a set is expanded ("skip"), and its
   completer fires for the situations whose tail is nullable (not only empty)
   and whose origin is an earlier set.  YItem is that item system; it derives
   exactly the items of the textbook system (EarleySpec.Item):
     - every YItem is a valid item (soundness);
     - every Item is a YItem: a completion over an empty span is a skip, because
       the completed nonterminal is then nullable; a completion over a non-empty
       span has its origin in an earlier set.
   certificate_complete is the same statement for a concrete family of sets that
   is closed under the five rules. *)
From YV Require Import Prelude EarleySpec.

Section C.
Variable g : grammar.
Variable axiom : nat.
Variable nl : nat -> bool.
Hypothesis nl_ok : forall x, nl x = true <-> derives g [N x] [].

Definition nsym (s : symbol) : bool := match s with T _ => false | N x => nl x end.
Definition tail_nullable (i : item) : bool := forallb nsym (after i).

Lemma nullable_form al : forallb nsym al = true -> derives g al [].
Proof.
  induction al as [|s al IH]; intros H; [constructor|]. cbn [forallb] in H. apply andb_prop in H. destruct H as [H1 H2].
  destruct s as [a|x]; [discriminate|]. cbn [nsym] in H1. apply nl_ok in H1.
  change (N x :: al) with ([N x] ++ al). change (@nil nat) with (@nil nat ++ []). apply derives_app; auto.
Qed.

Inductive YItem : list nat -> item -> Prop :=
| Y_init r : In r g -> lhs r = axiom -> YItem [] {| ir := r; idot := 0; iorg := 0 |}
| Y_scan p i a be : YItem p i -> after i = T a :: be -> YItem (p ++ [a]) (adv i)
| Y_pred p i x be r : YItem p i -> after i = N x :: be -> In r g -> lhs r = x ->
                      YItem p {| ir := r; idot := 0; iorg := length p |}
| Y_skip p i x be : YItem p i -> after i = N x :: be -> nl x = true -> YItem p (adv i)
| Y_comp p1 p2 i c be : YItem p1 i -> after i = N (lhs (ir c)) :: be ->
                      YItem (p1 ++ p2) c -> tail_nullable c = true -> iorg c = length p1 -> p2 <> [] ->
                      YItem (p1 ++ p2) (adv i).

Lemma before_adv i s be : after i = s :: be -> before (adv i) = before i ++ [s].
Proof. intros H. destruct (after_cons_before i s be H) as (_ & E & _). exact E. Qed.

Theorem YItem_sound p i : YItem p i -> valid g axiom p i.
Proof.
  induction 1 as [r Hr Hax | p i a be Hi IH Ha | p i x be r Hi IH Ha Hr Hl | p i x be Hi IH Ha Hn
                 | p1 p2 i c be Hi IHi Ha Hc IHc Hcn Hco Hne].
  - apply Item_sound. apply I_init; auto.
  - destruct IH as (Hin & Hle & p1 & p2 & -> & Hlen & Hre & Hd).
    destruct (after_cons_before _ _ _ Ha) as (Hlt & Hf & _ & _).
    repeat split; simpl; auto. exists p1, (p2 ++ [a]); repeat split; auto.
    + now rewrite app_assoc.
    + unfold before; cbn [ir idot iorg adv]. rewrite Hf. apply derives_app; auto. repeat constructor.
  - destruct IH as (Hin & Hle & p1 & p2 & -> & Hlen & Hre & Hd).
    destruct (after_cons_before _ _ _ Ha) as (Hlt & _ & _ & Hrhs).
    repeat split; simpl; auto; try lia. exists (p1 ++ p2), []; repeat split; simpl; auto.
    + now rewrite app_nil_r.
    + subst x. eapply r_step; eauto.
    + constructor.
  - destruct IH as (Hin & Hle & p1 & p2 & -> & Hlen & Hre & Hd).
    destruct (after_cons_before _ _ _ Ha) as (Hlt & Hf & _ & _).
    repeat split; simpl; auto. exists p1, p2; repeat split; auto.
    unfold before; cbn [ir idot iorg adv]. rewrite Hf. rewrite <- (app_nil_r p2). apply derives_app; auto. apply nl_ok. exact Hn.
  - destruct IHi as (Hin & Hle & q1 & q2 & -> & Hlen & Hre & Hd).
    destruct IHc as (Hcin & Hcle & c1 & c2 & Heq & Hclen & Hcre & Hcd).
    destruct (after_cons_before _ _ _ Ha) as (Hlt & Hf & _ & _).
    assert (c1 = q1 ++ q2 /\ c2 = p2) as [-> ->].
    { symmetry in Heq. apply app_eq_len in Heq; [tauto | lia]. }
    repeat split; simpl; auto. exists q1, (q2 ++ p2); repeat split; auto.
    + now rewrite app_assoc.
    + unfold before; cbn [ir idot iorg adv]. rewrite Hf. apply derives_app; auto.
      replace p2 with (p2 ++ []) by apply app_nil_r.
      apply (d_N g (ir c) [] p2 []); [exact Hcin| |constructor].
      rewrite <- (firstn_skipn (idot c) (rhs (ir c))). rewrite <- (app_nil_r p2).
      apply derives_app; [exact Hcd | apply nullable_form; exact Hcn].
Qed.

Theorem Item_YItem p i : Item g axiom p i -> YItem p i.
Proof.
  induction 1 as [r Hr Hax | p i a be Hi IH Ha | p i x be r Hi IH Ha Hr Hl
                 | p1 p2 i c be Hi IHi Ha Hc IHc Hcn Hco].
  - apply Y_init; auto.
  - eapply Y_scan; eauto.
  - eapply Y_pred; eauto.
  - destruct p2 as [|a p2].
    + (* zero width: the completed nonterminal is nullable, the completion is a skip *)
      rewrite app_nil_r in *. apply (Y_skip p1 i (lhs (ir c)) be IHi Ha). apply nl_ok.
      destruct (Item_sound _ _ _ _ Hc) as (Hin & Hle' & q1 & q2 & Hq & Hql & _ & Hd).
      assert (q2 = []).
      { assert (L : length (q1 ++ q2) = length p1) by (rewrite <- Hq; reflexivity).
        rewrite app_length in L. destruct q2; auto. simpl in L. lia. }
      subst q2. rewrite (after_nil _ Hcn Hle') in Hd.
      apply derives_single_N. exists (ir c). auto.
    + apply (Y_comp p1 (a :: p2) i c be IHi Ha IHc); auto; [unfold tail_nullable; rewrite Hcn; reflexivity | discriminate].
Qed.

Theorem YItem_iff p i : YItem p i <-> Item g axiom p i.
Proof. split; [intros H; apply Item_complete, YItem_sound, H | apply Item_YItem]. Qed.

(* ---------- the same for a concrete family of sets ---------- *)
Variable w : list nat.
Variable S_ : nat -> list item.          (* S_ k : the set after k tokens *)
Notation pre k := (firstn k w).

Record certificate : Prop := {
  c_init  : forall r, In r g -> lhs r = axiom -> In {| ir := r; idot := 0; iorg := 0 |} (S_ 0);
  c_scan  : forall k i a be, k < length w -> In i (S_ k) -> after i = T a :: be -> nth_error w k = Some a ->
            In (adv i) (S_ (S k));
  c_pred  : forall k i x be r, k <= length w -> In i (S_ k) -> after i = N x :: be -> In r g -> lhs r = x ->
            In {| ir := r; idot := 0; iorg := k |} (S_ k);
  c_skip  : forall k i x be, k <= length w -> In i (S_ k) -> after i = N x :: be -> nl x = true ->
            In (adv i) (S_ k);
  c_comp  : forall k c i be, k <= length w -> In c (S_ k) -> iorg c < k -> tail_nullable c = true ->
            In i (S_ (iorg c)) -> after i = N (lhs (ir c)) :: be -> In (adv i) (S_ k)
}.

Lemma firstn_snoc_inv p a k : k <= length w -> p ++ [a] = pre k ->
  exists k', k = S k' /\ p = pre k' /\ nth_error w k' = Some a /\ k' < length w.
Proof.
  intros Hk H.
  assert (Hl : length (p ++ [a]) = k) by (rewrite H, firstn_length; lia).
  rewrite app_length in Hl; simpl in Hl.
  exists (length p). split; [lia|].
  assert (Hp : p = firstn (length p) w).
  { assert (E : firstn (length p) (p ++ [a]) = firstn (length p) (pre k)) by now rewrite H.
    rewrite firstn_app, Nat.sub_diag, firstn_all, firstn_firstn in E. simpl in E.
    rewrite app_nil_r in E. replace (Nat.min (length p) k) with (length p) in E by lia. exact E. }
  split; [exact Hp|]. split; [|lia].
  assert (E : nth_error (p ++ [a]) (length p) = nth_error (pre k) (length p)) by now rewrite H.
  rewrite nth_error_app2, Nat.sub_diag in E by lia. simpl in E.
  rewrite <- (firstn_skipn k w) at 1.
  rewrite nth_error_app1; [now symmetry|]. rewrite firstn_length. lia.
Qed.

Lemma firstn_app_inv p1 p2 k : k <= length w -> p1 ++ p2 = pre k ->
  length p1 <= k /\ p1 = pre (length p1) /\ length p1 + length p2 = k.
Proof.
  intros Hk H.
  assert (Hl : length (p1 ++ p2) = k) by (rewrite H, firstn_length; lia).
  rewrite app_length in Hl. split; [lia|]. split; [|exact Hl].
  assert (E : firstn (length p1) (p1 ++ p2) = firstn (length p1) (pre k)) by now rewrite H.
  rewrite firstn_app, Nat.sub_diag, firstn_all, firstn_firstn in E. simpl in E.
  rewrite app_nil_r in E. replace (Nat.min (length p1) k) with (length p1) in E by lia. exact E.
Qed.

Theorem certificate_complete : certificate ->
  forall p i, YItem p i -> forall k, k <= length w -> p = pre k -> In i (S_ k).
Proof.
  intros C. induction 1 as [r Hr Hax | p i a be Hi IH Ha | p i x be r Hi IH Ha Hr Hl | p i x be Hi IH Ha Hn
                           | p1 p2 i c be Hi IHi Ha Hc IHc Hcn Hco Hne]; intros k Hk Hp.
  - assert (k = 0 \/ w = []) as [->| ->].
    { destruct k; auto. destruct w; auto. discriminate. }
    + now apply (c_init C).
    + assert (k = 0) by (simpl in Hk; lia). subst. now apply (c_init C).
  - destruct (firstn_snoc_inv _ _ _ Hk Hp) as (k' & -> & Hp' & Hn & Hlt).
    apply (c_scan C k' i a be); auto. apply IH; auto; lia.
  - rewrite Hp, firstn_length, Nat.min_l by lia.
    apply (c_pred C k i x be r); auto.
  - apply (c_skip C k i x be); auto.
  - destruct (firstn_app_inv _ _ _ Hk Hp) as (Hle & Hp1 & Hlen).
    assert (Hi1 : In i (S_ (length p1))) by (apply IHi; auto; lia).
    assert (Hck : In c (S_ k)) by (apply IHc; auto).
    apply (c_comp C k c i be); auto.
    + rewrite Hco. destruct p2; [congruence | simpl in Hlen; lia].
    + now rewrite Hco.
Qed.

Corollary certificate_contains_all_items : certificate ->
  forall k i, k <= length w -> Item g axiom (pre k) i -> In i (S_ k).
Proof. intros C k i Hk H. apply (certificate_complete C (pre k) i); auto. apply Item_YItem. exact H. Qed.

End C.
