(* EarleySpec: context-free derivations (big step), the declarative Earley
   item system indexed by the consumed prefix, and
       Item p i  <->  valid p i
   (soundness by induction on Item, completeness by reach_pred/advance). *)
From YV Require Import Prelude.

Inductive symbol := T (a : nat) | N (x : nat).
Record rule := { lhs : nat; rhs : list symbol }.
Definition grammar := list rule.

Section G.
Variable g : grammar.

Inductive derives : list symbol -> list nat -> Prop :=
| d_nil : derives [] []
| d_T a al w : derives al w -> derives (T a :: al) (a :: w)
| d_N r al w1 w2 : In r g -> derives (rhs r) w1 -> derives al w2 ->
                   derives (N (lhs r) :: al) (w1 ++ w2).

Lemma derives_app al be u v : derives al u -> derives be v -> derives (al ++ be) (u ++ v).
Proof.
  intros H; revert be v; induction H; intros be v Hb; simpl; auto.
  - constructor; auto.
  - rewrite <- app_assoc. econstructor; eauto.
Qed.

Lemma derives_app_inv al be w : derives (al ++ be) w ->
  exists u v, w = u ++ v /\ derives al u /\ derives be v.
Proof.
  revert w; induction al as [|s al IH]; simpl; intros w H.
  - exists [], w; repeat split; auto. constructor.
  - inversion H as [| a al' w' Hd | r al' w1 w2 Hr Hd1 Hd]; subst.
    + destruct (IH _ Hd) as (u & v & -> & Hu & Hv).
      exists (a :: u), v; repeat split; auto. constructor; auto.
    + destruct (IH _ Hd) as (u & v & -> & Hu & Hv).
      exists (w1 ++ u), v; repeat split; auto.
      * now rewrite app_assoc.
      * econstructor; eauto.
Qed.

Lemma derives_single_N x w : derives [N x] w <-> exists r, In r g /\ lhs r = x /\ derives (rhs r) w.
Proof.
  split.
  - intros H. inversion H as [| |r al w1 w2 Hr H1 H2]; subst.
    inversion H2; subst. rewrite app_nil_r. eauto.
  - intros (r & Hr & <- & Hd). replace w with (w ++ []) by apply app_nil_r.
    econstructor; eauto. constructor.
Qed.

Lemma derives_T_inv a al w : derives (T a :: al) w -> exists w', w = a :: w' /\ derives al w'.
Proof. intros H; inversion H; subst; eauto. Qed.

(* items: rule, dot position, origin (length of the prefix consumed at origin) *)
Record item := { ir : rule; idot : nat; iorg : nat }.

Definition before (i : item) := firstn (idot i) (rhs (ir i)).
Definition after (i : item) := skipn (idot i) (rhs (ir i)).
Definition adv (i : item) := {| ir := ir i; idot := S (idot i); iorg := iorg i |}.

Variable axiom : nat.   (* the start nonterminal *)

(* Item p i : i is in the Earley set reached after consuming prefix p *)
Inductive Item : list nat -> item -> Prop :=
| I_init r : In r g -> lhs r = axiom -> Item [] {| ir := r; idot := 0; iorg := 0 |}
| I_scan p i a be : Item p i -> after i = T a :: be -> Item (p ++ [a]) (adv i)
| I_pred p i x be r : Item p i -> after i = N x :: be -> In r g -> lhs r = x ->
                    Item p {| ir := r; idot := 0; iorg := length p |}
| I_comp p1 p2 i c be : Item p1 i -> after i = N (lhs (ir c)) :: be ->
                    Item (p1 ++ p2) c -> after c = [] -> iorg c = length p1 ->
                    Item (p1 ++ p2) (adv i).

(* top-down reachability of a nonterminal after prefix p (left context only) *)
Inductive reach : list nat -> nat -> Prop :=
| r_ax : reach [] axiom
| r_step p1 p2 r al x be : reach p1 (lhs r) -> In r g -> rhs r = al ++ N x :: be ->
                     derives al p2 -> reach (p1 ++ p2) x.

Definition valid (p : list nat) (i : item) : Prop :=
  In (ir i) g /\ idot i <= length (rhs (ir i)) /\
  exists p1 p2, p = p1 ++ p2 /\ length p1 = iorg i /\ reach p1 (lhs (ir i)) /\ derives (before i) p2.

Lemma after_cons_before i s be : after i = s :: be ->
  idot i < length (rhs (ir i)) /\
  firstn (S (idot i)) (rhs (ir i)) = before i ++ [s] /\ skipn (S (idot i)) (rhs (ir i)) = be /\
  rhs (ir i) = before i ++ s :: be.
Proof.
  unfold after, before. generalize (rhs (ir i)) (idot i). intros l n; revert l.
  induction n as [|n IH]; intros l H; simpl in *.
  - subst; simpl. repeat split; auto. lia.
  - destruct l as [|y l]; [discriminate|]. destruct (IH _ H) as (A & B & C & D).
    simpl. repeat split; auto; try lia; congruence.
Qed.

Lemma after_nil i : after i = [] -> idot i <= length (rhs (ir i)) -> before i = rhs (ir i).
Proof.
  unfold after, before. generalize (rhs (ir i)) (idot i). intros l n; revert l.
  induction n as [|n IH]; intros l H Hl; simpl in *; subst; auto.
  destruct l; simpl in *; auto. f_equal. apply IH; auto. lia.
Qed.

Theorem Item_sound p i : Item p i -> valid p i.
Proof.
  induction 1 as [r Hr Hax | p i a be Hi IH Ha | p i x be r Hi IH Ha Hr Hl
                 | p1 p2 i c be Hi IHi Ha Hc IHc Hcn Hco].
  - repeat split; simpl; auto; try lia.
    exists [], []; repeat split; simpl; auto. rewrite Hax. constructor. constructor.
  - destruct IH as (Hin & Hle & p1 & p2 & -> & Hlen & Hre & Hd).
    destruct (after_cons_before _ _ _ Ha) as (Hlt & Hf & _ & _).
    repeat split; simpl; auto.
    exists p1, (p2 ++ [a]); repeat split; auto.
    + now rewrite app_assoc.
    + unfold before; cbn [ir idot iorg adv]. rewrite Hf. apply derives_app; auto. repeat constructor.
  - destruct IH as (Hin & Hle & p1 & p2 & -> & Hlen & Hre & Hd).
    destruct (after_cons_before _ _ _ Ha) as (Hlt & _ & _ & Hrhs).
    repeat split; simpl; auto; try lia.
    exists (p1 ++ p2), []; repeat split; simpl; auto.
    + now rewrite app_nil_r.
    + subst x. eapply r_step; eauto.
    + constructor.
  - destruct IHi as (Hin & Hle & q1 & q2 & -> & Hlen & Hre & Hd).
    destruct IHc as (Hcin & Hcle & c1 & c2 & Heq & Hclen & Hcre & Hcd).
    destruct (after_cons_before _ _ _ Ha) as (Hlt & Hf & _ & _).
    assert (c1 = q1 ++ q2 /\ c2 = p2) as [-> ->].
    { symmetry in Heq. apply app_eq_len in Heq; [tauto | lia]. }
    repeat split; simpl; auto.
    exists q1, (q2 ++ p2); repeat split; auto.
    + now rewrite app_assoc.
    + unfold before; cbn [ir idot iorg adv]. rewrite Hf. apply derives_app; auto.
      rewrite (after_nil _ Hcn Hcle) in Hcd.
      replace p2 with (p2 ++ []) by apply app_nil_r.
      econstructor; eauto. constructor.
Qed.

Lemma advance be1 u : derives be1 u ->
  forall r d o p be2, Item p {| ir := r; idot := d; iorg := o |} ->
    skipn d (rhs r) = be1 ++ be2 ->
    Item (p ++ u) {| ir := r; idot := d + length be1; iorg := o |}.
Proof.
  induction 1 as [| a al w Hd IH | r' al w1 w2 Hr Hd1 IH1 Hd2 IH2]; intros r d o p be2 Hi Hs.
  - rewrite app_nil_r. simpl. now replace (d + 0) with d by lia.
  - simpl in Hs.
    assert (Hi' := I_scan _ _ a (al ++ be2) Hi Hs). cbn [ir idot iorg adv] in Hi'.
    apply skipn_cons_S in Hs.
    specialize (IH r (S d) o (p ++ [a]) be2 Hi' Hs).
    rewrite <- app_assoc in IH. simpl in IH. simpl.
    now replace (d + S (length al)) with (S d + length al) by lia.
  - simpl in Hs.
    assert (Hp := I_pred _ _ (lhs r') (al ++ be2) r' Hi Hs Hr eq_refl).
    assert (Hc := IH1 r' 0 (length p) p [] Hp ltac:(now rewrite app_nil_r)).
    cbn [plus] in Hc.
    assert (Hi' : Item (p ++ w1) {| ir := r; idot := S d; iorg := o |}).
    { apply (I_comp p w1 {| ir := r; idot := d; iorg := o |} {| ir := r'; idot := length (rhs r'); iorg := length p |} (al ++ be2) Hi Hs Hc).
      - unfold after; cbn [ir idot]. apply skipn_all.
      - reflexivity. }
    apply skipn_cons_S in Hs.
    specialize (IH2 r (S d) o (p ++ w1) be2 Hi' Hs).
    rewrite <- app_assoc in IH2. simpl.
    now replace (d + S (length al)) with (S d + length al) by lia.
Qed.

Lemma reach_pred p x : reach p x -> forall r, In r g -> lhs r = x ->
  Item p {| ir := r; idot := 0; iorg := length p |}.
Proof.
  induction 1 as [| p1 p2 r0 al x be Hre IH Hr0 Hrhs Hd]; intros r Hr Hl.
  - now apply I_init.
  - specialize (IH r0 Hr0 eq_refl).
    assert (Ha := advance al p2 Hd r0 0 (length p1) p1 (N x :: be) IH ltac:(simpl; exact Hrhs)).
    simpl in Ha.
    eapply (I_pred _ _ x be r Ha); auto.
    unfold after; cbn [ir idot]. rewrite Hrhs.
    rewrite skipn_app, skipn_all, Nat.sub_diag. reflexivity.
Qed.

Theorem Item_complete p i : valid p i -> Item p i.
Proof.
  destruct i as [r d o]. unfold valid, before; cbn [ir idot iorg].
  intros (Hin & Hle & p1 & p2 & -> & Hlen & Hre & Hd).
  assert (H0 := reach_pred _ _ Hre r Hin eq_refl).
  assert (Ha := advance _ _ Hd r 0 (length p1) p1 (skipn d (rhs r)) H0
                 ltac:(simpl; symmetry; apply firstn_skipn)).
  rewrite firstn_length_le in Ha by exact Hle. simpl in Ha. now rewrite Hlen in Ha.
Qed.

Theorem Item_iff p i : Item p i <-> valid p i.
Proof. split; [apply Item_sound | apply Item_complete]. Qed.

(* Sentences and the acceptance condition on items. *)
Definition sentence (w : list nat) : Prop := derives [N axiom] w.

Definition final (i : item) : Prop := lhs (ir i) = axiom /\ after i = [] /\ iorg i = 0.

Theorem accept_iff w : (exists i, Item w i /\ final i) <-> sentence w.
Proof.
  split.
  - intros (i & Hi & Hax & Haf & Ho).
    destruct (Item_sound _ _ Hi) as (Hin & Hle & p1 & p2 & -> & Hlen & _ & Hd).
    rewrite Ho in Hlen. destruct p1; [|discriminate]. simpl.
    rewrite (after_nil _ Haf Hle) in Hd.
    apply derives_single_N. exists (ir i). auto.
  - intros H. apply derives_single_N in H. destruct H as (r & Hr & Hl & Hd).
    exists {| ir := r; idot := length (rhs r); iorg := 0 |}. split.
    + apply Item_complete. repeat split; cbn [ir idot iorg]; auto.
      exists [], w. repeat split; auto.
      * rewrite Hl. constructor.
      * unfold before; cbn [ir idot]. now rewrite firstn_all.
    + repeat split; cbn [ir idot iorg]; auto. unfold after; cbn [ir idot]. apply skipn_all.
Qed.

End G.
