(* Containers: executable models of the three containers of yaep, faithful to
   hashtab.c / objstack.c / vlobject.c in what the property is about
   (probe sequence, reservation, re-use of deleted slots, expansion; segment
   chain and the moving top object; realloc-style growth).  The expansion test,
   the new size and the secondary hash are the expressions regenerated from the
   sources (Generated.v). *)
From YV Require Import Prelude Generated.

(* ================= hash table ================= *)
Inductive slot := Empty | Deleted | Full (k : nat).

Record ht := { entries : list slot; nel : nat; ndel : nat;
               hmul : nat; hmod : nat }.          (* hash (k) = hmod ? (k * hmul) mod hmod : k * hmul *)

Definition size (t : ht) : nat := length (entries t).
Definition hash (t : ht) (k : nat) : nat :=
  match hmod t with O => k * hmul t | m => (k * hmul t) mod m end.

(* trial division as in higher_prime_number: n odd, i = 3, 5, ... while i*i <= n *)
Fixpoint odd_divisor_from (fuel i n : nat) : bool :=
  match fuel with
  | O => false
  | S f => if Nat.ltb n (i * i) then false
           else if Nat.eqb (n mod i) 0 then true else odd_divisor_from f (i + 2) n
  end.
Definition c_prime_test (n : nat) : bool := negb (odd_divisor_from n 3 n).
Fixpoint next_prime (fuel n : nat) : option nat :=
  match fuel with
  | O => None
  | S f => if c_prime_test n then Some n else next_prime f (n + 2)
  end.
Definition higher_prime (n : nat) : option nat := next_prime (n + 8) ((n / 2) * 2 + 3).

Definition need_expand (sz n : nat) : bool := ht_need_expand_c (Z.of_nat sz) (Z.of_nat n).
Definition step_of (sz h : nat) : nat := Z.to_nat (ht_step_c (Z.of_nat sz) (Z.of_nat h)).
Definition new_size_of (n : nat) : nat := Z.to_nat (ht_new_size_c (Z.of_nat n)).

Definition create (sz a m : nat) : option ht :=
  match higher_prime sz with
  | Some p => Some {| entries := repeat Empty p; nel := 0; ndel := 0; hmul := a; hmod := m |}
  | None => None
  end.

Fixpoint set_nth {A} (n : nat) (x : A) (l : list A) : list A :=
  match l, n with
  | [], _ => []
  | _ :: l', O => x :: l'
  | y :: l', S n' => y :: set_nth n' x l'
  end.

(* the probe loop: returns the index handed out, and whether a reservation was counted *)
Fixpoint probe (fuel : nat) (es : list slot) (k idx stp : nat) (firstdel : option nat) (reserve : bool)
  : option (nat * bool (* reserved an empty/deleted slot *)) :=
  match fuel with
  | O => None
  | S f =>
      match nth idx es Empty with
      | Empty => Some (match firstdel with Some d => if reserve then d else idx | None => idx end, reserve)
      | Full k' => if Nat.eqb k' k then Some (idx, false)
                   else probe f es k (let i := idx + stp in if Nat.leb (length es) i then i - length es else i) stp firstdel reserve
      | Deleted => probe f es k (let i := idx + stp in if Nat.leb (length es) i then i - length es else i) stp
                         (match firstdel with None => Some idx | s => s end) reserve
      end
  end.

(* find_hash_table_entry without the expansion test *)
Definition find_noexp (t : ht) (k : nat) (reserve : bool) : option (ht * nat) :=
  let h := hash t k in
  let sz := size t in
  match probe (S sz) (entries t) k (h mod sz) (step_of sz h) None reserve with
  | Some (i, true) =>
      (* a reservation: the counter grows; a re-used deleted slot is emptied first *)
      Some ({| entries := set_nth i Empty (entries t); nel := S (nel t); ndel := ndel t; hmul := hmul t; hmod := hmod t |}, i)
  | Some (i, false) => Some (t, i)
  | None => None
  end.

Definition put (t : ht) (i : nat) (s : slot) : ht :=
  {| entries := set_nth i s (entries t); nel := nel t; ndel := ndel t; hmul := hmul t; hmod := hmod t |}.

Definition fulls (es : list slot) : list nat :=
  flat_map (fun s => match s with Full k => [k] | _ => [] end) es.

(* expand_hash_table: a fresh table of the new size, every element re-inserted *)
Definition expand (t : ht) : option ht :=
  match create (new_size_of (nel t)) (hmul t) (hmod t) with
  | Some t0 =>
      fold_left (fun acc k => match acc with
                              | Some a => match find_noexp a k true with
                                          | Some (a', i) => Some (put a' i (Full k))
                                          | None => None end
                              | None => None end) (fulls (entries t)) (Some t0)
  | None => None
  end.

Definition find (t : ht) (k : nat) (reserve : bool) : option (ht * nat) :=
  if need_expand (size t) (nel t)
  then match expand t with Some t' => find_noexp t' k reserve | None => None end
  else find_noexp t k reserve.

Inductive hop := HFind (k : nat) | HInsert (k : nat) | HRemove (k : nat) | HEmpty | HNum | HSize.

(* one operation: new table and what the caller observes
   (find: 1 present / 0 absent; insert: 1 inserted / 0 was there; counters) *)
Definition hstep (t : ht) (o : hop) : option (ht * option nat) :=
  match o with
  | HFind k => match find t k false with
               | Some (t', i) => Some (t', Some (match nth i (entries t') Empty with Full _ => 1 | _ => 0 end))
               | None => None end
  | HInsert k => match find t k true with
                 | Some (t', i) => match nth i (entries t') Empty with
                                   | Full _ => Some (t', Some 0)
                                   | _ => Some (put t' i (Full k), Some 1)
                                   end
                 | None => None end
  | HRemove k => match find t k false with
                 | Some (t', i) => Some ({| entries := set_nth i Deleted (entries t'); nel := nel t'; ndel := S (ndel t');
                                            hmul := hmul t'; hmod := hmod t' |}, None)
                 | None => None end
  | HEmpty => Some ({| entries := repeat Empty (size t); nel := 0; ndel := 0; hmul := hmul t; hmod := hmod t |}, None)
  | HNum => Some (t, Some (nel t - ndel t))
  | HSize => Some (t, Some (size t))
  end.

Fixpoint hrun (t : ht) (os : list hop) : option (list (option nat)) :=
  match os with
  | [] => Some []
  | o :: os' => match hstep t o with
                | Some (t', r) => match hrun t' os' with Some rs => Some (r :: rs) | None => None end
                | None => None end
  end.

(* ================= variable length object ================= *)
Record vlo := { vcap : nat; vdata : list nat }.
Definition vlo_default : nat := 8.    (* the harness compiles with -DVLO_DEFAULT_LENGTH=8 *)
Definition grow (need : nat) : nat := need + need / 2 + 1.
Inductive vop := VAdd (bs : list nat) | VExpand (n : nat) | VShorten (n : nat) | VNullify | VTailor | VDump.
Definition vcreate (len : nat) : vlo := {| vcap := if Nat.eqb len 0 then vlo_default else len; vdata := [] |}.
Definition vappend (v : vlo) (bs : list nat) : vlo :=
  let need := length (vdata v) + length bs in
  {| vcap := if Nat.ltb (vcap v) need then grow need else vcap v; vdata := vdata v ++ bs |}.
Definition vstep (v : vlo) (o : vop) : vlo * option (list nat) :=
  match o with
  | VAdd bs => (vappend v bs, None)
  | VExpand n => (vappend v (repeat 238 n), None)
  | VShorten n => ({| vcap := vcap v; vdata := if Nat.ltb (length (vdata v)) n then [] else firstn (length (vdata v) - n) (vdata v) |}, None)
  | VNullify => ({| vcap := vcap v; vdata := [] |}, None)
  | VTailor => ({| vcap := Nat.max 1 (length (vdata v)); vdata := vdata v |}, None)
  | VDump => (v, Some (vdata v))
  end.
Fixpoint vrun (v : vlo) (os : list vop) : list (list nat) :=
  match os with
  | [] => []
  | o :: os' => let '(v', r) := vstep v o in match r with Some d => d :: vrun v' os' | None => vrun v' os' end
  end.

(* ================= object stack ================= *)
Record seg := { sid : nat; scap : nat; sbytes : list nat }.
Record ostack := { segs : list seg;            (* head = current segment *)
                   ostart : nat;               (* offset of the top object in the current segment *)
                   next_id : nat;
                   init_len : nat;
                   finished : list (nat * nat * nat) }.   (* segment id, offset, length - newest first *)
Definition os_default : nat := 16.    (* -DOS_DEFAULT_SEGMENT_LENGTH=16 *)
Definition align8 (n : nat) : nat := ((n + 7) / 8) * 8.
Definition cur (o : ostack) : seg := hd {| sid := 0; scap := 0; sbytes := [] |} (segs o).
Definition top_bytes (o : ostack) : list nat := skipn (ostart o) (sbytes (cur o)).
Definition ocreate (len : nat) : ostack :=
  let l := if Nat.eqb len 0 then os_default else len in
  {| segs := [{| sid := 0; scap := l; sbytes := [] |}]; ostart := 0; next_id := 1; init_len := l; finished := [] |}.

(* _OS_expand_memory: a new current segment holding a copy of the top object;
   the old current segment is released iff the top object started it *)
Definition oexpand (o : ostack) (add : nat) : ostack :=
  let top := top_bytes o in
  let need := length top + add in
  let len := Nat.max os_default (need + need / 2 + 1) in
  let news := {| sid := next_id o; scap := len; sbytes := top |} in
  {| segs := news :: (if Nat.eqb (ostart o) 0 then tl (segs o) else segs o);
     ostart := 0; next_id := S (next_id o); init_len := init_len o; finished := finished o |}.

Definition set_cur_bytes (o : ostack) (bs : list nat) : ostack :=
  {| segs := {| sid := sid (cur o); scap := scap (cur o); sbytes := bs |} :: tl (segs o);
     ostart := ostart o; next_id := next_id o; init_len := init_len o; finished := finished o |}.

Definition oappend (o : ostack) (bs : list nat) : ostack :=
  let o1 := if Nat.ltb (scap (cur o)) (length (sbytes (cur o)) + length bs) then oexpand o (length bs) else o in
  set_cur_bytes o1 (sbytes (cur o1) ++ bs).

Inductive oop := OAdd (bs : list nat) | OExpand (n : nat) | OShorten (n : nat) | ONullify | OFinish | OEmpty | ODumpTop | OCheck.

Definition read_obj (o : ostack) (f : nat * nat * nat) : option (list nat) :=
  let '(id, off, len) := f in
  match List.find (fun s => Nat.eqb (sid s) id) (segs o) with
  | Some s => Some (firstn len (skipn off (sbytes s)))
  | None => if Nat.eqb len 0 then Some [] else None
  end.

Definition ostep (o : ostack) (p : oop) : ostack * option (list (list nat)) :=
  match p with
  | OAdd bs => (oappend o bs, None)
  | OExpand n => (oappend o (repeat 238 n), None)
  | OShorten n =>
      let top := top_bytes o in
      let keep := if Nat.ltb (length top) n then 0 else length top - n in
      (set_cur_bytes o (firstn (ostart o + keep) (sbytes (cur o))), None)
  | ONullify => (set_cur_bytes o (firstn (ostart o) (sbytes (cur o))), None)
  | OFinish =>
      let used := length (sbytes (cur o)) in
      let o1 := set_cur_bytes o (sbytes (cur o) ++ repeat 0 (align8 used - used)) in
      ({| segs := segs o1; ostart := align8 used; next_id := next_id o; init_len := init_len o;
          finished := (sid (cur o), ostart o, used - ostart o) :: finished o |}, None)
  | OEmpty =>
      let first := last (segs o) (cur o) in
      ({| segs := [{| sid := sid first; scap := init_len o; sbytes := [] |}]; ostart := 0; next_id := next_id o;
          init_len := init_len o; finished := [] |}, None)
  | ODumpTop => (o, Some [top_bytes o])
  | OCheck => (o, Some (map (fun f => match read_obj o f with Some b => b | None => [999] end) (rev (finished o))))
  end.

Fixpoint orun (o : ostack) (ps : list oop) : list (list (list nat)) :=
  match ps with
  | [] => []
  | p :: ps' => let '(o', r) := ostep o p in match r with Some d => d :: orun o' ps' | None => orun o' ps' end
  end.
