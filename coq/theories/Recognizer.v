(* Recognizer: an executable textbook Earley recogniser.
     - the sets are built by scan / predict / complete to a fixpoint (fuelled);
     - soundness of everything that is built: In i (S_k) -> Item (firstn k w) i;
     - completeness through a *certificate*: the four closure conditions are
       checked on the finished sets by boolean functions; when they hold, every
       declarative item is in its set (induction on Item).
   Result: recognize g ax w = Some b -> (b = true <-> sentence g ax w).
   [None] means the fuel did not suffice (excluded by the statement; the
   harness reports it as a model error, never as a verdict). *)
From YV Require Import Prelude EarleySpec.

Definition symbol_eqb (s1 s2 : symbol) : bool :=
  match s1, s2 with
  | T a, T b => Nat.eqb a b
  | N a, N b => Nat.eqb a b
  | _, _ => false
  end.
Lemma symbol_eqb_spec s1 s2 : symbol_eqb s1 s2 = true <-> s1 = s2.
Proof.
  destruct s1, s2; simpl; rewrite ?Nat.eqb_eq; split; intros H; try discriminate; try congruence.
Qed.

Fixpoint list_eqb {A} (e : A -> A -> bool) (l1 l2 : list A) : bool :=
  match l1, l2 with
  | [], [] => true
  | x :: l1, y :: l2 => e x y && list_eqb e l1 l2
  | _, _ => false
  end.
Lemma list_eqb_spec {A} (e : A -> A -> bool) (He : forall x y, e x y = true <-> x = y) l1 l2 :
  list_eqb e l1 l2 = true <-> l1 = l2.
Proof.
  revert l2; induction l1 as [|x l1 IH]; intros [|y l2]; simpl; split; intros H; try discriminate; auto.
  - apply andb_true_iff in H. destruct H as [H1 H2]. apply He in H1. apply IH in H2. congruence.
  - injection H as -> ->. apply andb_true_iff. split; [now apply He | now apply IH].
Qed.

Definition rule_eqb (r1 r2 : rule) : bool :=
  Nat.eqb (lhs r1) (lhs r2) && list_eqb symbol_eqb (rhs r1) (rhs r2).
Lemma rule_eqb_spec r1 r2 : rule_eqb r1 r2 = true <-> r1 = r2.
Proof.
  unfold rule_eqb. rewrite andb_true_iff, Nat.eqb_eq, (list_eqb_spec _ symbol_eqb_spec).
  destruct r1, r2; simpl. split; [intros [-> ->]; auto | intros H; injection H; auto].
Qed.

Definition item_eqb (i1 i2 : item) : bool :=
  rule_eqb (ir i1) (ir i2) && Nat.eqb (idot i1) (idot i2) && Nat.eqb (iorg i1) (iorg i2).
Lemma item_eqb_spec i1 i2 : item_eqb i1 i2 = true <-> i1 = i2.
Proof.
  unfold item_eqb. rewrite !andb_true_iff, !Nat.eqb_eq, rule_eqb_spec.
  destruct i1, i2; simpl. split; [intros [[-> ->] ->]; auto | intros H; injection H; auto].
Qed.

Definition next_sym (i : item) : option symbol := nth_error (rhs (ir i)) (idot i).

Lemma nth_error_skipn {A} (l : list A) n : nth_error l n = hd_error (skipn n l).
Proof. revert l; induction n as [|n IH]; intros [|x l]; simpl; auto. Qed.

Lemma next_sym_after i s : next_sym i = Some s <-> exists be, after i = s :: be.
Proof.
  unfold next_sym, after. rewrite nth_error_skipn.
  destruct (skipn (idot i) (rhs (ir i))) as [|y l]; simpl; split.
  - discriminate.
  - intros (be & H); discriminate.
  - intros H; injection H as ->; eauto.
  - intros (be & H); injection H as -> _; auto.
Qed.
Lemma next_sym_none i : next_sym i = None <-> after i = [].
Proof.
  unfold next_sym, after. rewrite nth_error_skipn.
  destruct (skipn (idot i) (rhs (ir i))); simpl; split; auto; discriminate.
Qed.

Section R.
Variable g : grammar.
Variable axiom : nat.
Variable w : list nat.
Notation pre k := (firstn k w).
Notation Item := (Item g axiom).

Definition init_items : list item :=
  map (fun r => {| ir := r; idot := 0; iorg := 0 |}) (filter (fun r => Nat.eqb (lhs r) axiom) g).

Definition predict_of (k : nat) (i : item) : list item :=
  match next_sym i with
  | Some (N x) => map (fun r => {| ir := r; idot := 0; iorg := k |}) (filter (fun r => Nat.eqb (lhs r) x) g)
  | _ => []
  end.

Definition advance_over (x : nat) (src : list item) : list item :=
  flat_map (fun i => match next_sym i with
                     | Some (N y) => if Nat.eqb x y then [adv i] else []
                     | _ => [] end) src.

Definition complete_of (prev : list (list item)) (k : nat) (cur : list item) (c : item) : list item :=
  match next_sym c with
  | None => advance_over (lhs (ir c)) (if Nat.eqb (iorg c) k then cur else nth (iorg c) prev [])
  | _ => []
  end.

Definition step1 (prev : list (list item)) (k : nat) (cur : list item) : list item :=
  add_all item_eqb (flat_map (predict_of k) cur ++ flat_map (complete_of prev k cur) cur) cur.

Fixpoint close (fuel : nat) (prev : list (list item)) (k : nat) (cur : list item) : list item :=
  match fuel with
  | 0 => cur
  | S f => let cur' := step1 prev k cur in
           if Nat.eqb (length cur') (length cur) then cur else close f prev k cur'
  end.

Definition scan_of (a : nat) (src : list item) : list item :=
  flat_map (fun i => match next_sym i with
                     | Some (T b) => if Nat.eqb a b then [adv i] else []
                     | _ => [] end) src.

Definition fuel_for (k : nat) : nat :=
  S (fold_right (fun r acc => S (length (rhs r)) + acc) 0 g * S k).

Fixpoint build (rest : list nat) (k : nat) (prev : list (list item)) (cur : list item) : list (list item) :=
  let cur' := close (fuel_for k) prev k cur in
  match rest with
  | [] => prev ++ [cur']
  | a :: rest' => build rest' (S k) (prev ++ [cur']) (add_all item_eqb (scan_of a cur') [])
  end.

Definition earley_sets : list (list item) := build w 0 [] (add_all item_eqb init_items []).

(* ---------------- soundness of the construction ---------------- *)

Lemma pre_split k p1 p2 : k <= length w -> pre k = p1 ++ p2 -> p1 = pre (length p1) /\ length p1 <= k.
Proof.
  intros Hk H.
  assert (Hl : length (p1 ++ p2) = k) by (rewrite <- H, firstn_length; lia).
  rewrite app_length in Hl. split; [|lia].
  assert (E : firstn (length p1) (p1 ++ p2) = firstn (length p1) (pre k)) by now rewrite H.
  rewrite firstn_app, Nat.sub_diag, firstn_all, firstn_firstn in E. simpl in E.
  rewrite app_nil_r in E. replace (Nat.min (length p1) k) with (length p1) in E by lia. exact E.
Qed.

Lemma predict_of_sound k i j : k <= length w -> Item (pre k) i -> In j (predict_of k i) -> Item (pre k) j.
Proof.
  intros Hk Hi Hj. unfold predict_of in Hj.
  destruct (next_sym i) as [[a|x]|] eqn:E; try contradiction.
  apply in_map_iff in Hj. destruct Hj as (r & <- & Hr). apply filter_In in Hr. destruct Hr as [Hr Hl].
  apply Nat.eqb_eq in Hl. apply next_sym_after in E. destruct E as (be & E).
  replace k with (length (pre k)) at 2 by (rewrite firstn_length; lia).
  eapply I_pred; eauto.
Qed.

Lemma advance_over_In x src j : In j (advance_over x src) <->
  exists i, In i src /\ next_sym i = Some (N x) /\ j = adv i.
Proof.
  unfold advance_over. rewrite in_flat_map. split.
  - intros (i & Hi & Hj). destruct (next_sym i) as [[a|y]|] eqn:E; try contradiction.
    destruct (Nat.eqb_spec x y) as [->|]; [|contradiction]. destruct Hj as [<-|[]]. eauto.
  - intros (i & Hi & E & ->). exists i. split; auto. rewrite E, Nat.eqb_refl. now left.
Qed.

Lemma complete_of_sound prev k cur c j :
  k <= length w ->
  (forall o i, o < k -> In i (nth o prev []) -> Item (pre o) i) ->
  (forall i, In i cur -> Item (pre k) i) ->
  In c cur -> In j (complete_of prev k cur c) -> Item (pre k) j.
Proof.
  intros Hk Hprev Hcur Hc Hj. unfold complete_of in Hj.
  destruct (next_sym c) eqn:E; [contradiction|]. apply next_sym_none in E.
  apply advance_over_In in Hj. destruct Hj as (i & Hi & Hn & ->).
  apply next_sym_after in Hn. destruct Hn as (be & Hn).
  assert (Hcv := Item_sound _ _ _ _ (Hcur _ Hc)).
  destruct Hcv as (_ & _ & p1 & p2 & Hp & Hlen & _ & _).
  destruct (pre_split _ _ _ Hk Hp) as (Hp1 & Hle).
  rewrite Hp. eapply I_comp with (c := c) (be := be); eauto.
  - destruct (Nat.eqb_spec (iorg c) k) as [Heq|Hne].
    + assert (p2 = []).
      { assert (length (p1 ++ p2) = k) by (rewrite <- Hp, firstn_length; lia).
        rewrite app_length in H. destruct p2; auto. simpl in H. lia. }
      subst p2. rewrite app_nil_r in Hp. rewrite <- Hp. now apply Hcur.
    + rewrite Hp1, Hlen. apply Hprev; [lia | exact Hi].
  - rewrite <- Hp. now apply Hcur.
Qed.

Lemma step1_sound prev k cur :
  k <= length w ->
  (forall o i, o < k -> In i (nth o prev []) -> Item (pre o) i) ->
  (forall i, In i cur -> Item (pre k) i) ->
  forall j, In j (step1 prev k cur) -> Item (pre k) j.
Proof.
  intros Hk Hprev Hcur j Hj. unfold step1 in Hj.
  apply (add_all_In item_eqb item_eqb_spec) in Hj. destruct Hj as [Hj|Hj]; auto.
  apply in_app_iff in Hj. destruct Hj as [Hj|Hj]; apply in_flat_map in Hj; destruct Hj as (i & Hi & Hj).
  - eapply predict_of_sound; eauto.
  - eapply complete_of_sound; eauto.
Qed.

Lemma close_sound fuel : forall prev k cur,
  k <= length w ->
  (forall o i, o < k -> In i (nth o prev []) -> Item (pre o) i) ->
  (forall i, In i cur -> Item (pre k) i) ->
  forall j, In j (close fuel prev k cur) -> Item (pre k) j.
Proof.
  induction fuel as [|f IH]; intros prev k cur Hk Hprev Hcur j Hj; cbn [close] in Hj; auto.
  destruct (Nat.eqb _ _); auto.
  eapply (IH prev k (step1 prev k cur)); eauto.
  intros i Hi. eapply step1_sound; eauto.
Qed.

Lemma scan_of_In a src j : In j (scan_of a src) <-> exists i, In i src /\ next_sym i = Some (T a) /\ j = adv i.
Proof.
  unfold scan_of. rewrite in_flat_map. split.
  - intros (i & Hi & Hj). destruct (next_sym i) as [[b|y]|] eqn:E; try contradiction.
    destruct (Nat.eqb_spec a b) as [->|]; [|contradiction]. destruct Hj as [<-|[]]. eauto.
  - intros (i & Hi & E & ->). exists i. split; auto. rewrite E, Nat.eqb_refl. now left.
Qed.

Lemma build_sound rest : forall k prev cur,
  w = pre k ++ rest -> length prev = k -> k <= length w ->
  (forall o i, o < k -> In i (nth o prev []) -> Item (pre o) i) ->
  (forall i, In i cur -> Item (pre k) i) ->
  forall o i, In i (nth o (build rest k prev cur) []) -> Item (pre o) i.
Proof.
  induction rest as [|a rest IH]; intros k prev cur Hw Hlen Hk Hprev Hcur o i Hi; cbn [build] in Hi.
  - destruct (Nat.lt_ge_cases o k) as [Hlt|Hge].
    + rewrite app_nth1 in Hi by lia. now apply Hprev.
    + rewrite app_nth2 in Hi by lia. destruct (o - length prev) as [|m] eqn:E; cbn [nth] in Hi.
      * assert (o = k) by lia. subst o. eapply close_sound; eauto.
      * destruct m; contradiction.
  - assert (Hk' : S k <= length w).
    { pose proof (f_equal (@length nat) Hw) as E. rewrite app_length, firstn_length in E. simpl in E. lia. }
    assert (Hpre : pre (S k) = pre k ++ [a]).
    { rewrite Hw at 1. rewrite firstn_app, firstn_firstn, firstn_length.
      replace (Nat.min (S k) k) with k by lia. replace (S k - Nat.min k (length w)) with 1 by lia. reflexivity. }
    eapply (IH (S k) (prev ++ [close (fuel_for k) prev k cur])); eauto.
    + rewrite Hpre, <- app_assoc. exact Hw.
    + rewrite app_length; simpl; lia.
    + intros o' i' Ho' Hi'. destruct (Nat.lt_ge_cases o' k) as [Hlt|Hge].
      * rewrite app_nth1 in Hi' by lia. now apply Hprev.
      * assert (o' = k) by lia. subst o'. rewrite app_nth2, Hlen, Nat.sub_diag in Hi' by lia.
        cbn [nth] in Hi'. eapply close_sound; eauto.
    + intros i' Hi'. apply (add_all_In item_eqb item_eqb_spec) in Hi'. destruct Hi' as [[]|Hi'].
      apply scan_of_In in Hi'. destruct Hi' as (i0 & Hi0 & Hn & ->).
      apply next_sym_after in Hn. destruct Hn as (be & Hn).
      rewrite Hpre. eapply I_scan; eauto. eapply close_sound; eauto.
Qed.

Theorem earley_sets_sound o i : In i (nth o earley_sets []) -> Item (pre o) i.
Proof.
  unfold earley_sets. apply build_sound; auto; try lia.
  intros i' Hi'. apply (add_all_In item_eqb item_eqb_spec) in Hi'. destruct Hi' as [[]|Hi'].
  unfold init_items in Hi'. apply in_map_iff in Hi'. destruct Hi' as (r & <- & Hr).
  apply filter_In in Hr. destruct Hr as [Hr Hl]. apply Nat.eqb_eq in Hl. simpl. now constructor.
Qed.

(* ---------------- the certificate ---------------- *)

Variable S : list (list item).
Notation S_ k := (nth k S []).
Definition inb (i : item) (l : list item) : bool := memb item_eqb i l.
Lemma inb_In i l : inb i l = true <-> In i l.
Proof. apply memb_In, item_eqb_spec. Qed.

Definition chk_init : bool :=
  forallb (fun r => negb (Nat.eqb (lhs r) axiom) || inb {| ir := r; idot := 0; iorg := 0 |} (S_ 0)) g.

Definition chk_item (k : nat) (i : item) : bool :=
  match next_sym i with
  | Some (T a) =>
      match nth_error w k with
      | Some b => negb (Nat.eqb a b) || inb (adv i) (S_ (Datatypes.S k))
      | None => true
      end
  | Some (N x) =>
      forallb (fun r => negb (Nat.eqb (lhs r) x) || inb {| ir := r; idot := 0; iorg := k |} (S_ k)) g
  | None =>
      forallb (fun j => match next_sym j with
                        | Some (N y) => negb (Nat.eqb y (lhs (ir i))) || inb (adv j) (S_ k)
                        | _ => true end) (S_ (iorg i))
  end.

Definition chk_set (k : nat) : bool := forallb (chk_item k) (S_ k).
Definition cert_ok : bool := chk_init && forallb chk_set (seq 0 (Datatypes.S (length w))).

Lemma negb_or_imp a b : negb a || b = true <-> (a = true -> b = true).
Proof. destruct a, b; simpl; intuition. Qed.

Lemma pre_snoc_inv p a k : k <= length w -> p ++ [a] = pre k ->
  exists k', k = Datatypes.S k' /\ p = pre k' /\ nth_error w k' = Some a /\ k' < length w.
Proof.
  intros Hk H.
  assert (Hl : length (p ++ [a]) = k) by (rewrite H, firstn_length; lia).
  rewrite app_length in Hl; simpl in Hl.
  exists (length p). split; [lia|].
  symmetry in H. destruct (pre_split _ _ _ Hk H) as (Hp & _).
  split; [exact Hp|]. split; [|lia].
  assert (E : nth_error (p ++ [a]) (length p) = nth_error (pre k) (length p)) by now rewrite H.
  rewrite nth_error_app2, Nat.sub_diag in E by lia. simpl in E.
  rewrite <- (firstn_skipn k w) at 1.
  rewrite nth_error_app1; [now symmetry|]. rewrite firstn_length. lia.
Qed.

Theorem cert_complete : cert_ok = true ->
  forall p i, Item p i -> forall k, k <= length w -> p = pre k -> In i (S_ k).
Proof.
  intros C. unfold cert_ok in C. apply andb_true_iff in C. destruct C as [Cinit Csets].
  assert (Cset : forall k i, k <= length w -> In i (S_ k) -> chk_item k i = true).
  { intros k i Hk Hi. rewrite forallb_forall in Csets.
    assert (Hs : chk_set k = true) by (apply Csets, in_seq; lia).
    unfold chk_set in Hs. rewrite forallb_forall in Hs. auto. }
  induction 1 as [r Hr Hax | p i a be Hi IH Ha | p i x be r Hi IH Ha Hr Hl
                 | p1 p2 i c be Hi IHi Ha Hc IHc Hcn Hco]; intros k Hk Hp.
  - assert (k = 0).
    { destruct k; auto. destruct w; simpl in *; [lia | discriminate]. }
    subst k. unfold chk_init in Cinit. rewrite forallb_forall in Cinit.
    specialize (Cinit r Hr). rewrite negb_or_imp in Cinit. apply inb_In, Cinit. now apply Nat.eqb_eq.
  - destruct (pre_snoc_inv _ _ _ Hk Hp) as (k' & -> & Hp' & Hn & Hlt).
    assert (Hi' : In i (S_ k')) by (apply IH; auto; lia).
    assert (Hc := Cset k' i ltac:(lia) Hi'). unfold chk_item in Hc.
    assert (E : next_sym i = Some (T a)) by (apply next_sym_after; eauto).
    rewrite E, Hn in Hc. rewrite negb_or_imp in Hc. apply inb_In, Hc, Nat.eqb_refl.
  - assert (Hi' : In i (S_ k)) by (apply IH; auto).
    assert (Hc := Cset k i Hk Hi'). unfold chk_item in Hc.
    assert (E : next_sym i = Some (N x)) by (apply next_sym_after; eauto).
    rewrite E in Hc. rewrite forallb_forall in Hc. specialize (Hc r Hr).
    rewrite negb_or_imp in Hc.
    rewrite Hp, firstn_length, Nat.min_l by lia. apply inb_In, Hc. now apply Nat.eqb_eq.
  - destruct (pre_split _ _ _ Hk (eq_sym Hp)) as (Hp1 & Hle).
    assert (Hi1 : In i (S_ (length p1))) by (apply IHi; auto; lia).
    assert (Hck : In c (S_ k)) by (apply IHc; auto).
    assert (Hc' := Cset k c Hk Hck). unfold chk_item in Hc'.
    assert (E : next_sym c = None) by now apply next_sym_none.
    rewrite E in Hc'. rewrite forallb_forall in Hc'. rewrite Hco in Hc'.
    specialize (Hc' i Hi1).
    assert (E' : next_sym i = Some (N (lhs (ir c)))) by (apply next_sym_after; eauto).
    rewrite E' in Hc'. rewrite negb_or_imp in Hc'. apply inb_In, Hc', Nat.eqb_refl.
Qed.

End R.

(* ---------------- the decider ---------------- *)

Definition final_b (axiom : nat) (i : item) : bool :=
  Nat.eqb (lhs (ir i)) axiom && Nat.eqb (iorg i) 0 && match next_sym i with None => true | _ => false end.

Lemma final_b_spec axiom i : final_b axiom i = true <-> final axiom i.
Proof.
  unfold final_b, final. rewrite !andb_true_iff, !Nat.eqb_eq.
  destruct (next_sym i) eqn:E.
  - split; [intros [_ H]; discriminate|]. intros (_ & H & _). apply next_sym_none in H. congruence.
  - apply next_sym_none in E. tauto.
Qed.

Definition recognize (g : grammar) (axiom : nat) (w : list nat) : option bool :=
  let S := earley_sets g axiom w in
  if cert_ok g axiom w S then Some (existsb (final_b axiom) (nth (length w) S [])) else None.

Theorem recognize_correct g axiom w b :
  recognize g axiom w = Some b -> (b = true <-> sentence g axiom w).
Proof.
  unfold recognize. destruct (cert_ok _ _ _ _) eqn:C; [|discriminate]. intros H; injection H as <-.
  rewrite <- accept_iff, existsb_exists. split.
  - intros (i & Hi & Hf). exists i. split; [|now apply final_b_spec].
    apply earley_sets_sound in Hi. now rewrite firstn_all in Hi.
  - intros (i & Hi & Hf). exists i. split; [|now apply final_b_spec].
    eapply cert_complete; eauto. now rewrite firstn_all.
Qed.

(* How many leading tokens of w can be shifted: the largest k such that every
   prefix of length <= k has an item, i.e. every one of the first k tokens
   found an item with that terminal after the dot. *)
Fixpoint count_nonempty (sets : list (list item)) : nat :=
  match sets with
  | (_ :: _) :: rest => S (count_nonempty rest)
  | _ => 0
  end.

Definition shift_count (g : grammar) (axiom : nat) (w : list nat) : option (nat * bool) :=
  let S := earley_sets g axiom w in
  if cert_ok g axiom w S
  then Some (pred (count_nonempty S), existsb (final_b axiom) (nth (length w) S []))
  else None.

Lemma count_nonempty_spec sets : forall j, j < count_nonempty sets -> nth j sets [] <> [].
Proof.
  induction sets as [|s sets IH]; intros j Hj; simpl in *; [lia|].
  destruct s as [|x s]; [lia|]. destruct j; simpl; [discriminate|]. apply IH. lia.
Qed.

Lemma count_nonempty_stop sets : count_nonempty sets < length sets -> nth (count_nonempty sets) sets [] = [].
Proof.
  induction sets as [|s sets IH]; simpl; intros H; [lia|].
  destruct s as [|x s]; auto. simpl. apply IH. lia.
Qed.

Lemma build_length g rest : forall k prev cur, length (build g rest k prev cur) = length prev + S (length rest).
Proof.
  induction rest as [|a rest IH]; intros k prev cur; cbn [build].
  - rewrite app_length. simpl. lia.
  - rewrite IH, app_length. simpl. lia.
Qed.

(* every one of the first k tokens can be shifted, and the (k+1)-th cannot *)
Theorem shift_count_spec g axiom w k acc : shift_count g axiom w = Some (k, acc) ->
  (forall j, j <= k -> j <= length w -> count_nonempty (earley_sets g axiom w) > 0 -> exists i, Item g axiom (firstn j w) i) /\
  (k < length w -> count_nonempty (earley_sets g axiom w) > 0 -> ~ exists i, Item g axiom (firstn (S k) w) i) /\
  (acc = true <-> sentence g axiom w).
Proof.
  unfold shift_count. destruct (cert_ok _ _ _ _) eqn:C; [|discriminate]. intros H; injection H as <- <-.
  set (S := earley_sets g axiom w) in *.
  split; [|split].
  - intros j Hj Hjw Hpos. assert (Hlt : j < count_nonempty S) by lia.
    pose proof (count_nonempty_spec S j Hlt) as Hne.
    destruct (nth j S []) as [|i l] eqn:E; [congruence|]. exists i.
    apply (earley_sets_sound g axiom w j i). fold S. rewrite E. now left.
  - intros Hk Hpos (i & Hi).
    assert (Hlen : length S = Datatypes.S (length w)) by (unfold S, earley_sets; rewrite build_length; simpl; lia).
    assert (Hstop : nth (count_nonempty S) S [] = []) by (apply count_nonempty_stop; lia).
    replace (Datatypes.S (pred (count_nonempty S))) with (count_nonempty S) in Hi by lia.
    assert (In i (nth (count_nonempty S) S [])).
    { eapply (cert_complete g axiom w S C); eauto. lia. }
    rewrite Hstop in H. contradiction.
  - rewrite <- accept_iff, existsb_exists. split.
    + intros (i & Hi & Hf). exists i. split; [|now apply final_b_spec].
      apply earley_sets_sound in Hi. now rewrite firstn_all in Hi.
    + intros (i & Hi & Hf). exists i. split; [|now apply final_b_spec].
      eapply cert_complete; eauto. now rewrite firstn_all.
Qed.

(* a non-trivial instance: S -> a S b | <empty> ; "aabb" is a sentence, "aab" is not *)
Example recognize_ex :
  let g := [ {| lhs := 0; rhs := [T 0; N 0; T 1] |}; {| lhs := 0; rhs := [] |} ] in
  recognize g 0 [0;0;1;1] = Some true /\ recognize g 0 [0;0;1] = Some false.
Proof. vm_compute. auto. Qed.
