(* Faults: the init / fin / flag protocol of yaep_parse around its setjmp.
   The protocol itself (calls and flag assignments before the handler is
   installed, the handler, the calls and flag assignments after it) is
   regenerated from yaep.c (Generated.parse_prologue / parse_handler /
   parse_body / parse_flags_volatile).  Model: a call named X_init acquires the
   working storage X, X_fin releases it, any call after the handler is installed
   may raise (a failing memory request or yaep_error); a raising X_init leaves X
   unacquired.  Theorem: for every raising point (and for none) the run ends
   with nothing released that was not acquired (no invalid memory touched),
   nothing acquired twice and nothing left acquired (no memory held) - provided
   the boolean check of the finitely many raising points succeeds, which
   GeneratedChecks proves by computation for the protocol in the source. *)
From YV Require Import Prelude Generated.
From Coq Require Import String.
Local Open Scope string_scope.

Definition ends_with (suf s : string) : bool :=
  let n := String.length s in let m := String.length suf in
  Nat.leb m n && String.eqb (substring (n - m) m s) suf.
Definition drop_suffix (suf s : string) : string := substring 0 (String.length s - String.length suf) s.

Inductive kind := KInit (r : string) | KFin (r : string) | KOther.
Definition classify (f : string) : kind :=
  if ends_with "_init" f then KInit (drop_suffix "_init" f)
  else if ends_with "_fin" f then KFin (drop_suffix "_fin" f)
  else KOther.

Record st := { held : list string; flags : list (string * bool);
               invalid : list string;     (* released although not acquired *)
               twice : list string }.     (* acquired although already acquired *)
Definition st0 : st := {| held := []; flags := []; invalid := []; twice := [] |}.

Definition smemb (x : string) (l : list string) : bool := existsb (String.eqb x) l.
Definition sremove (x : string) (l : list string) : list string := filter (fun y => negb (String.eqb x y)) l.

Definition run_call (raises : bool) (f : string) (s : st) : st :=
  match classify f with
  | KInit r => if raises then s
               else if smemb r (held s) then {| held := held s; flags := flags s; invalid := invalid s; twice := r :: twice s |}
               else {| held := r :: held s; flags := flags s; invalid := invalid s; twice := twice s |}
  | KFin r => if smemb r (held s) then {| held := sremove r (held s); flags := flags s; invalid := invalid s; twice := twice s |}
              else {| held := held s; flags := flags s; invalid := r :: invalid s; twice := twice s |}
  | KOther => s
  end.

Definition set_flag (f : string) (v : bool) (s : st) : st :=
  {| held := held s; flags := (f, v) :: flags s; invalid := invalid s; twice := twice s |}.
Fixpoint get_flag (f : string) (l : list (string * bool)) : bool :=
  match l with [] => false | (g, v) :: l' => if String.eqb f g then v else get_flag f l' end.

Definition run_pstep (p : pstep) (s : st) : st :=
  match p with PCall f => run_call false f s | PSet f v => set_flag f v s end.

(* a call that releases storage only frees memory: it makes no memory request and reports no error *)
Definition can_raise (f : string) : bool := match classify f with KFin _ => false | _ => true end.

(* the body: the i-th step raises when fa = Some i and it is a call that can raise *)
Fixpoint run_body (body : list pstep) (i : nat) (fa : option nat) (s : st) : bool * st :=
  match body with
  | [] => (false, s)
  | PSet f v :: rest => run_body rest (S i) fa (set_flag f v s)
  | PCall f :: rest =>
      if match fa with Some k => Nat.eqb k i | None => false end && can_raise f
      then (true, run_call true f s)
      else run_body rest (S i) fa (run_call false f s)
  end.

(* the handler reads the flags: their current values if they are volatile, otherwise
   (registers restored by longjmp) the values they had when the handler was installed *)
Definition run_hstep (seen : list (string * bool)) (h : hstep) (s : st) : st :=
  match h with
  | HCall f => run_call false f s
  | HIf flag f => if get_flag flag seen then run_call false f s else s
  end.

Definition exec (pre : list pstep) (hnd : list hstep) (body : list pstep) (vol : bool) (fa : option nat) : bool * st :=
  let s1 := fold_left (fun s p => run_pstep p s) pre st0 in
  let '(raised, s2) := run_body body 0 fa s1 in
  if raised then (true, fold_left (fun s h => run_hstep (if vol then flags s2 else flags s1) h s) hnd s2)
  else (false, s2).

Definition clean (s : st) : bool :=
  match held s, invalid s, twice s with [], [], [] => true | _, _, _ => false end.

Definition protocol_ok (pre : list pstep) (hnd : list hstep) (body : list pstep) (vol : bool) : bool :=
  clean (snd (exec pre hnd body vol None)) &&
  forallb (fun k => clean (snd (exec pre hnd body vol (Some k)))) (seq 0 (List.length body)).

Lemma run_body_late : forall body i k s, i + List.length body <= k -> run_body body i (Some k) s = run_body body i None s.
Proof.
  induction body as [|p body IH]; intros i k s H; cbn [run_body]; [reflexivity|].
  cbn [List.length] in H. destruct p as [f|f v].
  - destruct (Nat.eqb_spec k i) as [->|Hne]; [lia|]. cbn [andb]. apply IH. lia.
  - apply IH. lia.
Qed.

Theorem protocol_ok_all pre hnd body vol : protocol_ok pre hnd body vol = true ->
  forall fa, clean (snd (exec pre hnd body vol fa)) = true.
Proof.
  unfold protocol_ok. intros H fa. apply andb_prop in H. destruct H as [H0 H1].
  destruct fa as [k|]; [|exact H0].
  destruct (Nat.lt_ge_cases k (List.length body)) as [L|L].
  - rewrite forallb_forall in H1. apply H1. apply in_seq. lia.
  - unfold exec in *. rewrite run_body_late by (simpl; lia). exact H0.
Qed.

(* a raising call is reported: the run ends in the handler exactly when some call raised *)
Lemma run_body_raised body : forall i s, fst (run_body body i None s) = false.
Proof. induction body as [|[f|f v] body IH]; intros i s; cbn [run_body andb]; auto. Qed.

(* ---------- settings of the grammar across a parse that ends in the handler ----------
   The body of yaep_parse may assign some settings of the grammar ([changed]: make_parse clears one_parse_p while it
   builds all parses for the cost flag and puts it back on its normal exit only).  The prologue saves some settings in
   locals before the handler is installed ([saved]); the handler writes some locals back ([restored]).  A local that
   was never saved holds anything.  If every changed setting is restored and every restored one was saved, the
   settings after the handler are those before the call. *)
Definition gsettings := string -> Z.
Definition smem (f : string) (l : list string) : bool := existsb (String.eqb f) l.
Lemma smem_In f l : smem f l = true <-> In f l.
Proof.
  unfold smem. rewrite existsb_exists. split.
  - intros (x & Hx & E). apply String.eqb_eq in E. now subst.
  - intros H. exists f. split; auto. apply String.eqb_refl.
Qed.
Definition after_handler (restored : list string) (locals s' : gsettings) : gsettings :=
  fun f => if smem f restored then locals f else s' f.
Definition settings_kept (changed saved restored : list string) : bool :=
  forallb (fun f => smem f restored) changed && forallb (fun f => smem f saved) restored.

Theorem failed_parse_keeps_settings changed saved restored (s locals s' : gsettings) :
  settings_kept changed saved restored = true ->
  (forall f, In f saved -> locals f = s f) ->            (* the prologue saved them *)
  (forall f, ~ In f changed -> s' f = s f) ->            (* the body assigns only [changed] *)
  forall f, after_handler restored locals s' f = s f.
Proof.
  unfold settings_kept, after_handler. intros H Hl Hb f. apply andb_prop in H. destruct H as [H1 H2].
  rewrite forallb_forall in H1, H2.
  destruct (smem f restored) eqn:E.
  - apply Hl. apply smem_In. apply H2. apply smem_In. exact E.
  - apply Hb. intros Hc. apply H1 in Hc. congruence.
Qed.
