(* Side conditions of the property theorems on the facts regenerated from the
   C sources (Generated.v).  Each lemma is closed by computation or lia on the
   generated value; a source edit that invalidates one breaks this file. *)
From YV Require Import Prelude Generated.
Local Open Scope Z_scope.

Lemma clamp_ok : forall l, setter_store_0 l = Z.max 0 (Z.min 2 l).
Proof. intros l. unfold setter_store_0. destruct (Z.ltb_spec l 0); [lia|]. destruct (Z.ltb_spec 2 l); lia. Qed.

Lemma plain_setters_store : forall x,
  setter_store_1 x = x /\ setter_store_2 x = x /\ setter_store_3 x = x /\ setter_store_4 x = x /\ setter_store_5 x = x.
Proof. intros x. repeat split; reflexivity. Qed.

Lemma setters_return_old : forallb (fun b => b) setter_returns_old = true /\ length setter_returns_old = 6%nat.
Proof. vm_compute. auto. Qed.

Lemma defaults_ok : defaults = [1; 0; 1; 0; 1; 3] /\ default_undefined = 1 /\ default_error_code = 0 /\ default_message_empty = true.
Proof. vm_compute. auto. Qed.

Lemma cache_thr_ok : cache_thr <= 1.
Proof. vm_compute. discriminate. Qed.

Lemma reserved_codes_negative : END_MARKER_CODE < 0 /\ TERM_ERROR_CODE < 0 /\ END_MARKER_CODE <> TERM_ERROR_CODE.
Proof. vm_compute. repeat split; congruence. Qed.

Lemma error_codes_ok :
  YAEP_NO_MEMORY = 1 /\ YAEP_UNDEFINED_OR_BAD_GRAMMAR = 2 /\ YAEP_DESCRIPTION_SYNTAX_ERROR_CODE = 3 /\ YAEP_INVALID_TOKEN_CODE = 17.
Proof. vm_compute. auto. Qed.

(* the error message is written by a bounded primitive whose bound fits the buffer (MAX + 1 bytes) *)
Lemma message_bounded : exists b, msg_bounded_by = Some b /\ 0 < b <= MAX_ERROR_MESSAGE_LENGTH + 1.
Proof. exists MAX_ERROR_MESSAGE_LENGTH. vm_compute. split; [reflexivity | split; reflexivity || discriminate]. Qed.

(* Growth policy of the hash tables: a table expanded at n elements gets more
   than 2n entries (a prime above [ht_new_size n]); it is expanded again only
   when it holds about 1.5 n elements, so the sizes grow geometrically and the
   re-insertions of all expansions together are linear in the final size. *)
Lemma new_size_doubles : forall n, ht_new_size_c n = 2 * n /\ ht_new_size_cpp n = 2 * n.
Proof. intros n. unfold ht_new_size_c, ht_new_size_cpp. lia. Qed.

Lemma expansion_geometric : forall n size m, 0 <= n -> 0 <= m -> 2 * n < size ->
  ht_need_expand_c size m = true -> 3 * n <= 2 * m + 6.
Proof.
  intros n size m Hn Hm Hs H. unfold ht_need_expand_c in H. apply Z.leb_le in H. lia.
Qed.

Lemma expansion_geometric_cpp : forall n size m, 0 <= n -> 0 <= m -> 2 * n < size ->
  ht_need_expand_cpp size m = true -> 3 * n <= 2 * m + 6.
Proof.
  intros n size m Hn Hm Hs H. unfold ht_need_expand_cpp in H. apply Z.leb_le in H. lia.
Qed.

(* a table that is not expanded has a free entry for the element being reserved *)
Lemma no_expand_has_room : forall size m, 0 < size -> 0 <= m -> ht_need_expand_c size m = false -> m + 1 < size.
Proof.
  intros size m Hs Hm H. unfold ht_need_expand_c in H. apply Z.leb_gt in H. lia.
Qed.

Lemma probe_step_in_range : forall size h, 3 <= size -> 0 <= h -> 1 <= ht_step_c size h <= size - 2.
Proof. intros size h Hs Hh. unfold ht_step_c. lia. Qed.

(* the unwinding protocol of yaep_parse found in the source passes the check of all raising points:
   flags are volatile, nothing that allocates runs before the handler is installed *)
From YV Require Import Faults.
Lemma parse_protocol_ok : protocol_ok parse_prologue parse_handler parse_body parse_flags_volatile = true.
Proof. vm_compute. reflexivity. Qed.
Lemma parse_flags_are_volatile : parse_flags_volatile = true.
Proof. reflexivity. Qed.
Lemma parse_prologue_does_not_allocate : parse_prologue_allocating_calls = nil.
Proof. reflexivity. Qed.
(* every setting the library assigns during a parse is saved before setjmp and written back by the handler; the locals
   are not assigned again after setjmp (they would be indeterminate after longjmp) *)
Lemma parse_settings_kept :
  settings_kept settings_changed_during_parse settings_saved_before_setjmp settings_restored_by_handler = true /\
  saved_settings_reassigned_later = nil.
Proof. vm_compute. split; reflexivity. Qed.

(* the places compared by the validity test of the goto cache and the place the completer looks at *)
Lemma cache_indexes_ok : forall k p d,
  cache_index_now k p d = k + 1 - d /\ cache_index_then k p d = p + 1 - d /\ completion_place k d = k + 1 - d.
Proof. intros k p d. unfold cache_index_now, cache_index_then, completion_place. repeat split; lia. Qed.

(* both lookahead filters of build_new_set test the next token and exempt situations that `error' can follow *)
From Coq Require Import String.
Lemma la_filters_same : la_filter_scan = la_filter_complete /\
  In "grammar->term_error_num"%string la_filter_scan /\ In "lookahead_term_num"%string la_filter_scan.
Proof. vm_compute. repeat split; auto. Qed.

(* the validity test of the goto cache visits every start situation of the cached set *)
Lemma cache_check_loop_ok : cache_check_visits_all_start_sits = true.
Proof. reflexivity. Qed.

(* growth of the variable length object and of the object stack segment: the expressions of the C and of the C++
   source are the same and they are the ones of the container model (Containers.grow, the length in Containers.oexpand) *)
From YV Require Import Containers.
Lemma vlo_growth_same : forall len add, vlo_new_len_cpp len add = vlo_new_len_c len add.
Proof. reflexivity. Qed.
Lemma os_growth_same : forall len add dflt, os_new_seg_cpp len add dflt = os_new_seg_c len add dflt.
Proof. reflexivity. Qed.
Lemma vlo_growth_is_the_models : forall len add : nat,
  vlo_new_len_c (Z.of_nat len) (Z.of_nat add) = Z.of_nat (grow (len + add)).
Proof.
  intros len add. unfold vlo_new_len_c, grow. cbv zeta.
  rewrite !Nat2Z.inj_add. rewrite Nat2Z.inj_div. rewrite !Nat2Z.inj_add. simpl Z.of_nat. lia.
Qed.
Lemma os_growth_is_the_models : forall len add : nat,
  os_new_seg_c (Z.of_nat len) (Z.of_nat add) (Z.of_nat os_default) =
  Z.of_nat (Nat.max os_default ((len + add) + (len + add) / 2 + 1)).
Proof.
  intros len add. unfold os_new_seg_c. cbv zeta.
  set (need := (len + add)%nat).
  assert (E : (Z.of_nat len + Z.of_nat add + ((Z.of_nat len + Z.of_nat add) / 2 + 1)) = Z.of_nat (need + need / 2 + 1)%nat).
  { unfold need. rewrite !Nat2Z.inj_add. rewrite Nat2Z.inj_div. rewrite !Nat2Z.inj_add. simpl Z.of_nat. lia. }
  rewrite E. destruct (Z.ltb_spec (Z.of_nat (need + need / 2 + 1)%nat) (Z.of_nat os_default)).
  - rewrite Nat.max_l by lia. reflexivity.
  - rewrite Nat.max_r by lia. reflexivity.
Qed.
(* the new length leaves room for what is about to be added *)
Lemma vlo_growth_has_room : forall len add, 0 <= len -> 0 <= add -> len + add < vlo_new_len_c len add.
Proof. intros len add H1 H2. unfold vlo_new_len_c. cbv zeta. pose proof (Z.div_pos (len + add) 2). lia. Qed.
