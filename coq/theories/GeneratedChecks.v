(* Side conditions of the property theorems on the facts regenerated from the
   C sources (Generated.v).  Each lemma is closed by computation or lia on the
   generated value; a source edit that invalidates one breaks this file. *)
From YV Require Import Prelude Generated.
Local Open Scope Z_scope.

Lemma clamp_ok : forall l, setter_store_0 l = Z.max 0 (Z.min 2 l).
Proof. intros l. unfold setter_store_0. destruct (Z.ltb_spec l 0); [lia|]. destruct (Z.ltb_spec 2 l); lia. Qed.

Lemma plain_setters_store : forall x,
  setter_store_1 x = x /\ setter_store_2 x = x /\ setter_store_3 x = x /\ setter_store_4 x = x /\ setter_store_5 x = x.
Proof. intros x. repeat split; reflexivity. Qed.

Lemma setters_return_old : forallb (fun b => b) setter_returns_old = true /\ length setter_returns_old = 6%nat.
Proof. vm_compute. auto. Qed.

Lemma defaults_ok : defaults = [1; 0; 1; 0; 1; 3] /\ default_undefined = 1 /\ default_error_code = 0 /\ default_message_empty = true.
Proof. vm_compute. auto. Qed.

Lemma cache_thr_ok : cache_thr <= 1.
Proof. vm_compute. discriminate. Qed.

Lemma reserved_codes_negative : END_MARKER_CODE < 0 /\ TERM_ERROR_CODE < 0 /\ END_MARKER_CODE <> TERM_ERROR_CODE.
Proof. vm_compute. repeat split; congruence. Qed.

Lemma error_codes_ok :
  YAEP_NO_MEMORY = 1 /\ YAEP_UNDEFINED_OR_BAD_GRAMMAR = 2 /\ YAEP_DESCRIPTION_SYNTAX_ERROR_CODE = 3 /\ YAEP_INVALID_TOKEN_CODE = 17.
Proof. vm_compute. auto. Qed.
