(* Prune: minimal cost pruning of the all-parses DAG (prune_to_minimal in yaep.c) as a function on stores.
   [mc] is the cost the C function hands back through *cost: 0 for leaves, own cost plus the costs of the children
   for an abstract node, the least cost of the alternatives for a list of ALT nodes.  [pst] is the store after
   pruning: an ALT list keeps the alternatives whose cost is that least cost (all of them, or the first one when
   one parse is requested).  Theorems: [mc] is the least cost of a denoted tree; the pruned store denotes exactly
   the denoted trees of least cost (local choice at every list = global minimum, because alternatives are chosen
   independently at every occurrence and the cost is additive); with one parse it denotes exactly one of them;
   and the cumulative cost field of every abstract node is the cost of each tree denoted below it. *)
From YV Require Import Prelude EarleySpec Recognizer Translate Dag.
Local Open Scope Z_scope.

Fixpoint sum_opt (l : list (option Z)) : option Z :=
  match l with
  | [] => Some 0
  | Some a :: l' => match sum_opt l' with Some b => Some (a + b) | None => None end
  | None :: _ => None
  end.

Fixpoint mapi_from {A B} (f : nat -> A -> B) (i : nat) (l : list A) : list B :=
  match l with [] => [] | a :: l' => f i a :: mapi_from f (S i) l' end.

Lemma nth_error_mapi_from {A B} (f : nat -> A -> B) l : forall i k,
  nth_error (mapi_from f i l) k = option_map (f (i + k)%nat) (nth_error l k).
Proof.
  induction l as [|a l IH]; intros i [|k]; simpl; auto.
  - now rewrite Nat.add_0_r.
  - rewrite IH. now rewrite Nat.add_succ_r.
Qed.

Lemma tcost_sum nm c ks : tcost (Anode nm c ks) = c + zsum (map tcost ks).
Proof. apply tcost_zsum. Qed.

Section P.
Variable st : store.
Variable one : bool.       (* one parse requested: keep the first alternative of least cost only *)
Variable F : nat.          (* fuel: more than the depth of the store *)

Fixpoint mc (f id : nat) : option Z :=
  match f with
  | O => None
  | S f' =>
      match nth_error st id with
      | Some DNil | Some DErr | Some (DTerm _ _) => Some 0
      | Some (DAnode _ c kids) =>
          match sum_opt (map (mc f') kids) with Some s => Some (c + s) | None => None end
      | Some (DAlt n nx) =>
          match mc f' n with
          | None => None
          | Some a => match nx with
                      | None => Some a
                      | Some x => match mc f' x with Some b => Some (Z.min a b) | None => None end
                      end
          end
      | None => None
      end
  end.

(* the payload and the link of the first node of a pruned list *)
Fixpoint palt (f id : nat) : option (nat * option nat) :=
  match f with
  | O => None
  | S f' =>
      match nth_error st id with
      | Some (DAlt n nx) =>
          match nx with
          | None => Some (n, None)
          | Some x =>
              match mc F n, mc F x with
              | Some a, Some b =>
                  if a <? b then Some (n, None)
                  else if a =? b then (if one then Some (n, None) else Some (n, Some x))
                  else palt f' x
              | _, _ => None
              end
          end
      | Some _ => Some (id, None)      (* not a list: the node itself *)
      | None => None
      end
  end.

Definition pnode (id : nat) (nd : dnode) : dnode :=
  match nd with
  | DAlt n nx => match palt F id with Some (n', nx') => DAlt n' nx' | None => nd end
  | _ => nd
  end.

Definition pst : store := mapi_from pnode 0 st.

Lemma pst_nth id : nth_error pst id = option_map (pnode id) (nth_error st id).
Proof. unfold pst. now rewrite nth_error_mapi_from. Qed.

(* ---------- fuel ---------- *)
Lemma sum_opt_map_mono (g h : nat -> option Z) l s :
  (forall k m, In k l -> g k = Some m -> h k = Some m) ->
  sum_opt (map g l) = Some s -> sum_opt (map h l) = Some s.
Proof.
  revert s; induction l as [|k l IH]; intros s H E; simpl in *; auto.
  destruct (g k) as [a|] eqn:Ek; [|discriminate].
  destruct (sum_opt (map g l)) as [b|] eqn:El; [|discriminate].
  rewrite (H k a (or_introl eq_refl) Ek). rewrite (IH b); auto.
Qed.

Lemma mc_S f : forall id m, mc f id = Some m -> mc (S f) id = Some m.
Proof.
  induction f as [|f IH]; intros id m H; [discriminate|].
  cbn [mc] in H. change (mc (S (S f)) id) with
    (match nth_error st id with
      | Some DNil | Some DErr | Some (DTerm _ _) => Some 0
      | Some (DAnode _ c kids) =>
          match sum_opt (map (mc (S f)) kids) with Some s => Some (c + s) | None => None end
      | Some (DAlt n nx) =>
          match mc (S f) n with
          | None => None
          | Some a => match nx with
                      | None => Some a
                      | Some x => match mc (S f) x with Some b => Some (Z.min a b) | None => None end
                      end
          end
      | None => None
      end).
  destruct (nth_error st id) as [[| |c a|nm c kids|n nx]|]; auto.
  - destruct (sum_opt (map (mc f) kids)) as [s|] eqn:E; [|discriminate].
    rewrite (sum_opt_map_mono (mc f) (mc (S f)) kids s); auto.
  - destruct (mc f n) as [a|] eqn:En; [|discriminate]. rewrite (IH _ _ En).
    destruct nx as [x|]; auto.
    destruct (mc f x) as [b|] eqn:Ex; [|discriminate]. now rewrite (IH _ _ Ex).
Qed.

Lemma mc_le f f' id m : (f <= f')%nat -> mc f id = Some m -> mc f' id = Some m.
Proof. intros H; induction H; auto. intros E. apply mc_S. auto. Qed.

Lemma palt_S f : forall id r, palt f id = Some r -> palt (S f) id = Some r.
Proof.
  induction f as [|f IH]; intros id r H; [discriminate|].
  cbn [palt] in H. change (palt (S (S f)) id) with
    (match nth_error st id with
      | Some (DAlt n nx) =>
          match nx with
          | None => Some (n, None)
          | Some x =>
              match mc F n, mc F x with
              | Some a, Some b =>
                  if a <? b then Some (n, None)
                  else if a =? b then (if one then Some (n, None) else Some (n, Some x))
                  else palt (S f) x
              | _, _ => None
              end
          end
      | Some _ => Some (id, None)
      | None => None
      end).
  destruct (nth_error st id) as [[| |c a|nm c kids|n [x|]]|]; auto.
  destruct (mc F n) as [a|]; auto. destruct (mc F x) as [b|]; auto.
  destruct (a <? b); auto. destruct (a =? b); auto.
Qed.

Lemma palt_le f f' id r : (f <= f')%nat -> palt f id = Some r -> palt f' id = Some r.
Proof. intros H; induction H; auto. intros E. apply palt_S. auto. Qed.

(* ---------- levels ---------- *)
Lemma dlevel_S s n : forall id t, dlevel s n id t -> dlevel s (S n) id t.
Proof.
  induction n as [|n IH]; intros id t H; [contradiction|].
  cbn [dlevel] in *. eapply dstep_mono; [|exact H]. exact IH.
Qed.

Lemma dlevel_le s n n' id t : (n <= n')%nat -> dlevel s n id t -> dlevel s n' id t.
Proof. intros H; induction H; auto. intros E. apply dlevel_S. auto. Qed.

Lemma Forall2_denotes_level s kids ts :
  Forall2 (denotes s) kids ts -> exists N, Forall2 (dlevel s N) kids ts.
Proof.
  intros H. induction H as [|k t kids ts (n & Hn) _ (N & HN)].
  - exists O. constructor.
  - exists (Nat.max n N). constructor.
    + eapply dlevel_le; [|exact Hn]. lia.
    + eapply Forall2_impl'; [|exact HN]. intros a b Hab. eapply dlevel_le; [|exact Hab]. lia.
Qed.

Lemma denotes_anode s id nm c kids ts :
  nth_error s id = Some (DAnode nm c kids) -> Forall2 (denotes s) kids ts -> denotes s id (Anode nm c ts).
Proof.
  intros E H. destruct (Forall2_denotes_level _ _ _ H) as (N & HN).
  exists (S N). cbn [dlevel]. unfold dstep. rewrite E. eauto.
Qed.

Lemma denotes_alt_l s id n nx t :
  nth_error s id = Some (DAlt n nx) -> denotes s n t -> denotes s id t.
Proof. intros E (k & Hk). exists (S k). cbn [dlevel]. unfold dstep. rewrite E. auto. Qed.

Lemma denotes_alt_r s id n x t :
  nth_error s id = Some (DAlt n (Some x)) -> denotes s x t -> denotes s id t.
Proof. intros E (k & Hk). exists (S k). cbn [dlevel]. unfold dstep. rewrite E. right. eauto. Qed.

Lemma denotes_alt_inv s id n nx t :
  nth_error s id = Some (DAlt n nx) -> denotes s id t -> denotes s n t \/ exists x, nx = Some x /\ denotes s x t.
Proof.
  intros E (k & Hk). destruct k as [|k]; [contradiction|]. cbn [dlevel] in Hk. unfold dstep in Hk. rewrite E in Hk.
  destruct Hk as [H|(x & -> & H)]; [left; exists k; auto | right; exists x; split; auto; exists k; auto].
Qed.

(* a node with the same contents denotes the same trees *)
Lemma denotes_same_node s id id' : nth_error s id = nth_error s id' -> forall t, denotes s id t -> denotes s id' t.
Proof.
  intros E t (k & Hk). exists k. destruct k as [|k]; [contradiction|]. cbn [dlevel] in *. unfold dstep in *.
  now rewrite <- E.
Qed.

(* ---------- the cost handed back is a lower bound ---------- *)
Lemma zsum_le l l' : Forall2 Z.le l l' -> zsum l <= zsum l'.
Proof. intros H; induction H; simpl; lia. Qed.

Lemma sum_opt_Forall2 (g : nat -> option Z) kids s :
  sum_opt (map g kids) = Some s -> exists ms, Forall2 (fun k m => g k = Some m) kids ms /\ s = zsum ms.
Proof.
  revert s; induction kids as [|k kids IH]; intros s H; simpl in H.
  - injection H as <-. exists []. split; auto.
  - destruct (g k) as [a|] eqn:Ek; [|discriminate].
    destruct (sum_opt (map g kids)) as [b|] eqn:El; [|discriminate]. injection H as <-.
    destruct (IH b eq_refl) as (ms & Hms & ->). exists (a :: ms). split; auto.
Qed.

Lemma mc_lower f : forall id m, mc f id = Some m -> forall n t, dlevel st n id t -> m <= tcost t.
Proof.
  induction f as [|f IH]; intros id m H n t Hn; [discriminate|].
  destruct n as [|n]; [contradiction|]. cbn [mc] in H. cbn [dlevel] in Hn. unfold dstep in Hn.
  destruct (nth_error st id) as [[| |c a|nm c kids|nd nx]|]; try contradiction.
  - injection H as <-. subst t. simpl. lia.
  - injection H as <-. subst t. simpl. lia.
  - injection H as <-. subst t. simpl. lia.
  - destruct (sum_opt (map (mc f) kids)) as [s|] eqn:E; [|discriminate]. injection H as <-.
    destruct Hn as (ts & Hts & ->). rewrite tcost_sum.
    destruct (sum_opt_Forall2 _ _ _ E) as (ms & Hms & ->).
    assert (zsum ms <= zsum (map tcost ts)); [|lia].
    apply zsum_le. clear E. revert ms Hms. induction Hts as [|k t kids ts Hk Hts IHts]; intros ms Hms; inversion Hms; subst; simpl.
    + constructor.
    + constructor; [eapply IH; eauto | apply IHts; auto].
  - destruct (mc f nd) as [a|] eqn:En; [|discriminate].
    destruct nx as [x|].
    + destruct (mc f x) as [b|] eqn:Ex; [|discriminate]. injection H as <-.
      destruct Hn as [Hn|(y & Hy & Hn)].
      * pose proof (IH _ _ En _ _ Hn). lia.
      * injection Hy as <-. pose proof (IH _ _ Ex _ _ Hn). lia.
    + injection H as <-. destruct Hn as [Hn|(y & Hy & _)]; [eapply IH; eauto | discriminate].
Qed.

Corollary mc_lower_denotes f id m t : mc f id = Some m -> denotes st id t -> m <= tcost t.
Proof. intros H (n & Hn). eapply mc_lower; eauto. Qed.

(* ---------- inversion of [denotes] ---------- *)
Lemma denotes_anode_inv s id nm c kids t :
  nth_error s id = Some (DAnode nm c kids) -> denotes s id t ->
  exists ts, Forall2 (denotes s) kids ts /\ t = Anode nm c ts.
Proof.
  intros E (k & Hk). destruct k as [|k]; [contradiction|]. cbn [dlevel] in Hk. unfold dstep in Hk. rewrite E in Hk.
  destruct Hk as (ts & Hts & ->). exists ts. split; auto. eapply Forall2_impl'; [|exact Hts]. intros a b Hab. exists k. exact Hab.
Qed.

Lemma denotes_leaf s id nd t : nth_error s id = Some nd ->
  match nd with DNil | DErr | DTerm _ _ => True | _ => False end ->
  (denotes s id t <-> t = match nd with DNil => Nil | DErr => Err | DTerm c a => Term c a | _ => Nil end).
Proof.
  intros E Hl. split.
  - intros (k & Hk). destruct k as [|k]; [contradiction|]. cbn [dlevel] in Hk. unfold dstep in Hk. rewrite E in Hk.
    destruct nd; try contradiction; auto.
  - intros ->. exists 1%nat. cbn [dlevel]. unfold dstep. rewrite E. destruct nd; try contradiction; auto.
Qed.

(* ---------- what pruning has to achieve at a node ---------- *)
Definition good (id : nat) (m : Z) (D : tree -> Prop) : Prop :=
  (forall t, D t -> denotes st id t /\ tcost t = m) /\
  (one = false -> forall t, denotes st id t -> tcost t = m -> D t) /\
  (exists t, D t) /\
  (one = true -> forall t t', D t -> D t' -> t = t').

Definition vden (r : nat * option nat) (t : tree) : Prop :=
  denotes pst (fst r) t \/ exists x, snd r = Some x /\ denotes pst x t.

Lemma good_ext id m (D D' : tree -> Prop) : (forall t, D t <-> D' t) -> good id m D -> good id m D'.
Proof.
  intros H (G1 & G2 & (t0 & G3) & G4). repeat split.
  - apply G1, H, H0.
  - apply G1, H, H0.
  - intros Ho t Ht Hc. apply H. auto.
  - exists t0. apply H. exact G3.
  - intros Ho t t' Ht Ht'. apply G4; auto; apply H; auto.
Qed.

Lemma Forall2_le_sum_eq l l' : Forall2 Z.le l l' -> zsum l = zsum l' -> l = l'.
Proof.
  intros H. induction H as [|a b l l' Hab H IH]; simpl; intros E; auto.
  pose proof (zsum_le _ _ H). assert (a = b) by lia. subst. f_equal. apply IH. lia.
Qed.

Definition goodk (k : nat) (m : Z) : Prop := good k m (denotes pst k).
Definition lowk (k : nat) (m : Z) : Prop := forall t, denotes st k t -> m <= tcost t.

Lemma kids_sound kids ms : Forall2 goodk kids ms -> forall ts,
  Forall2 (denotes pst) kids ts -> Forall2 (denotes st) kids ts /\ map tcost ts = ms.
Proof.
  intros Hg. induction Hg as [|k m kids' ms' Hk _ IH]; intros ts H; inversion H; subst.
  - split; constructor.
  - destruct Hk as (G1 & _). destruct (G1 _ H2) as [Hd Hc]. destruct (IH _ H4) as [H5 H6].
    split; [constructor; auto | simpl; congruence].
Qed.

Lemma kids_low kids ms : Forall2 lowk kids ms -> forall ts, Forall2 (denotes st) kids ts -> Forall2 Z.le ms (map tcost ts).
Proof.
  intros Hl. induction Hl as [|k m kids' ms' Hk _ IH]; intros ts H; inversion H; subst; simpl; constructor; auto.
Qed.

Lemma kids_complete kids ms : Forall2 goodk kids ms -> one = false -> forall ts,
  Forall2 (denotes st) kids ts -> map tcost ts = ms -> Forall2 (denotes pst) kids ts.
Proof.
  intros Hg Ho. induction Hg as [|k m kids' ms' Hk _ IH]; intros ts H Hle; inversion H; subst; constructor.
  - destruct Hk as (_ & G2 & _). simpl in Hle. injection Hle as Hm _. apply G2; auto.
  - apply IH; auto. simpl in Hle. now injection Hle.
Qed.

Lemma kids_exist kids ms : Forall2 goodk kids ms -> exists ts, Forall2 (denotes pst) kids ts.
Proof.
  intros Hg. induction Hg as [|k m kids' ms' Hk _ (ts & IH)].
  - exists []. constructor.
  - destruct Hk as (_ & _ & (t & Ht) & _). exists (t :: ts). constructor; auto.
Qed.

Lemma kids_unique kids ms : Forall2 goodk kids ms -> one = true -> forall ts ts',
  Forall2 (denotes pst) kids ts -> Forall2 (denotes pst) kids ts' -> ts = ts'.
Proof.
  intros Hg Ho. induction Hg as [|k m kids' ms' Hk _ IH]; intros ts ts' H H'; inversion H; inversion H'; subst; auto.
  destruct Hk as (_ & _ & _ & G4). f_equal; auto.
Qed.

(* ---------- the theorem, by induction on the fuel ---------- *)
Definition Main (f : nat) : Prop := forall id m, mc f id = Some m -> good id m (denotes pst id).
Definition Chain (f : nat) : Prop := forall id m r, mc f id = Some m -> palt f id = Some r -> good id m (vden r).

Lemma pst_not_alt id nd : nth_error st id = Some nd -> (forall n nx, nd <> DAlt n nx) -> nth_error pst id = Some nd.
Proof. intros E H. rewrite pst_nth, E. simpl. destruct nd; auto. exfalso. eapply H; eauto. Qed.

Lemma main_leaf f id m nd : nth_error st id = Some nd ->
  match nd with DNil | DErr | DTerm _ _ => True | _ => False end ->
  mc (S f) id = Some m -> good id m (denotes pst id).
Proof.
  intros E Hl H. cbn [mc] in H. rewrite E in H.
  assert (Ep : nth_error pst id = Some nd) by (apply pst_not_alt; auto; intros n nx ->; contradiction).
  assert (m = 0) by (destruct nd; try contradiction; congruence). subst m.
  pose proof (denotes_leaf st id nd) as Ls. pose proof (denotes_leaf pst id nd) as Lp.
  repeat split.
  - apply (Ls t E Hl). apply (Lp t Ep Hl). auto.
  - apply (Lp t Ep Hl) in H0. subst t. destruct nd; try contradiction; reflexivity.
  - intros _ t Ht _. apply (Lp t Ep Hl). apply (Ls t E Hl). auto.
  - eexists. apply (Lp _ Ep Hl). reflexivity.
  - intros _ t t' Ht Ht'. apply (Lp t Ep Hl) in Ht. apply (Lp t' Ep Hl) in Ht'. congruence.
Qed.

Lemma main_anode f id m nm c kids : Main f -> nth_error st id = Some (DAnode nm c kids) ->
  mc (S f) id = Some m -> good id m (denotes pst id).
Proof.
  intros IH E H. cbn [mc] in H. rewrite E in H.
  destruct (sum_opt (map (mc f) kids)) as [s|] eqn:Es; [|discriminate]. injection H as <-.
  destruct (sum_opt_Forall2 _ _ _ Es) as (ms & Hms & ->).
  assert (Ep : nth_error pst id = Some (DAnode nm c kids)) by (apply pst_not_alt; auto; discriminate).
  assert (Hg : Forall2 goodk kids ms).
  { eapply Forall2_impl'; [|exact Hms]. intros k m Hk. apply IH. exact Hk. }
  assert (Hlow : Forall2 lowk kids ms).
  { eapply Forall2_impl'; [|exact Hms]. intros k m Hk t Ht. exact (mc_lower_denotes f k m t Hk Ht). }
  repeat split.
  - destruct (denotes_anode_inv _ _ _ _ _ _ Ep H) as (ts & Hts & ->).
    destruct (kids_sound _ _ Hg _ Hts) as [H1 _]. eapply denotes_anode; eauto.
  - destruct (denotes_anode_inv _ _ _ _ _ _ Ep H) as (ts & Hts & ->).
    destruct (kids_sound _ _ Hg _ Hts) as [_ H2]. rewrite tcost_sum, H2. reflexivity.
  - intros Ho t Ht Hc. destruct (denotes_anode_inv _ _ _ _ _ _ E Ht) as (ts & Hts & ->).
    rewrite tcost_sum in Hc. eapply denotes_anode; [exact Ep|].
    eapply kids_complete; eauto. symmetry. apply Forall2_le_sum_eq; [eapply kids_low; eauto | lia].
  - destruct (kids_exist _ _ Hg) as (ts & Hts). exists (Anode nm c ts). eapply denotes_anode; eauto.
  - intros Ho t t' Ht Ht'.
    destruct (denotes_anode_inv _ _ _ _ _ _ Ep Ht) as (ts & Hts & ->).
    destruct (denotes_anode_inv _ _ _ _ _ _ Ep Ht') as (ts' & Hts' & ->).
    f_equal. eapply kids_unique; eauto.
Qed.

(* a list of ALT nodes: from the induction hypotheses for the payload and for the rest of the list *)
Lemma chain_alt f id m r n nx : (S f <= F)%nat -> Main f -> Chain f -> nth_error st id = Some (DAlt n nx) ->
  mc (S f) id = Some m -> palt (S f) id = Some r -> good id m (vden r).
Proof.
  intros HF IHm IHc E H Hr. cbn [mc] in H. cbn [palt] in Hr. rewrite E in *.
  destruct (mc f n) as [a|] eqn:En; [|discriminate].
  pose proof (IHm _ _ En) as (N1 & N2 & (tn & N3) & N4).
  destruct nx as [x|].
  2:{ injection H as <-. injection Hr as <-. unfold vden; simpl. repeat split.
      - destruct H as [H|(y & Hy & _)]; [|discriminate]. eapply denotes_alt_l; [exact E|]. apply N1. exact H.
      - destruct H as [H|(y & Hy & _)]; [|discriminate]. apply N1. exact H.
      - intros Ho t Ht Hc. left. apply N2; auto.
        destruct (denotes_alt_inv _ _ _ _ _ E Ht) as [Hd|(y & Hy & _)]; [exact Hd | discriminate].
      - exists tn. left. exact N3.
      - intros Ho t t' [Ht|(y & Hy & _)] [Ht'|(y' & Hy' & _)]; try discriminate. apply N4; auto. }
  destruct (mc f x) as [b|] eqn:Ex; [|discriminate]. injection H as <-.
  rewrite (mc_le f F n a) in Hr by (auto; lia). rewrite (mc_le f F x b) in Hr by (auto; lia).
  pose proof (IHm _ _ Ex) as (X1 & X2 & (tx & X3) & X4).
  assert (Ln : forall t, denotes st n t -> a <= tcost t) by (intros t Ht; eapply mc_lower_denotes; eauto).
  assert (Lx : forall t, denotes st x t -> b <= tcost t) by (intros t Ht; eapply mc_lower_denotes; eauto).
  destruct (Z.ltb_spec a b) as [Hab|Hab].
  - (* the payload is cheaper than the rest *)
    injection Hr as <-. unfold vden; simpl. rewrite Z.min_l by lia. repeat split.
    + destruct H as [H|(y & Hy & _)]; [|discriminate]. eapply denotes_alt_l; [exact E|]. apply N1. exact H.
    + destruct H as [H|(y & Hy & _)]; [|discriminate]. apply N1. exact H.
    + intros Ho t Ht Hc. left. apply N2; auto.
      destruct (denotes_alt_inv _ _ _ _ _ E Ht) as [Hd|(y & Hy & Hd)]; [exact Hd|].
      injection Hy as <-. specialize (Lx _ Hd). lia.
    + exists tn. left. exact N3.
    + intros Ho t t' [Ht|(y & Hy & _)] [Ht'|(y' & Hy' & _)]; try discriminate. apply N4; auto.
  - destruct (Z.eqb_spec a b) as [Heq|Hne].
    + subst b. rewrite Z.min_l by lia. destruct one eqn:Eone.
      * (* one parse: the first of the cheapest *)
        injection Hr as <-. unfold vden; simpl. repeat split.
        -- destruct H as [H|(y & Hy & _)]; [|discriminate]. eapply denotes_alt_l; [exact E|]. apply N1. exact H.
        -- destruct H as [H|(y & Hy & _)]; [|discriminate]. apply N1. exact H.
        -- intros Ho; congruence.
        -- exists tn. left. exact N3.
        -- intros _ t t' [Ht|(y & Hy & _)] [Ht'|(y' & Hy' & _)]; try discriminate. apply N4; auto.
      * injection Hr as <-. unfold vden; simpl. repeat split.
        -- destruct H as [H|(y & Hy & H)].
           ++ eapply denotes_alt_l; [exact E|]. apply N1. exact H.
           ++ injection Hy as <-. eapply denotes_alt_r; [exact E|]. apply X1. exact H.
        -- destruct H as [H|(y & Hy & H)]; [apply N1; exact H | injection Hy as <-; apply X1; exact H].
        -- intros _ t Ht Hc. destruct (denotes_alt_inv _ _ _ _ _ E Ht) as [Hd|(y & Hy & Hd)].
           ++ left. apply N2; auto.
           ++ injection Hy as <-. right. exists x. split; auto.
        -- exists tn. left. exact N3.
        -- intros Ho; congruence.
    + (* the rest of the list is cheaper: its first node is taken *)
      rewrite Z.min_r by lia.
      pose proof (IHc _ _ _ Ex Hr) as (C1 & C2 & C3 & C4). repeat split.
      * eapply denotes_alt_r; [exact E|]. apply C1. exact H.
      * apply C1. exact H.
      * intros Ho t Ht Hc. apply C2; auto.
        destruct (denotes_alt_inv _ _ _ _ _ E Ht) as [Hd|(y & Hy & Hd)].
        -- specialize (Ln _ Hd). lia.
        -- now injection Hy as <-.
      * exact C3.
      * exact C4.
Qed.

Lemma palt_defined f : forall id m, (f <= F)%nat -> mc f id = Some m -> exists r, palt f id = Some r.
Proof.
  induction f as [|f IH]; intros id m HF H; [discriminate|].
  cbn [mc] in H. cbn [palt].
  destruct (nth_error st id) as [[| |c a|nm c kids|n nx]|] eqn:E; eauto; try discriminate.
  destruct (mc f n) as [a|] eqn:En; [|discriminate].
  destruct nx as [x|]; [|eauto].
  destruct (mc f x) as [b|] eqn:Ex; [|discriminate].
  rewrite (mc_le f F n a) by (auto; lia). rewrite (mc_le f F x b) by (auto; lia).
  destruct (a <? b); [eauto|]. destruct (a =? b); [destruct one; eauto|].
  apply (IH x b); auto. lia.
Qed.

Lemma vden_node id r : nth_error pst id = Some (DAlt (fst r) (snd r)) -> forall t, vden r t <-> denotes pst id t.
Proof.
  intros E t. unfold vden. split.
  - intros [H|(x & Hx & H)].
    + eapply denotes_alt_l; eauto.
    + eapply denotes_alt_r; [|exact H]. rewrite E. now rewrite Hx.
  - intros H. exact (denotes_alt_inv _ _ _ _ _ E H).
Qed.

Theorem prune_good : forall f, (f <= F)%nat -> Main f /\ Chain f.
Proof.
  induction f as [|f IH]; intros HF.
  - split; [intros id m H | intros id m r H]; discriminate.
  - destruct IH as [IHm IHc]; [lia|].
    assert (Hm : Main (S f)).
    { intros id m H. destruct (nth_error st id) as [nd|] eqn:E.
      - destruct nd as [| |c a|nm c kids|n nx].
        + eapply main_leaf; eauto. exact I.
        + eapply main_leaf; eauto. exact I.
        + eapply main_leaf; eauto. exact I.
        + eapply main_anode; eauto.
        + destruct (palt_defined _ _ _ HF H) as (r & Hr).
          pose proof (chain_alt f id m r n nx HF IHm IHc E H Hr) as G.
          eapply good_ext; [|exact G]. apply vden_node.
          rewrite pst_nth, E. simpl. rewrite (palt_le _ F _ _ HF Hr). now destruct r.
      - cbn [mc] in H. rewrite E in H. discriminate. }
    split; [exact Hm|].
    intros id m r H Hr. destruct (nth_error st id) as [nd|] eqn:E.
    + assert (Hnd : (exists n nx, nd = DAlt n nx) \/ palt (S f) id = Some (id, None)).
      { cbn [palt]. rewrite E. destruct nd; eauto. }
      destruct Hnd as [(n & nx & ->)|Hnd].
      * eapply chain_alt; eauto.
      * rewrite Hnd in Hr. injection Hr as <-. eapply good_ext; [|exact (Hm _ _ H)].
        intros t. unfold vden. simpl. split; [auto | intros [Ht|(x & Hx & _)]; [auto | discriminate]].
    + cbn [mc] in H. rewrite E in H. discriminate.
Qed.

(* ---------- the statements ---------- *)
Theorem mc_is_minimum root m : mc F root = Some m ->
  (exists t, denotes st root t /\ tcost t = m) /\ (forall t, denotes st root t -> m <= tcost t).
Proof.
  intros H. split.
  - destruct (prune_good F (le_n F)) as [Hm _]. destruct (Hm _ _ H) as (G1 & _ & (t & Ht) & _).
    exists t. apply G1. exact Ht.
  - intros t Ht. eapply mc_lower_denotes; eauto.
Qed.

Theorem prune_exact root m : one = false -> mc F root = Some m ->
  forall t, denotes pst root t <-> (denotes st root t /\ tcost t = m).
Proof.
  intros Ho H t. destruct (prune_good F (le_n F)) as [Hm _]. destruct (Hm _ _ H) as (G1 & G2 & _).
  split; [apply G1 | intros [H1 H2]; apply G2; auto].
Qed.

Theorem prune_one root m : one = true -> mc F root = Some m ->
  exists t, (forall t', denotes pst root t' <-> t' = t) /\ denotes st root t /\ tcost t = m.
Proof.
  intros Ho H. destruct (prune_good F (le_n F)) as [Hm _]. destruct (Hm _ _ H) as (G1 & _ & (t & Ht) & G4).
  exists t. split; [|apply G1; exact Ht].
  intros t'. split; [intros Ht'; apply G4; auto | intros ->; exact Ht].
Qed.

(* the cumulative cost field of a node (what prune_to_minimal leaves in val.anode.cost) is the cost of every
   tree the pruned node denotes *)
Theorem field_is_cost id m t : mc F id = Some m -> denotes pst id t -> tcost t = m.
Proof.
  intros H Ht. destruct (prune_good F (le_n F)) as [Hm _]. destruct (Hm _ _ H) as (G1 & _). apply G1. exact Ht.
Qed.

Theorem field_adds_up id nm c kids f : nth_error st id = Some (DAnode nm c kids) ->
  forall m, mc (S f) id = Some m -> exists ms, Forall2 (fun k mk => mc f k = Some mk) kids ms /\ m = c + zsum ms.
Proof.
  intros E m H. cbn [mc] in H. rewrite E in H.
  destruct (sum_opt (map (mc f) kids)) as [s|] eqn:Es; [|discriminate]. injection H as <-.
  destruct (sum_opt_Forall2 _ _ _ Es) as (ms & Hms & ->). eauto.
Qed.

End P.

(* executable: the least cost and the trees of the pruned store (None: the store has a cycle or a dangling link) *)
Definition prune_denote (st : store) (one : bool) (root : nat) : option (Z * list tree) :=
  let F := S (length st) in
  match mc st F root with
  | Some m => match denote (pst st one F) root with Some L => Some (m, L) | None => None end
  | None => None
  end.

Theorem prune_denote_all st root m L : prune_denote st false root = Some (m, L) ->
  (forall t, In t L <-> (denotes st root t /\ tcost t = m)) /\
  (forall t, denotes st root t -> m <= tcost t) /\ (exists t, In t L).
Proof.
  unfold prune_denote. destruct (mc st (S (length st)) root) as [m'|] eqn:E; [|discriminate].
  destruct (denote _ root) as [L'|] eqn:Ed; [|discriminate]. intros H; injection H as <- <-.
  pose proof (denote_spec _ _ _ Ed) as Hd. split; [|split].
  - intros t. rewrite Hd. apply prune_exact; auto.
  - apply (mc_is_minimum st false _ _ _ E).
  - destruct (prune_good st false (S (length st)) _ (le_n _)) as [Hm _]. destruct (Hm _ _ E) as (_ & _ & (t & Ht) & _).
    exists t. apply Hd. exact Ht.
Qed.

Theorem prune_denote_one st root m L : prune_denote st true root = Some (m, L) ->
  exists t, (forall t', In t' L <-> t' = t) /\ denotes st root t /\ tcost t = m /\
            (forall t', denotes st root t' -> m <= tcost t').
Proof.
  unfold prune_denote. destruct (mc st (S (length st)) root) as [m'|] eqn:E; [|discriminate].
  destruct (denote _ root) as [L'|] eqn:Ed; [|discriminate]. intros H; injection H as <- <-.
  pose proof (denote_spec _ _ _ Ed) as Hd.
  destruct (prune_one st true _ _ _ eq_refl E) as (t & H1 & H2 & H3).
  exists t. split; [|split; [|split]]; auto.
  - intros t'. rewrite Hd. apply H1.
  - apply (mc_is_minimum st true _ _ _ E).
Qed.

(* S : A # s 0 (0) ; A : a # x 3 (0) | a # y 1 (0) | a # z 1 (0)  as a DAG: node 0 = anode s over the list 1 -> 2 -> 3
   with payloads 4 (cost 3), 5 (cost 1), 6 (cost 1); 7 is the terminal *)
Example prune_ex :
  let st := [DAnode 0 0 [1%nat]; DAlt 4 (Some 2%nat); DAlt 5 (Some 3%nat); DAlt 6 None;
             DAnode 1 3 [7%nat]; DAnode 2 1 [7%nat]; DAnode 3 1 [7%nat]; DTerm 97 0] in
  prune_denote st false 0 = Some (1, [Anode 0 0 [Anode 2 1 [Term 97 0]]; Anode 0 0 [Anode 3 1 [Term 97 0]]]) /\
  prune_denote st true 0 = Some (1, [Anode 0 0 [Anode 2 1 [Term 97 0]]]).
Proof. vm_compute. auto. Qed.
