(* Messages: rendering of an error message into the fixed buffer of the grammar
   object.  A bounded primitive (vsnprintf with bound b) stores at most b - 1
   characters and the terminating zero. *)
From YV Require Import Prelude Generated GeneratedChecks.
Local Open Scope Z_scope.

(* the characters a message would need, however long the user's symbol names are *)
Definition render (bound : option Z) (text : list nat) : list nat :=
  match bound with
  | Some b => firstn (Z.to_nat (b - 1)) text
  | None => text                              (* vsprintf: as many as the text has *)
  end.

Theorem message_fits : forall text,
  Z.of_nat (length (render msg_bounded_by text)) + 1 <= MAX_ERROR_MESSAGE_LENGTH + 1.
Proof.
  intros text. destruct message_bounded as (b & -> & Hb1 & Hb2). cbn [render].
  rewrite firstn_length. lia.
Qed.

(* with an unbounded primitive the statement is false: a 300 character name does not fit *)
Theorem unbounded_primitive_overflows :
  exists text, Z.of_nat (length (render None text)) + 1 > MAX_ERROR_MESSAGE_LENGTH + 1.
Proof. exists (repeat 65%nat 300). cbn [render]. rewrite repeat_length. vm_compute. reflexivity. Qed.
