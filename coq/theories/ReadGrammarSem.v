(* ReadGrammarSem: what the flags computed by set_empty_access_derives mean.
   The model (ReadGrammar.v) computes "derives a terminal string" and "derives
   the empty string" like the C code: passes over all rules, repeated a fixed
   number of times.  Here: the result is exactly the least set closed under the
   rules, i.e. a nonterminal is in [productive] iff it has a derivation to a
   string of terminals, in [nullable] iff it derives the empty string - the
   number of passes (one more than the number of rules) always suffices. *)
From YV Require Import Prelude Generated ReadGrammar.

Lemma NoDup_snoc {A} (l : list A) x : NoDup l -> ~ In x l -> NoDup (l ++ [x]).
Proof.
  induction l as [|y l IH]; intros H Hx; simpl; [constructor; [intros [] | constructor]|].
  inversion H; subst. constructor.
  - intros Hin. apply in_app_or in Hin. destruct Hin as [Hin|[<-|[]]]; [contradiction | apply Hx; left; reflexivity].
  - apply IH; [assumption | intros Hin; apply Hx; right; exact Hin].
Qed.

Section Gen.
Variable R : list (nat * list nat).     (* rules: lhs, rhs *)
Variable B : nat -> bool.               (* symbols that are fine by themselves (terminals; none for nullability) *)

(* every symbol of the list is fine by itself or has a rule whose right-hand side is, recursively *)
Inductive gen : list nat -> Prop :=
| gen_nil : gen []
| gen_B s l : B s = true -> gen l -> gen (s :: l)
| gen_R s rhs l : In (s, rhs) R -> gen rhs -> gen l -> gen (s :: l).

Lemma gen_app l1 l2 : gen l1 -> gen l2 -> gen (l1 ++ l2).
Proof. induction 1; intros H2; simpl; auto; [apply gen_B; auto | eapply gen_R; eauto]. Qed.

Lemma gen_forall l : (forall s, In s l -> gen [s]) -> gen l.
Proof.
  induction l as [|s l IH]; intros H; [constructor|].
  change (s :: l) with ([s] ++ l). apply gen_app; [apply H; left; reflexivity | apply IH; intros x Hx; apply H; right; exact Hx].
Qed.

Definition okf (acc : list nat) (s : nat) : bool := B s || memn s acc.
Definition step (acc : list nat) (r : nat * list nat) : list nat :=
  if negb (memn (fst r) acc) && forallb (okf acc) (snd r) then acc ++ [fst r] else acc.
Definition gpass (set : list nat) : list nat := fold_left step R set.

Lemma memn_In x l : memn x l = true <-> In x l.
Proof.
  unfold memn. rewrite existsb_exists. split.
  - intros (y & Hy & E). apply Nat.eqb_eq in E. subst. exact Hy.
  - intros H. exists x. split; [exact H | apply Nat.eqb_refl].
Qed.

(* ----- soundness: everything put into the set has a derivation ----- *)
Definition Sound (set : list nat) : Prop := forall x, In x set -> exists rhs, In (x, rhs) R /\ gen rhs.

Lemma okf_gen acc s : Sound acc -> okf acc s = true -> gen [s].
Proof.
  intros HS H. unfold okf in H. apply orb_true_iff in H. destruct H as [H|H].
  - apply gen_B; [exact H | constructor].
  - apply memn_In in H. destruct (HS s H) as (rhs & Hr & Hg). eapply gen_R; eauto. constructor.
Qed.

Lemma fold_sound : forall rs acc, (forall r, In r rs -> In r R) -> Sound acc -> Sound (fold_left step rs acc).
Proof.
  induction rs as [|r rs IH]; intros acc Hin HS; cbn [fold_left]; [exact HS|].
  apply IH; [intros r' Hr'; apply Hin; right; exact Hr'|].
  unfold step. destruct (negb (memn (fst r) acc) && forallb (okf acc) (snd r)) eqn:E; [|exact HS].
  apply andb_prop in E. destruct E as [_ E]. rewrite forallb_forall in E.
  intros x Hx. apply in_app_or in Hx. destruct Hx as [Hx|[<-|[]]]; [apply HS; exact Hx|].
  exists (snd r). split; [destruct r; apply Hin; left; reflexivity|].
  apply gen_forall. intros s Hs. apply (okf_gen acc); auto.
Qed.

Lemma gpass_sound set : Sound set -> Sound (gpass set).
Proof. apply fold_sound. auto. Qed.

Lemma iter_sound n : forall set, Sound set -> Sound (iter n gpass set).
Proof. induction n as [|n IH]; intros set H; cbn [iter]; auto. apply IH, gpass_sound, H. Qed.

(* ----- the passes only append, without repetition, left-hand sides of rules ----- *)
Definition Good (set : list nat) : Prop := NoDup set /\ incl set (map fst R).

Lemma step_ext acc r : exists extra, step acc r = acc ++ extra.
Proof. unfold step. destruct (_ && _); [exists [fst r] | exists []; rewrite app_nil_r]; reflexivity. Qed.

Lemma fold_ext : forall rs acc, exists extra, fold_left step rs acc = acc ++ extra.
Proof.
  induction rs as [|r rs IH]; intros acc; cbn [fold_left]; [exists []; rewrite app_nil_r; reflexivity|].
  destruct (step_ext acc r) as (e1 & ->). destruct (IH (acc ++ e1)) as (e2 & ->). exists (e1 ++ e2). rewrite app_assoc. reflexivity.
Qed.

Lemma fold_good : forall rs acc, (forall r, In r rs -> In r R) -> Good acc -> Good (fold_left step rs acc).
Proof.
  induction rs as [|r rs IH]; intros acc Hin HG; cbn [fold_left]; [exact HG|].
  apply IH; [intros r' Hr'; apply Hin; right; exact Hr'|].
  unfold step. destruct (negb (memn (fst r) acc) && forallb (okf acc) (snd r)) eqn:E; [|exact HG].
  apply andb_prop in E. destruct E as [E _]. apply negb_true_iff in E.
  destruct HG as [ND Inc]. split.
  - apply NoDup_snoc; [exact ND|]. intros H. apply memn_In in H. congruence.
  - intros x Hx. apply in_app_or in Hx. destruct Hx as [Hx|[<-|[]]]; [apply Inc; exact Hx|].
    apply in_map. apply Hin. left. reflexivity.
Qed.

Lemma gpass_good set : Good set -> Good (gpass set).
Proof. apply fold_good. auto. Qed.
Lemma iter_good n : forall set, Good set -> Good (iter n gpass set).
Proof. induction n as [|n IH]; intros set H; cbn [iter]; auto. apply IH, gpass_good, H. Qed.

Lemma good_bound set : Good set -> length set <= length R.
Proof. intros [ND Inc]. rewrite <- (map_length fst R). apply NoDup_incl_length; assumption. Qed.

(* ----- the number of passes suffices: the result is stable ----- *)
Lemma gpass_grows set : gpass set = set \/ length set < length (gpass set).
Proof.
  unfold gpass. destruct (fold_ext R set) as ([|e extra] & E); rewrite E.
  - left. apply app_nil_r.
  - right. rewrite app_length. simpl. lia.
Qed.

Lemma stable_stays n : forall set, gpass set = set -> iter n gpass set = set.
Proof. induction n as [|n IH]; intros set H; cbn [iter]; [reflexivity|]. rewrite H. apply IH, H. Qed.

Lemma iter_progress n : forall set,
  gpass (iter n gpass set) = iter n gpass set \/ length set + n <= length (iter n gpass set).
Proof.
  induction n as [|n IH]; intros set; cbn [iter]; [right; lia|].
  destruct (gpass_grows set) as [E|L].
  - left. rewrite E. rewrite (stable_stays n set E). exact E.
  - destruct (IH (gpass set)) as [Hst|G]; [left; exact Hst | right; lia].
Qed.

Theorem result_stable : gpass (iter (S (length R)) gpass []) = iter (S (length R)) gpass [].
Proof.
  destruct (iter_progress (S (length R)) []) as [Hst|G]; [exact Hst|]. exfalso.
  assert (HG : Good (iter (S (length R)) gpass [])) by (apply iter_good; split; [constructor | intros x []]).
  apply good_bound in HG. change (length (@nil nat)) with 0 in G. lia.
Qed.

(* ----- a stable set is closed under the rules ----- *)
Lemma fold_stable : forall rs acc, fold_left step rs acc = acc -> forall r, In r rs -> step acc r = acc.
Proof.
  induction rs as [|r rs IH]; intros acc H r' Hr'; [destruct Hr'|]. cbn [fold_left] in H.
  destruct (step_ext acc r) as (e1 & E1). destruct (fold_ext rs (step acc r)) as (e2 & E2).
  assert (Z : e1 ++ e2 = []).
  { rewrite E2, E1, <- app_assoc in H. rewrite <- (app_nil_r acc) in H at 2. apply app_inv_head in H. exact H. }
  apply app_eq_nil in Z. destruct Z as [-> ->]. rewrite app_nil_r in E1.
  destruct Hr' as [<-|Hr']; [exact E1|]. apply IH; [rewrite E1 in H; exact H | exact Hr'].
Qed.

Lemma stable_closed P : gpass P = P -> forall x rhs, In (x, rhs) R -> forallb (okf P) rhs = true -> In x P.
Proof.
  intros HS x rhs Hr Hok. pose proof (fold_stable R P HS (x, rhs) Hr) as E. unfold step in E. cbn [fst snd] in E.
  rewrite Hok, andb_true_r in E. destruct (memn x P) eqn:M; [apply memn_In; exact M|].
  cbn [negb] in E. exfalso. rewrite <- (app_nil_r P) in E at 2. apply app_inv_head in E. discriminate.
Qed.

Lemma gen_ok P : gpass P = P -> forall l, gen l -> forallb (okf P) l = true.
Proof.
  intros HS l H. induction H as [| s l Hb _ IH | s rhs l Hr _ IHr _ IH]; cbn [forallb]; [reflexivity| |].
  - rewrite IH, andb_true_r. unfold okf. rewrite Hb. reflexivity.
  - rewrite IH, andb_true_r. unfold okf. apply orb_true_iff. right. apply memn_In.
    eapply stable_closed; eauto.
Qed.

Definition result : list nat := iter (S (length R)) gpass [].

(* the computed set is exactly the set of left-hand sides that have a derivation *)
Theorem result_spec x : In x result <-> exists rhs, In (x, rhs) R /\ gen rhs.
Proof.
  split.
  - apply (iter_sound (S (length R)) []). intros y [].
  - intros (rhs & Hr & Hg). apply (stable_closed result result_stable x rhs Hr). apply gen_ok; [apply result_stable | exact Hg].
Qed.
End Gen.

(* ---------- the two closures of set_empty_access_derives ---------- *)
Section Inst.
Variable terms : list (nat * Z).
Variable rules : list rrule.

Lemma productive_is_result : productive terms rules = result (arules rules) (is_term terms).
Proof. reflexivity. Qed.
Lemma nullable_is_result : nullable rules = result (arules rules) (fun _ => false).
Proof. reflexivity. Qed.

(* x is marked "derives a terminal string" iff it has a rule whose right-hand side can be rewritten to terminals *)
Theorem productive_spec x :
  memn x (productive terms rules) = true <->
  exists rhs, In (x, rhs) (arules rules) /\ gen (arules rules) (is_term terms) rhs.
Proof. rewrite memn_In, productive_is_result. apply result_spec. Qed.

(* x is marked "derives the empty string" iff it has a rule whose right-hand side can be rewritten to nothing *)
Theorem nullable_spec x :
  memn x (nullable rules) = true <->
  exists rhs, In (x, rhs) (arules rules) /\ gen (arules rules) (fun _ => false) rhs.
Proof. rewrite memn_In, nullable_is_result. apply result_spec. Qed.

End Inst.
