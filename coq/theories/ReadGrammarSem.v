(* ReadGrammarSem: what the flags computed by set_empty_access_derives mean.
   The model (ReadGrammar.v) computes "derives a terminal string" and "derives
   the empty string" like the C code: passes over all rules, repeated a fixed
   number of times.  Here: the result is exactly the least set closed under the
   rules, i.e. a nonterminal is in [productive] iff it has a derivation to a
   string of terminals, in [nullable] iff it derives the empty string - the
   number of passes (one more than the number of rules) always suffices. *)
From YV Require Import Prelude Generated ReadGrammar.

Lemma NoDup_snoc {A} (l : list A) x : NoDup l -> ~ In x l -> NoDup (l ++ [x]).
Proof.
  induction l as [|y l IH]; intros H Hx; simpl; [constructor; [intros [] | constructor]|].
  inversion H; subst. constructor.
  - intros Hin. apply in_app_or in Hin. destruct Hin as [Hin|[<-|[]]]; [contradiction | apply Hx; left; reflexivity].
  - apply IH; [assumption | intros Hin; apply Hx; right; exact Hin].
Qed.

Section Gen.
Variable R : list (nat * list nat).     (* rules: lhs, rhs *)
Variable B : nat -> bool.               (* symbols that are fine by themselves (terminals; none for nullability) *)

(* every symbol of the list is fine by itself or has a rule whose right-hand side is, recursively *)
Inductive gen : list nat -> Prop :=
| gen_nil : gen []
| gen_B s l : B s = true -> gen l -> gen (s :: l)
| gen_R s rhs l : In (s, rhs) R -> gen rhs -> gen l -> gen (s :: l).

Lemma gen_app l1 l2 : gen l1 -> gen l2 -> gen (l1 ++ l2).
Proof. induction 1; intros H2; simpl; auto; [apply gen_B; auto | eapply gen_R; eauto]. Qed.

Lemma gen_forall l : (forall s, In s l -> gen [s]) -> gen l.
Proof.
  induction l as [|s l IH]; intros H; [constructor|].
  change (s :: l) with ([s] ++ l). apply gen_app; [apply H; left; reflexivity | apply IH; intros x Hx; apply H; right; exact Hx].
Qed.

Definition okf (acc : list nat) (s : nat) : bool := B s || memn s acc.
Definition step (acc : list nat) (r : nat * list nat) : list nat :=
  if negb (memn (fst r) acc) && forallb (okf acc) (snd r) then acc ++ [fst r] else acc.
Definition gpass (set : list nat) : list nat := fold_left step R set.

Lemma memn_In x l : memn x l = true <-> In x l.
Proof.
  unfold memn. rewrite existsb_exists. split.
  - intros (y & Hy & E). apply Nat.eqb_eq in E. subst. exact Hy.
  - intros H. exists x. split; [exact H | apply Nat.eqb_refl].
Qed.

(* ----- soundness: everything put into the set has a derivation ----- *)
Definition Sound (set : list nat) : Prop := forall x, In x set -> exists rhs, In (x, rhs) R /\ gen rhs.

Lemma okf_gen acc s : Sound acc -> okf acc s = true -> gen [s].
Proof.
  intros HS H. unfold okf in H. apply orb_true_iff in H. destruct H as [H|H].
  - apply gen_B; [exact H | constructor].
  - apply memn_In in H. destruct (HS s H) as (rhs & Hr & Hg). eapply gen_R; eauto. constructor.
Qed.

Lemma fold_sound : forall rs acc, (forall r, In r rs -> In r R) -> Sound acc -> Sound (fold_left step rs acc).
Proof.
  induction rs as [|r rs IH]; intros acc Hin HS; cbn [fold_left]; [exact HS|].
  apply IH; [intros r' Hr'; apply Hin; right; exact Hr'|].
  unfold step. destruct (negb (memn (fst r) acc) && forallb (okf acc) (snd r)) eqn:E; [|exact HS].
  apply andb_prop in E. destruct E as [_ E]. rewrite forallb_forall in E.
  intros x Hx. apply in_app_or in Hx. destruct Hx as [Hx|[<-|[]]]; [apply HS; exact Hx|].
  exists (snd r). split; [destruct r; apply Hin; left; reflexivity|].
  apply gen_forall. intros s Hs. apply (okf_gen acc); auto.
Qed.

Lemma gpass_sound set : Sound set -> Sound (gpass set).
Proof. apply fold_sound. auto. Qed.

Lemma iter_sound n : forall set, Sound set -> Sound (iter n gpass set).
Proof. induction n as [|n IH]; intros set H; cbn [iter]; auto. apply IH, gpass_sound, H. Qed.

(* ----- the passes only append, without repetition, left-hand sides of rules ----- *)
Definition Good (set : list nat) : Prop := NoDup set /\ incl set (map fst R).

Lemma step_ext acc r : exists extra, step acc r = acc ++ extra.
Proof. unfold step. destruct (_ && _); [exists [fst r] | exists []; rewrite app_nil_r]; reflexivity. Qed.

Lemma fold_ext : forall rs acc, exists extra, fold_left step rs acc = acc ++ extra.
Proof.
  induction rs as [|r rs IH]; intros acc; cbn [fold_left]; [exists []; rewrite app_nil_r; reflexivity|].
  destruct (step_ext acc r) as (e1 & ->). destruct (IH (acc ++ e1)) as (e2 & ->). exists (e1 ++ e2). rewrite app_assoc. reflexivity.
Qed.

Lemma fold_good : forall rs acc, (forall r, In r rs -> In r R) -> Good acc -> Good (fold_left step rs acc).
Proof.
  induction rs as [|r rs IH]; intros acc Hin HG; cbn [fold_left]; [exact HG|].
  apply IH; [intros r' Hr'; apply Hin; right; exact Hr'|].
  unfold step. destruct (negb (memn (fst r) acc) && forallb (okf acc) (snd r)) eqn:E; [|exact HG].
  apply andb_prop in E. destruct E as [E _]. apply negb_true_iff in E.
  destruct HG as [ND Inc]. split.
  - apply NoDup_snoc; [exact ND|]. intros H. apply memn_In in H. congruence.
  - intros x Hx. apply in_app_or in Hx. destruct Hx as [Hx|[<-|[]]]; [apply Inc; exact Hx|].
    apply in_map. apply Hin. left. reflexivity.
Qed.

Lemma gpass_good set : Good set -> Good (gpass set).
Proof. apply fold_good. auto. Qed.
Lemma iter_good n : forall set, Good set -> Good (iter n gpass set).
Proof. induction n as [|n IH]; intros set H; cbn [iter]; auto. apply IH, gpass_good, H. Qed.

Lemma good_bound set : Good set -> length set <= length R.
Proof. intros [ND Inc]. rewrite <- (map_length fst R). apply NoDup_incl_length; assumption. Qed.

(* ----- the number of passes suffices: the result is stable ----- *)
Lemma gpass_grows set : gpass set = set \/ length set < length (gpass set).
Proof.
  unfold gpass. destruct (fold_ext R set) as ([|e extra] & E); rewrite E.
  - left. apply app_nil_r.
  - right. rewrite app_length. simpl. lia.
Qed.

Lemma stable_stays n : forall set, gpass set = set -> iter n gpass set = set.
Proof. induction n as [|n IH]; intros set H; cbn [iter]; [reflexivity|]. rewrite H. apply IH, H. Qed.

Lemma iter_progress n : forall set,
  gpass (iter n gpass set) = iter n gpass set \/ length set + n <= length (iter n gpass set).
Proof.
  induction n as [|n IH]; intros set; cbn [iter]; [right; lia|].
  destruct (gpass_grows set) as [E|L].
  - left. rewrite E. rewrite (stable_stays n set E). exact E.
  - destruct (IH (gpass set)) as [Hst|G]; [left; exact Hst | right; lia].
Qed.

Theorem result_stable : gpass (iter (S (length R)) gpass []) = iter (S (length R)) gpass [].
Proof.
  destruct (iter_progress (S (length R)) []) as [Hst|G]; [exact Hst|]. exfalso.
  assert (HG : Good (iter (S (length R)) gpass [])) by (apply iter_good; split; [constructor | intros x []]).
  apply good_bound in HG. change (length (@nil nat)) with 0 in G. lia.
Qed.

(* ----- a stable set is closed under the rules ----- *)
Lemma fold_stable : forall rs acc, fold_left step rs acc = acc -> forall r, In r rs -> step acc r = acc.
Proof.
  induction rs as [|r rs IH]; intros acc H r' Hr'; [destruct Hr'|]. cbn [fold_left] in H.
  destruct (step_ext acc r) as (e1 & E1). destruct (fold_ext rs (step acc r)) as (e2 & E2).
  assert (Z : e1 ++ e2 = []).
  { rewrite E2, E1, <- app_assoc in H. rewrite <- (app_nil_r acc) in H at 2. apply app_inv_head in H. exact H. }
  apply app_eq_nil in Z. destruct Z as [-> ->]. rewrite app_nil_r in E1.
  destruct Hr' as [<-|Hr']; [exact E1|]. apply IH; [rewrite E1 in H; exact H | exact Hr'].
Qed.

Lemma stable_closed P : gpass P = P -> forall x rhs, In (x, rhs) R -> forallb (okf P) rhs = true -> In x P.
Proof.
  intros HS x rhs Hr Hok. pose proof (fold_stable R P HS (x, rhs) Hr) as E. unfold step in E. cbn [fst snd] in E.
  rewrite Hok, andb_true_r in E. destruct (memn x P) eqn:M; [apply memn_In; exact M|].
  cbn [negb] in E. exfalso. rewrite <- (app_nil_r P) in E at 2. apply app_inv_head in E. discriminate.
Qed.

Lemma gen_ok P : gpass P = P -> forall l, gen l -> forallb (okf P) l = true.
Proof.
  intros HS l H. induction H as [| s l Hb _ IH | s rhs l Hr _ IHr _ IH]; cbn [forallb]; [reflexivity| |].
  - rewrite IH, andb_true_r. unfold okf. rewrite Hb. reflexivity.
  - rewrite IH, andb_true_r. unfold okf. apply orb_true_iff. right. apply memn_In.
    eapply stable_closed; eauto.
Qed.

Definition result : list nat := iter (S (length R)) gpass [].

(* the computed set is exactly the set of left-hand sides that have a derivation *)
Theorem result_spec x : In x result <-> exists rhs, In (x, rhs) R /\ gen rhs.
Proof.
  split.
  - apply (iter_sound (S (length R)) []). intros y [].
  - intros (rhs & Hr & Hg). apply (stable_closed result result_stable x rhs Hr). apply gen_ok; [apply result_stable | exact Hg].
Qed.
End Gen.


(* ---------- reachability (access_p) ---------- *)
Section Reach.
Variable R : list (nat * list nat).
Variable root : nat.

Inductive reachable : nat -> Prop :=
| rf_root : reachable root
| rf_step x rhs s : reachable x -> In (x, rhs) R -> In s rhs -> reachable s.

Definition addall (rhs acc : list nat) : list nat := fold_left (fun a s => if memn s a then a else a ++ [s]) rhs acc.
Definition rstep (acc : list nat) (r : nat * list nat) : list nat := if memn (fst r) acc then addall (snd r) acc else acc.
Definition rpass (set : list nat) : list nat := fold_left rstep R set.

Lemma addall_ext : forall rhs acc, exists extra, addall rhs acc = acc ++ extra.
Proof.
  induction rhs as [|s rhs IH]; intros acc; cbn [addall fold_left]; [exists []; rewrite app_nil_r; reflexivity|].
  destruct (memn s acc); [apply IH|]. destruct (IH (acc ++ [s])) as (e & E). exists ([s] ++ e). unfold addall in E. rewrite E, app_assoc. reflexivity.
Qed.
Lemma addall_in : forall rhs acc s, In s rhs -> In s (addall rhs acc).
Proof.
  induction rhs as [|x rhs IH]; intros acc s H; [destruct H|]. cbn [addall fold_left]. destruct H as [->|H].
  - destruct (memn s acc) eqn:E.
    + destruct (addall_ext rhs acc) as (e & X). unfold addall in X. rewrite X. apply in_or_app. left. apply memn_In. exact E.
    + destruct (addall_ext rhs (acc ++ [s])) as (e & X). unfold addall in X. rewrite X. apply in_or_app. left. apply in_or_app. right. left. reflexivity.
  - destruct (memn x acc); apply IH; exact H.
Qed.
Lemma addall_same : forall rhs acc, (forall s, In s rhs -> In s acc) -> addall rhs acc = acc.
Proof.
  induction rhs as [|x rhs IH]; intros acc H; [reflexivity|]. cbn [addall fold_left].
  assert (E : memn x acc = true) by (apply memn_In, H; left; reflexivity). rewrite E. apply IH. intros s Hs. apply H. right. exact Hs.
Qed.
Lemma addall_from : forall rhs acc s, In s (addall rhs acc) -> In s acc \/ In s rhs.
Proof.
  induction rhs as [|x rhs IH]; intros acc s H; [left; exact H|]. cbn [addall fold_left] in H. destruct (memn x acc).
  - destruct (IH _ _ H); [left; assumption | right; right; assumption].
  - destruct (IH _ _ H) as [X|X]; [|right; right; exact X]. apply in_app_or in X. destruct X as [X|[<-|[]]]; [left; exact X | right; left; reflexivity].
Qed.

Lemma rstep_ext acc r : exists extra, rstep acc r = acc ++ extra.
Proof. unfold rstep. destruct (memn (fst r) acc); [apply addall_ext | exists []; rewrite app_nil_r; reflexivity]. Qed.
Lemma rfold_ext : forall rs acc, exists extra, fold_left rstep rs acc = acc ++ extra.
Proof.
  induction rs as [|r rs IH]; intros acc; cbn [fold_left]; [exists []; rewrite app_nil_r; reflexivity|].
  destruct (rstep_ext acc r) as (e1 & ->). destruct (IH (acc ++ e1)) as (e2 & ->). exists (e1 ++ e2). rewrite app_assoc. reflexivity.
Qed.
Lemma rpass_mono set x : In x set -> In x (rpass set).
Proof. intros H. unfold rpass. destruct (rfold_ext R set) as (e & ->). apply in_or_app. left. exact H. Qed.

(* soundness *)
Lemma rfold_sound : forall rs acc, (forall r, In r rs -> In r R) -> (forall x, In x acc -> reachable x) ->
  forall x, In x (fold_left rstep rs acc) -> reachable x.
Proof.
  induction rs as [|r rs IH]; intros acc Hin HS x Hx; cbn [fold_left] in Hx; [apply HS; exact Hx|].
  apply (IH (rstep acc r)); auto; [intros r' Hr'; apply Hin; right; exact Hr'|].
  intros y Hy. unfold rstep in Hy. destruct (memn (fst r) acc) eqn:E; [|apply HS; exact Hy].
  apply addall_from in Hy. destruct Hy as [Hy|Hy]; [apply HS; exact Hy|].
  apply (rf_step (fst r) (snd r) y); [apply HS, memn_In, E | destruct r; apply Hin; left; reflexivity | exact Hy].
Qed.
Lemma riter_sound n : forall set, (forall x, In x set -> reachable x) -> forall x, In x (iter n rpass set) -> reachable x.
Proof. induction n as [|n IH]; intros set H x Hx; cbn [iter] in Hx; [apply H; exact Hx|]. apply (IH (rpass set)); auto. apply rfold_sound; auto. Qed.

(* one pass fires every rule whose left-hand side is in the set *)
Lemma rfold_fires : forall rs acc r, In r rs -> In (fst r) acc -> forall s, In s (snd r) -> In s (fold_left rstep rs acc).
Proof.
  induction rs as [|r0 rs IH]; intros acc r Hr Hl s Hs; [destruct Hr|]. cbn [fold_left]. destruct Hr as [->|Hr].
  - destruct (rfold_ext rs (rstep acc r)) as (e & ->). apply in_or_app. left. unfold rstep.
    assert (E : memn (fst r) acc = true) by (apply memn_In; exact Hl). rewrite E. apply addall_in. exact Hs.
  - apply (IH _ r Hr); [|exact Hs]. destruct (rstep_ext acc r0) as (e & ->). apply in_or_app. left. exact Hl.
Qed.

(* a set closed under the rules is not changed by a pass *)
Lemma rfold_closed : forall rs T, (forall r, In r rs -> In (fst r) T -> forall s, In s (snd r) -> In s T) -> fold_left rstep rs T = T.
Proof.
  induction rs as [|r rs IH]; intros T H; [reflexivity|]. cbn [fold_left].
  assert (E : rstep T r = T).
  { unfold rstep. destruct (memn (fst r) T) eqn:M; [|reflexivity]. apply addall_same. intros s Hs. apply (H r); [left; reflexivity | apply memn_In; exact M | exact Hs]. }
  rewrite E. apply IH. intros r' Hr'. apply H. right. exact Hr'.
Qed.
Lemma rstable_closed T : rpass T = T -> forall r, In r R -> In (fst r) T -> forall s, In s (snd r) -> In s T.
Proof. intros HS r Hr Hl s Hs. rewrite <- HS. apply (rfold_fires R T r Hr Hl s Hs). Qed.

(* progress measure: the number of rules whose left-hand side is in the set *)
Definition cnt (set : list nat) : nat := length (filter (fun r => memn (fst r) set) R).

Lemma filter_len_mono {A} (p q : A -> bool) l : (forall x, p x = true -> q x = true) -> length (filter p l) <= length (filter q l).
Proof.
  intros H. induction l as [|x l IH]; cbn [filter]; [lia|]. destruct (p x) eqn:P.
  - rewrite (H x P). cbn [length]. lia.
  - destruct (q x); cbn [length]; lia.
Qed.
Lemma filter_len_eq {A} (p q : A -> bool) l : (forall x, p x = true -> q x = true) ->
  length (filter p l) = length (filter q l) -> forall x, In x l -> q x = p x.
Proof.
  intros H. induction l as [|y l IH]; intros E x Hx; [destruct Hx|]. cbn [filter] in E.
  pose proof (filter_len_mono p q l H) as M. destruct (p y) eqn:P.
  - rewrite (H y P) in E. cbn [length] in E. destruct Hx as [<-|Hx]; [rewrite (H y P), P; reflexivity | apply IH; [lia | exact Hx]].
  - destruct (q y) eqn:Q; cbn [length] in E; [lia|]. destruct Hx as [<-|Hx]; [congruence | apply IH; [exact E | exact Hx]].
Qed.

Lemma cnt_mono set : cnt set <= cnt (rpass set).
Proof. apply filter_len_mono. intros r H. apply memn_In. apply rpass_mono. apply memn_In. exact H. Qed.
Lemma cnt_bound set : cnt set <= length R.
Proof. unfold cnt. induction R as [|r l IH]; cbn [filter length]; [lia|]. destruct (memn (fst r) set); cbn [length]; lia. Qed.

Lemma rpass_progress set : rpass (rpass set) = rpass set \/ cnt set < cnt (rpass set).
Proof.
  destruct (Nat.eq_dec (cnt set) (cnt (rpass set))) as [E|N]; [left | right; pose proof (cnt_mono set); lia].
  assert (Same : forall r, In r R -> memn (fst r) (rpass set) = memn (fst r) set).
  { apply (filter_len_eq (fun r => memn (fst r) set) (fun r => memn (fst r) (rpass set)) R); [|exact E].
    intros r H. apply memn_In. apply rpass_mono. apply memn_In. exact H. }
  apply rfold_closed. intros r Hr Hl s Hs.
  assert (Hl' : In (fst r) set) by (apply memn_In; rewrite <- (Same r Hr); apply memn_In; exact Hl).
  apply (rfold_fires R set r Hr Hl' s Hs).
Qed.

Lemma rstable_stays n : forall set, rpass set = set -> iter n rpass set = set.
Proof. induction n as [|n IH]; intros set H; cbn [iter]; [reflexivity|]. rewrite H. apply IH, H. Qed.

Lemma iter_S {A} (f : A -> A) n : forall x, iter (S n) f x = f (iter n f x).
Proof. induction n as [|n IH]; intros x; [reflexivity|]. cbn [iter] in *. rewrite <- IH. reflexivity. Qed.

(* after n passes either the next pass already changes nothing, or at least n rules have their left-hand side in the set *)
Lemma riter_progress n : forall set,
  rpass (iter (S n) rpass set) = iter (S n) rpass set \/ n <= cnt (iter n rpass set).
Proof.
  induction n as [|n IH]; intros set; [right; lia|].
  destruct (IH set) as [St|G].
  - left. rewrite (iter_S rpass (S n)). rewrite St. exact St.
  - rewrite !iter_S. destruct (rpass_progress (iter n rpass set)) as [St|L].
    + left. rewrite St. exact St.
    + right. lia.
Qed.

Theorem reach_result_stable : rpass (iter (S (length R)) rpass [root]) = iter (S (length R)) rpass [root].
Proof.
  destruct (riter_progress (length R) [root]) as [St|G]; [exact St|].
  rewrite iter_S. destruct (rpass_progress (iter (length R) rpass [root])) as [S2|L]; [exact S2|].
  pose proof (cnt_bound (rpass (iter (length R) rpass [root]))). lia.
Qed.

Theorem reach_result_spec x : In x (iter (S (length R)) rpass [root]) <-> reachable x.
Proof.
  split.
  - apply riter_sound. intros y [<-|[]]. constructor.
  - intros H. induction H as [|y rhs s Hy IH Hr Hs].
    + assert (M : forall n set, In root set -> In root (iter n rpass set)).
      { induction n as [|n IHn]; intros set Hin; cbn [iter]; [exact Hin|]. apply IHn. apply rpass_mono. exact Hin. }
      apply M. left. reflexivity.
    + apply (rstable_closed _ reach_result_stable (y, rhs) Hr IH s Hs).
Qed.
End Reach.

(* ---------- the two closures of set_empty_access_derives ---------- *)
Section Inst.
Variable terms : list (nat * Z).
Variable rules : list rrule.

Lemma productive_is_result : productive terms rules = result (arules rules) (is_term terms).
Proof. reflexivity. Qed.
Lemma nullable_is_result : nullable rules = result (arules rules) (fun _ => false).
Proof. reflexivity. Qed.

(* x is marked "derives a terminal string" iff it has a rule whose right-hand side can be rewritten to terminals *)
Theorem productive_spec x :
  memn x (productive terms rules) = true <->
  exists rhs, In (x, rhs) (arules rules) /\ gen (arules rules) (is_term terms) rhs.
Proof. rewrite memn_In, productive_is_result. apply result_spec. Qed.

(* x is marked "derives the empty string" iff it has a rule whose right-hand side can be rewritten to nothing *)
Theorem nullable_spec x :
  memn x (nullable rules) = true <->
  exists rhs, In (x, rhs) (arules rules) /\ gen (arules rules) (fun _ => false) rhs.
Proof. rewrite memn_In, nullable_is_result. apply result_spec. Qed.

(* x is marked accessible iff it can be reached from the axiom through right-hand sides *)
Lemma reachable_is_result : ReadGrammar.reachable rules = iter (S (length (arules rules))) (rpass (arules rules)) [n_axiom].
Proof. reflexivity. Qed.
Theorem reachable_spec x :
  memn x (ReadGrammar.reachable rules) = true <-> reachable (arules rules) n_axiom x.
Proof. rewrite memn_In, reachable_is_result. apply reach_result_spec. Qed.

End Inst.

(* S : A B | c ; A : A a ; B : (empty) ; U : u   with terminals a c u (names 10 11 12), S = 20, A = 21, B = 22, U = 23:
   A is not productive, B is nullable, U is not reachable *)
Example flags_ex :
  let terms := [(10, 1%Z); (11, 2%Z); (12, 3%Z)] in
  let rules := [ {| r_lhs := 20; r_rhs := [21; 22]; r_anode := false; r_cost := 0%Z; r_transl := [] |};
                 {| r_lhs := 20; r_rhs := [11]; r_anode := false; r_cost := 0%Z; r_transl := [] |};
                 {| r_lhs := 21; r_rhs := [21; 10]; r_anode := false; r_cost := 0%Z; r_transl := [] |};
                 {| r_lhs := 22; r_rhs := []; r_anode := false; r_cost := 0%Z; r_transl := [] |};
                 {| r_lhs := 23; r_rhs := [12]; r_anode := false; r_cost := 0%Z; r_transl := [] |} ] in
  memn 21 (productive terms rules) = false /\ memn 20 (productive terms rules) = true /\
  memn 22 (nullable rules) = true /\ memn 20 (nullable rules) = false /\
  memn 23 (ReadGrammar.reachable rules) = false /\ memn 22 (ReadGrammar.reachable rules) = true.
Proof. vm_compute. auto 10. Qed.
