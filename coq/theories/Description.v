(* Description: the YACC-like grammar description language of
   yaep_parse_grammar - the hand-written lexer (yylex), a recursive-descent
   parser for the (conflict-free LALR) grammar of sgramm.y, and the
   post-processing of set_sgrammar (duplicate elimination, implicit codes).
   Text is a list of byte values. *)
From YV Require Import Prelude Generated.
Local Open Scope nat_scope.

Definition byte := nat.
Definition is_digit (c : byte) : bool := (48 <=? c) && (c <=? 57).
Definition is_alpha (c : byte) : bool := ((65 <=? c) && (c <=? 90)) || ((97 <=? c) && (c <=? 122)).
Definition is_idstart (c : byte) : bool := is_alpha c || (c =? 95).
Definition is_idchar (c : byte) : bool := is_alpha c || is_digit c || (c =? 95).
Definition is_space (c : byte) : bool := (c =? 32) || (c =? 9) || (c =? 10).
Definition is_punct (c : byte) : bool :=
  (c =? 61) || (c =? 35) || (c =? 124) || (c =? 59) || (c =? 45) || (c =? 40) || (c =? 41).   (* = # | ; - ( ) *)

Inductive tok :=
| TIdent (s : list byte) | TSem (s : list byte) | TChar (c : byte) | TNum (n : Z) | TTerm | TPunct (c : byte).

Fixpoint span (p : byte -> bool) (s : list byte) : list byte * list byte :=
  match s with
  | c :: s' => if p c then let '(a, b) := span p s' in (c :: a, b) else ([], s)
  | [] => ([], [])
  end.

Fixpoint skip_comment (s : list byte) : option (list byte) :=     (* after the opening; None: unfinished *)
  match s with
  | c :: s' => match c, s' with
               | 42, 47 :: r => Some r
               | _, _ => skip_comment s'
               end
  | [] => None
  end.

Definition num_of (ds : list byte) : Z := fold_left (fun acc d => (acc * 10 + Z.of_nat (d - 48))%Z) ds 0%Z.
Definition TERM_kw : list byte := [84; 69; 82; 77].
Fixpoint bytes_eqb (a b : list byte) : bool :=
  match a, b with
  | [], [] => true
  | x :: a', y :: b' => Nat.eqb x y && bytes_eqb a' b'
  | _, _ => false
  end.
Lemma bytes_eqb_spec a : forall b, bytes_eqb a b = true <-> a = b.
Proof.
  induction a as [|x a IH]; intros [|y b]; simpl; split; intros H; try discriminate; auto.
  - apply andb_true_iff in H. destruct H as [H1 H2]. apply Nat.eqb_eq in H1. apply IH in H2. congruence.
  - injection H as -> ->. rewrite Nat.eqb_refl. now apply IH.
Qed.

(* yylex, token by token; None = lexical error (description syntax error) *)
Fixpoint lex (fuel : nat) (s : list byte) : option (list tok) :=
  match fuel with
  | O => None
  | S f =>
    match s with
    | [] => Some []
    | c :: s' =>
      if is_space c then lex f s'
      else if c =? 47 then
        match s' with
        | 42 :: s'' => match skip_comment s'' with Some r => lex f r | None => None end
        | _ => None
        end
      else if is_punct c then option_map (cons (TPunct c)) (lex f s')
      else if c =? 39 then
        match s' with
        | ch :: 39 :: r => option_map (cons (TChar ch)) (lex f r)
        | _ => None
        end
      else if is_idstart c then
        let '(id, r) := span is_idchar s in
        if bytes_eqb id TERM_kw then option_map (cons TTerm) (lex f r)
        else let '(_, r2) := span is_space r in
             match r2 with
             | 58 :: r3 => option_map (cons (TSem id)) (lex f r3)
             | _ => option_map (cons (TIdent id)) (lex f r2)
             end
      else if is_digit c then
        let '(ds, r) := span is_digit s in
        if (2147483647 <? num_of ds)%Z then None      (* too big for int: a syntax error *)
        else option_map (cons (TNum (num_of ds))) (lex f r)
      else None
    end
  end.

(* ---------- syntax ---------- *)
Record srule := { s_lhs : list byte; s_rhs : list (list byte); s_anode : option (list byte);
                  s_cost : Z; s_trans : list Z }.
Definition sterm := (list byte * Z)%type.        (* representation, explicit code or -1 *)
Definition NILZ : Z := 2147483647%Z.

(* an item of the description in textual order: a terminal occurrence or a rule *)
Inductive sitem := ITerm (t : sterm) | IRule (r : srule).

Fixpoint parse_numbers (ts : list tok) : list Z * list tok :=
  match ts with
  | TNum n :: r => let '(ns, r') := parse_numbers r in (n :: ns, r')
  | TPunct 45 :: r => let '(ns, r') := parse_numbers r in (NILZ :: ns, r')
  | _ => ([], ts)
  end.

Definition parse_trans (ts : list tok) : option ((option (list byte) * Z * list Z) * list tok) :=
  match ts with
  | TPunct 35 :: TNum n :: r => Some ((None, 0%Z, [n]), r)
  | TPunct 35 :: TPunct 45 :: r => Some ((None, 0%Z, [NILZ]), r)
  | TPunct 35 :: TIdent nm :: r =>
      let '(cost, r1) := match r with TNum c :: r' => (c, r') | _ => (1%Z, r) end in
      match r1 with
      | TPunct 40 :: r2 =>
          let '(nums, r3) := parse_numbers r2 in
          match r3 with TPunct 41 :: r4 => Some ((Some nm, cost, nums), r4) | _ => None end
      | _ => Some ((Some nm, cost, []), r1)
      end
  | TPunct 35 :: r => Some ((None, 0%Z, []), r)
  | _ => Some ((None, 0%Z, []), ts)
  end.

(* seq: identifiers and character constants; a character constant is also a terminal occurrence *)
Fixpoint parse_seq (ts : list tok) : list (list byte) * list sterm * list tok :=
  match ts with
  | TIdent nm :: r => let '(ss, tms, r') := parse_seq r in (nm :: ss, tms, r')
  | TChar c :: r => let '(ss, tms, r') := parse_seq r in
                    ([39; c; 39] :: ss, ([39; c; 39], Z.of_nat c) :: tms, r')
  | _ => ([], [], ts)
  end.

(* the byte of a character constant is read as unsigned char (fact of the source); read as a plain C `char' the
   bytes above 127 would be negative codes, which set_sgrammar takes for "no code given" *)
Definition char_code (c : byte) : Z :=
  if char_const_code_unsigned then Z.of_nat c else if c <? 128 then Z.of_nat c else (Z.of_nat c - 256)%Z.

Fixpoint fix_char_codes (tms : list sterm) : list sterm :=
  match tms with
  | (([39; c; 39] as nm), _) :: r => (nm, char_code c) :: fix_char_codes r
  | t :: r => t :: fix_char_codes r
  | [] => []
  end.

(* rhs : alt ('|' alt)* *)
Fixpoint parse_rhs (fuel : nat) (lhs : list byte) (ts : list tok) : option (list sitem * list tok) :=
  match fuel with
  | O => None
  | S f =>
      let '(ss, tms, r1) := parse_seq ts in
      match parse_trans r1 with
      | None => None
      | Some ((an, cost, tr), r2) =>
          let items := map ITerm (fix_char_codes tms) ++
                       [IRule {| s_lhs := lhs; s_rhs := ss; s_anode := an;
                                 s_cost := (match an with Some _ => cost | None => 0%Z end); s_trans := tr |}] in
          match r2 with
          | TPunct 124 :: r3 => match parse_rhs f lhs r3 with
                                | Some (its, r4) => Some (items ++ its, r4)
                                | None => None end
          | _ => Some (items, r2)
          end
      end
  end.

Fixpoint parse_terms (ts : list tok) : list sitem * list tok :=
  match ts with
  | TIdent nm :: TPunct 61 :: TNum n :: r => let '(its, r') := parse_terms r in (ITerm (nm, n) :: its, r')
  | TIdent nm :: r => let '(its, r') := parse_terms r in (ITerm (nm, (-1)%Z) :: its, r')
  | _ => ([], ts)
  end.

Definition opt_sem (ts : list tok) : list tok := match ts with TPunct 59 :: r => r | _ => ts end.

Fixpoint parse_file (fuel : nat) (ts : list tok) : option (list sitem) :=
  match fuel with
  | O => None
  | S f =>
      match ts with
      | TTerm :: r =>
          let '(its, r1) := parse_terms r in
          let r2 := opt_sem r1 in
          match r2 with
          | [] => Some its
          | _ => match parse_file f r2 with Some rest => Some (its ++ rest) | None => None end
          end
      | TSem lhs :: r =>
          match parse_rhs (S (length r)) lhs r with
          | Some (its, r1) =>
              let r2 := opt_sem r1 in
              match r2 with
              | [] => Some its
              | _ => match parse_file f r2 with Some rest => Some (its ++ rest) | None => None end
              end
          | None => None
          end
      | _ => None
      end
  end.

(* ---------- set_sgrammar: terminals ---------- *)
Definition terms_of (its : list sitem) : list sterm := flat_map (fun i => match i with ITerm t => [t] | _ => [] end) its.
Definition rules_of (its : list sitem) : list srule := flat_map (fun i => match i with IRule r => [r] | _ => [] end) its.

(* keep the first occurrence of every name; a later occurrence with another explicit code is an error;
   a later occurrence with an explicit code gives its code to an entry kept without one *)
Definition set_code (nm : list byte) (c : Z) (seen : list sterm) : list sterm :=
  map (fun p => if bytes_eqb (fst p) nm then (fst p, c) else p) seen.
Fixpoint dedupe_terms (seen : list sterm) (ts : list sterm) : option (list sterm) :=
  match ts with
  | [] => Some seen
  | (nm, c) :: r =>
      match find (fun p => bytes_eqb (fst p) nm) seen with
      | Some (_, c0) => if (negb (Z.eqb c (-1)) && negb (Z.eqb c0 (-1)) && negb (Z.eqb c c0))%bool then None
                        else if Z.eqb c0 (-1) then dedupe_terms (set_code nm c seen) r
                        else dedupe_terms seen r
      | None => dedupe_terms (seen ++ [(nm, c)]) r
      end
  end.

(* implicit codes: the next code not used explicitly, from implicit_code_start upwards *)
Fixpoint next_free (fuel : nat) (used : list Z) (c : Z) : Z :=
  match fuel with
  | O => c
  | S f => if existsb (Z.eqb c) used then next_free f used (c + 1)%Z else c
  end.

Fixpoint assign_codes (used : list Z) (next : Z) (ts : list sterm) : list sterm :=
  match ts with
  | [] => []
  | (nm, c) :: r =>
      if (c <? 0)%Z
      then let c' := next_free (S (length used)) used next in (nm, c') :: assign_codes used (c' + 1)%Z r
      else (nm, c) :: assign_codes used next r
  end.

Inductive dresult :=
| DSyntax                        (* YAEP_DESCRIPTION_SYNTAX_ERROR_CODE *)
| DRepeatedCode                  (* a terminal described repeatedly with different codes *)
| DOk (terms : list sterm) (rules : list srule).

Definition desc_model (text : list byte) : dresult :=
  match lex (S (length text)) text with
  | None => DSyntax
  | Some toks =>
      match parse_file (S (length toks)) toks with
      | None => DSyntax
      | Some its =>
          match dedupe_terms [] (terms_of its) with
          | None => DRepeatedCode
          | Some ts =>
              let used := flat_map (fun t => if (snd t <? 0)%Z then [] else [snd t]) ts in
              DOk (assign_codes used implicit_code_start ts) (rules_of its)
          end
      end
  end.
