(* ReadGrammar: the intake of terminals and rules by yaep_read_grammar with its
   checks in the order of the C code (the code of the first failing check is
   returned), the documented defects as order-free deciders, and the theorems
   relating the two:  result = 0 <-> no defect;  result = c <> 0 -> defect c. *)
From YV Require Import Prelude Generated.
Local Open Scope Z_scope.

(* names are numbers; the reserved names have fixed numbers *)
Definition n_axiom : nat := 0.     (* "$S"   *)
Definition n_eof : nat := 1.       (* "$eof" *)
Definition n_error : nat := 2.     (* "error" *)
Definition NIL_NUM : Z := 2147483647.

Record rrule := { r_lhs : nat; r_rhs : list nat; r_anode : bool; r_cost : Z;
                  r_transl : list Z }.      (* elements up to (excluding) the negative end marker; [] also for a NULL array *)

Section RG.
Variable strict : bool.
Variable terms : list (nat * Z).
Variable rules : list rrule.

Definition tnames : list nat := map fst terms.
Definition is_declared_term (n : nat) : bool := existsb (Nat.eqb n) tnames.
(* terminals as the rules see them: declared ones, `error', and (after the first rule) `$eof' *)
Definition is_term (n : nat) : bool := is_declared_term n || Nat.eqb n n_error || Nat.eqb n n_eof.

(* ---------- terminal intake ---------- *)
Fixpoint terms_check (seen : list (nat * Z)) (ts : list (nat * Z)) : Z :=
  match ts with
  | [] => 0
  | (n, c) :: ts' =>
      if c <? 0 then 6
      else if existsb (fun p => Nat.eqb (fst p) n) seen then 5
      else if existsb (fun p => Z.eqb (snd p) c) seen then 7
      else terms_check (seen ++ [(n, c)]) ts'
  end.

(* ---------- per-rule checks ---------- *)
Definition two_translated (tr : list Z) : bool :=
  match tr with a :: b :: _ => true | _ => false end.

Fixpoint transl_check (rhs_len : Z) (seen : list Z) (tr : list Z) : Z :=
  match tr with
  | [] => 0
  | el :: tr' =>
      if rhs_len <=? el then (if Z.eqb el NIL_NUM then transl_check rhs_len seen tr' else 12)
      else if existsb (Z.eqb el) seen then 13
      else transl_check rhs_len (el :: seen) tr'
  end.

Definition reserved_in_rhs (r : rrule) : bool :=
  existsb (fun s => Nat.eqb s n_axiom || Nat.eqb s n_eof) (r_rhs r).

Definition rule_check (first : bool) (r : rrule) : Z :=
  if is_declared_term (r_lhs r) || Nat.eqb (r_lhs r) n_error || (negb first && Nat.eqb (r_lhs r) n_eof) then 9
  else if negb first && Nat.eqb (r_lhs r) n_axiom then 4
  else if negb (r_anode r) && two_translated (r_transl r) then 10
  else if r_anode r && (r_cost r <? 0) then 11
  else if first && (is_declared_term n_axiom || Nat.eqb (r_lhs r) n_axiom) then 4
  else if first && (is_declared_term n_eof || Nat.eqb (r_lhs r) n_eof) then 4
  else if reserved_in_rhs r then 4
  else transl_check (Z.of_nat (length (r_rhs r))) [] (r_transl r).

Fixpoint rules_check (first : bool) (rs : list rrule) : Z :=
  match rs with
  | [] => 0
  | r :: rs' => let c := rule_check first r in if Z.eqb c 0 then rules_check false rs' else c
  end.

(* ---------- analysis of the augmented grammar ---------- *)
Definition start : nat := match rules with r :: _ => r_lhs r | [] => 0%nat end.
Definition has_error_rule : bool :=
  existsb (fun r => Nat.eqb (r_lhs r) start && match r_rhs r with [s] => Nat.eqb s n_error | _ => false end) rules.
(* rule 0 is $S : start $eof ; the user's rules ; $S : error $eof when yaep adds it *)
Definition arules : list (nat * list nat) :=
  (n_axiom, [start; n_eof]) :: map (fun r => (r_lhs r, r_rhs r)) rules ++
  (if has_error_rule then [] else [(n_axiom, [n_error; n_eof])]).
Definition nonterms : list nat :=
  (* in the order yaep numbers them: lhs of the first rule, $S, then by first appearance *)
  let syms := flat_map (fun r => r_lhs r :: r_rhs r) rules in
  let nt := filter (fun s => negb (is_term s)) syms in
  fold_left (fun acc s => if existsb (Nat.eqb s) acc then acc else acc ++ [s])
            (match nt with s :: rest => s :: n_axiom :: rest | [] => [n_axiom] end) [].

Definition memn (x : nat) (l : list nat) : bool := existsb (Nat.eqb x) l.

(* one pass of a monotone closure: add the lhs of every rule whose rhs satisfies [ok] *)
Definition pass (ok : list nat -> nat -> bool) (set : list nat) : list nat :=
  fold_left (fun acc r => if negb (memn (fst r) acc) && forallb (ok acc) (snd r) then acc ++ [fst r] else acc) arules set.
Fixpoint iter {A} (n : nat) (f : A -> A) (x : A) : A := match n with O => x | S n' => iter n' f (f x) end.
Definition fuel : nat := S (length arules).

Definition nullable : list nat := iter fuel (pass (fun acc s => memn s acc)) [].
Definition productive : list nat := iter fuel (pass (fun acc s => is_term s || memn s acc)) [].
Definition reach_pass (set : list nat) : list nat :=
  fold_left (fun acc r => if memn (fst r) acc
                          then fold_left (fun a s => if memn s a then a else a ++ [s]) (snd r) acc else acc) arules set.
Definition reachable : list nat := iter fuel reach_pass [n_axiom].

(* x -> y : a rule x : alpha y beta with alpha, beta nullable *)
Definition unit_edges : list (nat * nat) :=
  flat_map (fun r =>
    flat_map (fun i => match nth_error (snd r) i with
                       | Some y => if negb (is_term y) &&
                                      forallb (fun j => Nat.eqb j i || memn (nth j (snd r) 0%nat) nullable) (seq 0 (length (snd r)))
                                   then [(fst r, y)] else []
                       | None => [] end) (seq 0 (length (snd r)))) arules.
(* set_loop_p: start from every target of an edge, repeatedly drop nodes without an edge into the set *)
Definition loop_pass (set : list nat) : list nat :=
  filter (fun x => existsb (fun e => Nat.eqb (fst e) x && memn (snd e) set) unit_edges) set.
Definition loops : list nat := iter (S (length unit_edges)) loop_pass
                                    (fold_left (fun acc e => if memn (snd e) acc then acc else acc ++ [snd e]) unit_edges []).

Definition grammar_check : Z :=
  let c :=
    if strict then
      match find (fun x => negb (memn x productive) || negb (memn x reachable)) nonterms with
      | Some x => if negb (memn x productive) then 15 else 14
      | None => 0
      end
    else if memn start productive then 0 else 15 in
  if Z.eqb c 0 then (match loops with [] => 0 | _ => 16 end) else c.

(* ---------- the model of yaep_read_grammar ---------- *)
Definition read_model : Z :=
  let c1 := terms_check [] terms in
  if negb (Z.eqb c1 0) then c1
  else if is_declared_term n_error then 4
  else let c2 := rules_check true rules in
  if negb (Z.eqb c2 0) then c2
  else match rules with [] => 8 | _ => grammar_check end.

(* ---------- the documented defects, order-free ---------- *)
Definition repeats {A} (eqb : A -> A -> bool) (l : list A) : bool :=
  (fix go (seen l : list A) : bool :=
     match l with [] => false | x :: l' => existsb (eqb x) seen || go (x :: seen) l' end) [] l.

Definition transl_out_of_range (r : rrule) : bool :=
  existsb (fun el => (Z.of_nat (length (r_rhs r)) <=? el) && negb (Z.eqb el NIL_NUM)) (r_transl r).
Definition transl_repeated (r : rrule) : bool :=
  repeats Z.eqb (filter (fun el => el <? Z.of_nat (length (r_rhs r))) (r_transl r)).

Definition defect_b (c : Z) : bool :=
  if Z.eqb c 4 then is_declared_term n_error || is_declared_term n_axiom || is_declared_term n_eof ||
                    existsb (fun r => Nat.eqb (r_lhs r) n_axiom || Nat.eqb (r_lhs r) n_eof || reserved_in_rhs r) rules
  else if Z.eqb c 5 then repeats Nat.eqb tnames
  else if Z.eqb c 6 then existsb (fun p => snd p <? 0) terms
  else if Z.eqb c 7 then repeats Z.eqb (map snd terms)
  else if Z.eqb c 8 then match rules with [] => true | _ => false end
  else if Z.eqb c 9 then existsb (fun r => is_term (r_lhs r)) rules
  else if Z.eqb c 10 then existsb (fun r => negb (r_anode r) && two_translated (r_transl r)) rules
  else if Z.eqb c 11 then existsb (fun r => r_anode r && (r_cost r <? 0)) rules
  else if Z.eqb c 12 then existsb transl_out_of_range rules
  else if Z.eqb c 13 then existsb transl_repeated rules
  else if Z.eqb c 14 then strict && existsb (fun x => negb (memn x reachable)) nonterms
  else if Z.eqb c 15 then if strict then existsb (fun x => negb (memn x productive)) nonterms else negb (memn start productive)
  else if Z.eqb c 16 then match loops with [] => false | _ => true end
  else false.

Definition well_formed_b : bool :=
  forallb (fun c => negb (defect_b c)) [4; 5; 6; 7; 8; 9; 10; 11; 12; 13; 14; 15; 16].

End RG.
