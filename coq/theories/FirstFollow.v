(* FirstFollow: a certificate for the sets the static lookahead (level 1) filters with.
   YAEP computes, by passes repeated until nothing changes (create_first_follow_sets), which nonterminals derive the
   empty string, FIRST and FOLLOW.  The iteration is not modelled: whatever sets come out, if they are *closed* under
   the rules ([closed_b], a finite boolean check that the correspondence run evaluates on the sets read from the
   implementation) they contain the exact FIRST / FOLLOW sets, hence the filter built from them keeps every item
   that lies on a derivation of the input (Lookahead.keep_superset_ok), hence verdict and error token are those of
   the unfiltered parser.  A fixpoint loop that stops too early yields sets that are not closed. *)
From YV Require Import Prelude EarleySpec Lookahead.

Definition memb (a : nat) (l : list nat) : bool := existsb (Nat.eqb a) l.
Definition oeqb (a b : option nat) : bool :=
  match a, b with Some x, Some y => Nat.eqb x y | None, None => true | _, _ => false end.
Definition memo (a : option nat) (l : list (option nat)) : bool := existsb (oeqb a) l.

Lemma memb_In a l : memb a l = true <-> In a l.
Proof.
  unfold memb. rewrite existsb_exists. split.
  - intros (x & Hx & E). apply Nat.eqb_eq in E. now subst.
  - intros H. exists a. split; auto. apply Nat.eqb_refl.
Qed.
Lemma oeqb_eq a b : oeqb a b = true <-> a = b.
Proof.
  destruct a as [x|], b as [y|]; simpl; split; intros H; try discriminate; auto.
  - apply Nat.eqb_eq in H. now subst.
  - injection H as ->. apply Nat.eqb_refl.
Qed.
Lemma memo_In a l : memo a l = true <-> In a l.
Proof.
  unfold memo. rewrite existsb_exists. split.
  - intros (x & Hx & E). apply oeqb_eq in E. now subst.
  - intros H. exists a. split; auto. now apply oeqb_eq.
Qed.

Section FF.
Variable g : grammar.
Variable axiom : nat.
Variable NL : list nat.                        (* nonterminals marked "derives the empty string" *)
Variable FI : nat -> list nat.                 (* FIRST of a nonterminal *)
Variable FO : nat -> list (option nat).        (* FOLLOW of a nonterminal; None: the end of the input *)

Definition nl (x : nat) : bool := memb x NL.
Definition nl_form (al : list symbol) : bool :=
  forallb (fun s => match s with T _ => false | N y => nl y end) al.
Fixpoint fi_form (al : list symbol) (a : nat) : bool :=
  match al with
  | [] => false
  | T b :: _ => Nat.eqb a b
  | N y :: r => memb a (FI y) || (nl y && fi_form r a)
  end.

Definition incl_b (l l' : list nat) : bool := forallb (fun a => memb a l') l.
Definition inclo_b (l l' : list (option nat)) : bool := forallb (fun a => memo a l') l.

(* FIRST of the left hand side contains what the right hand side can begin with *)
Fixpoint first_ok (x : nat) (al : list symbol) : bool :=
  match al with
  | [] => true
  | T b :: _ => memb b (FI x)
  | N y :: r => incl_b (FI y) (FI x) && (if nl y then first_ok x r else true)
  end.
(* what the form r can begin with is in the set S *)
Fixpoint form_first_into (r : list symbol) (S : list (option nat)) : bool :=
  match r with
  | [] => true
  | T b :: _ => memo (Some b) S
  | N z :: r' => forallb (fun a => memo (Some a) S) (FI z) && (if nl z then form_first_into r' S else true)
  end.
(* FOLLOW of every nonterminal of the right hand side contains what the rest can begin with, and FOLLOW of the left
   hand side when the rest can vanish *)
Fixpoint follow_ok (x : nat) (al : list symbol) : bool :=
  match al with
  | [] => true
  | T _ :: r => follow_ok x r
  | N y :: r => form_first_into r (FO y) && (if nl_form r then inclo_b (FO x) (FO y) else true) && follow_ok x r
  end.

Definition closed_rule (r : rule) : bool :=
  (if nl_form (rhs r) then nl (lhs r) else true) && first_ok (lhs r) (rhs r) && follow_ok (lhs r) (rhs r).
Definition closed_b : bool := forallb closed_rule g && memo None (FO axiom).

Hypothesis closed : closed_b = true.

Lemma closed_rule_of r : In r g -> closed_rule r = true.
Proof.
  intros H. unfold closed_b in closed. apply andb_prop in closed. destruct closed as [H1 _].
  rewrite forallb_forall in H1. auto.
Qed.
Lemma end_follows_axiom : memo None (FO axiom) = true.
Proof. unfold closed_b in closed. apply andb_prop in closed. tauto. Qed.

Lemma incl_b_spec l l' a : incl_b l l' = true -> memb a l = true -> memb a l' = true.
Proof. unfold incl_b. rewrite forallb_forall. intros H Ha. apply H. now apply memb_In. Qed.
Lemma inclo_b_spec l l' a : inclo_b l l' = true -> memo a l = true -> memo a l' = true.
Proof. unfold inclo_b. rewrite forallb_forall. intros H Ha. apply H. now apply memo_In. Qed.

(* ---------- nullable ---------- *)
Lemma derives_nil_nl al w : derives g al w -> w = [] -> nl_form al = true.
Proof.
  intros H. induction H as [|a al w H IH|r al w1 w2 Hr H1 IH1 H2 IH2]; intros E; simpl; auto.
  - discriminate.
  - apply app_eq_nil in E. destruct E as [-> ->].
    rewrite (IH2 eq_refl), andb_true_r.
    pose proof (closed_rule_of r Hr) as C. unfold closed_rule in C.
    apply andb_prop in C. destruct C as [C _]. apply andb_prop in C. destruct C as [C _].
    rewrite (IH1 eq_refl) in C. exact C.
Qed.

(* ---------- FIRST ---------- *)
Lemma first_ok_form x al a : first_ok x al = true -> fi_form al a = true -> memb a (FI x) = true.
Proof.
  induction al as [|[b|y] al IH]; simpl; intros H Ha; try discriminate.
  - apply Nat.eqb_eq in Ha. now subst.
  - apply andb_prop in H. destruct H as [H1 H2].
    apply orb_prop in Ha. destruct Ha as [Ha|Ha].
    + eapply incl_b_spec; eauto.
    + apply andb_prop in Ha. destruct Ha as [Hn Ha]. rewrite Hn in H2. auto.
Qed.

Lemma derives_first al w : derives g al w -> forall a v, w = a :: v -> fi_form al a = true.
Proof.
  intros H. induction H as [|b al w H IH|r al w1 w2 Hr H1 IH1 H2 IH2]; intros a v E; simpl.
  - discriminate.
  - injection E as -> _. apply Nat.eqb_refl.
  - destruct w1 as [|c w1].
    + simpl in E. apply orb_true_iff. right.
      assert (Hn : nl (lhs r) = true).
      { pose proof (closed_rule_of r Hr) as C. unfold closed_rule in C.
        apply andb_prop in C. destruct C as [C _]. apply andb_prop in C. destruct C as [C _].
        rewrite (derives_nil_nl _ _ H1 eq_refl) in C. exact C. }
      rewrite Hn. simpl. eapply IH2; eauto.
    + simpl in E. injection E as -> _. apply orb_true_iff. left.
      pose proof (closed_rule_of r Hr) as C. unfold closed_rule in C.
      apply andb_prop in C. destruct C as [C _]. apply andb_prop in C. destruct C as [_ C].
      eapply first_ok_form; [exact C|]. eapply IH1; eauto.
Qed.

(* ---------- FOLLOW ---------- *)
Lemma form_first_into_spec r S a : form_first_into r S = true -> fi_form r a = true -> memo (Some a) S = true.
Proof.
  induction r as [|[b|z] r IH]; simpl; intros H Ha; try discriminate.
  - apply Nat.eqb_eq in Ha. now subst.
  - apply andb_prop in H. destruct H as [H1 H2].
    apply orb_prop in Ha. destruct Ha as [Ha|Ha].
    + rewrite forallb_forall in H1. apply H1. now apply memb_In.
    + apply andb_prop in Ha. destruct Ha as [Hn Ha]. rewrite Hn in H2. auto.
Qed.

Lemma follow_ok_at x al y be : follow_ok x (al ++ N y :: be) = true ->
  form_first_into be (FO y) = true /\ (nl_form be = true -> inclo_b (FO x) (FO y) = true).
Proof.
  induction al as [|[b|z] al IH]; simpl; intros H.
  - apply andb_prop in H. destruct H as [H _]. apply andb_prop in H. destruct H as [H1 H2].
    split; auto. intros Hn. now rewrite Hn in H2.
  - auto.
  - apply andb_prop in H. destruct H as [_ H]. auto.
Qed.

Lemma reach_follow p x de : reachR g axiom p x de ->
  (forall a v, derives g de (a :: v) -> memo (Some a) (FO x) = true) /\
  (derives g de [] -> memo None (FO x) = true).
Proof.
  intros H. induction H as [|p1 p2 r al x be de Hre [IH1 IH2] Hr Hrhs Hal].
  - split.
    + intros a v Hd. inversion Hd.
    + intros _. exact end_follows_axiom.
  - pose proof (closed_rule_of r Hr) as C. unfold closed_rule in C.
    apply andb_prop in C. destruct C as [_ C]. rewrite Hrhs in C.
    destruct (follow_ok_at _ _ _ _ C) as [F1 F2].
    split.
    + intros a v Hd. destruct (derives_app_inv g _ _ _ Hd) as (u & v' & E & Hu & Hv).
      destruct u as [|c u].
      * simpl in E. subst v'. eapply inclo_b_spec; [apply F2; eapply derives_nil_nl; eauto|]. eapply IH1; eauto.
      * simpl in E. injection E as <- _. eapply form_first_into_spec; [exact F1|]. eapply derives_first; eauto.
    + intros Hd. destruct (derives_app_inv g _ _ _ Hd) as (u & v' & E & Hu & Hv).
      symmetry in E. apply app_eq_nil in E. destruct E as [-> ->].
      eapply inclo_b_spec; [apply F2; eapply derives_nil_nl; eauto|]. apply IH2. exact Hv.
Qed.

(* ---------- the filter built from closed sets keeps what the exact filter keeps ---------- *)
Definition keep_closed (nx : option nat) (i : item) : bool :=
  match nx with
  | Some a => fi_form (after i) a || (nl_form (after i) && memo (Some a) (FO (lhs (ir i))))
  | None => nl_form (after i) && memo None (FO (lhs (ir i)))
  end.

Theorem closed_sets_contain_exact_sets :
  (forall al, nullable_form g al -> nl_form al = true) /\
  (forall al a, first_of g al a -> fi_form al a = true) /\
  (forall x a, follow_of g axiom x a -> memo (Some a) (FO x) = true) /\
  (forall x, follow_end g axiom x -> memo None (FO x) = true).
Proof.
  split; [|split; [|split]].
  - intros al H. eapply derives_nil_nl; eauto.
  - intros al a (v & H). eapply derives_first; eauto.
  - intros x a (p & de & v & Hr & Hd). destruct (reach_follow _ _ _ Hr) as [H1 _]. eauto.
  - intros x (p & de & Hr & Hd). destruct (reach_follow _ _ _ Hr) as [_ H2]. auto.
Qed.

Theorem keep_closed_superset nx i : keep_static g axiom nx i -> keep_closed nx i = true.
Proof.
  destruct closed_sets_contain_exact_sets as (C1 & C2 & C3 & C4).
  destruct nx as [a|]; simpl.
  - intros [H|[H1 H2]]; apply orb_true_iff.
    + left. auto.
    + right. apply andb_true_iff. split; auto.
  - intros [H1 H2]. apply andb_true_iff. split; auto.
Qed.

(* every item that lies on a derivation of the input passes the filter *)
Corollary closed_filter_keeps_useful_items w p i : useful g axiom w p i -> keep_closed (next w p) i = true.
Proof. intros H. apply keep_closed_superset. apply keep_static_ok. exact H. Qed.

End FF.

(* S : A b | c ; A : (empty) | a   (terminals a=0 b=1 c=2; S=0, A=1): the exact sets are closed; dropping b from FOLLOW (A),
   as a fixpoint loop that stops one pass early would, is not *)
Example closed_ex :
  let g := [ {| lhs := 0; rhs := [N 1; T 1] |}; {| lhs := 0; rhs := [T 2] |}; {| lhs := 1; rhs := [] |}; {| lhs := 1; rhs := [T 0] |} ] in
  let FI := fun x => match x with 0 => [0; 1; 2] | _ => [0] end in
  closed_b g 0 [1] FI (fun x => match x with 0 => [None] | _ => [Some 1] end) = true /\
  closed_b g 0 [1] FI (fun x => match x with 0 => [None] | _ => [] end) = false /\
  closed_b g 0 [] FI (fun x => match x with 0 => [None] | _ => [Some 1] end) = false.
Proof. vm_compute. auto. Qed.

(* the form the correspondence run evaluates: tables indexed by the number of the nonterminal *)
Definition closed_tbl (g : grammar) (axiom : nat) (NL : list nat) (FIt : list (list nat)) (FOt : list (list (option nat))) : bool :=
  closed_b g axiom NL (fun x => nth x FIt []) (fun x => nth x FOt []).

(* ---------- why the loop of create_first_follow_sets ends with closed sets ----------
   One pass of the loop performs, for every rule, the unions that the closure conditions ask for (FIRST of a leading
   symbol into FIRST of the left hand side while the symbols before it are nullable; FIRST of what follows a nonterminal
   into its FOLLOW; FOLLOW of the left hand side into it when the rest is nullable) and reports whether any of them
   changed a set.  The loop ends after a pass that reports no change.  Model: a union that would not add anything
   returns the tables as they are and `false'.  Theorem: a pass that reports no change leaves the tables as they were,
   and these tables satisfy the FIRST and FOLLOW conditions of [closed_b] (the conditions on the nullable flags and on the
   end of input come from elsewhere: set_empty_access_derives and the rule $S : start $eof).  A pass whose report
   forgets one of the unions (the seeded changes to term_set_or and to the FOLLOW-from-FOLLOW step) loses exactly this. *)
Section Pass.
Variable NL : list nat.

Definition upd {A} (f : nat -> A) (x : nat) (v : A) : nat -> A := fun y => if Nat.eqb y x then v else f y.

Fixpoint first_pass (x : nat) (al : list symbol) (FI : nat -> list nat) : (nat -> list nat) * bool :=
  match al with
  | [] => (FI, false)
  | T b :: _ => if memb b (FI x) then (FI, false) else (upd FI x (FI x ++ [b]), true)
  | N y :: r =>
      let '(F1, c1) := if incl_b (FI y) (FI x) then (FI, false) else (upd FI x (FI x ++ FI y), true) in
      if nl NL y then let '(F2, c2) := first_pass x r F1 in (F2, c1 || c2) else (F1, c1)
  end.

Lemma first_pass_nochange x al FI : snd (first_pass x al FI) = false ->
  fst (first_pass x al FI) = FI /\ first_ok NL FI x al = true.
Proof.
  induction al as [|[b|y] al IH]; simpl; intros H.
  - auto.
  - destruct (memb b (FI x)); simpl in *; [auto | discriminate].
  - destruct (incl_b (FI y) (FI x)) eqn:Ei.
    + destruct (nl NL y) eqn:En.
      * destruct (first_pass x al FI) as [F2 c2] eqn:E2. simpl in *. subst c2.
        destruct (IH eq_refl) as [I1 I2]. split; [exact I1 | rewrite I2; reflexivity].
      * simpl. auto.
    + destruct (nl NL y).
      * destruct (first_pass x al (upd FI x (FI x ++ FI y))) as [F2 c2]. simpl in H. discriminate.
      * simpl in H. discriminate.
Qed.

Section Follow.
Variable FI : nat -> list nat.

Fixpoint into_pass (r : list symbol) (y : nat) (FO : nat -> list (option nat)) : (nat -> list (option nat)) * bool :=
  match r with
  | [] => (FO, false)
  | T b :: _ => if memo (Some b) (FO y) then (FO, false) else (upd FO y (FO y ++ [Some b]), true)
  | N z :: r' =>
      let '(O1, c1) := if forallb (fun a => memo (Some a) (FO y)) (FI z) then (FO, false)
                       else (upd FO y (FO y ++ map Some (FI z)), true) in
      if nl NL z then let '(O2, c2) := into_pass r' y O1 in (O2, c1 || c2) else (O1, c1)
  end.

Lemma into_pass_nochange r y FO : snd (into_pass r y FO) = false ->
  fst (into_pass r y FO) = FO /\ form_first_into NL FI r (FO y) = true.
Proof.
  induction r as [|[b|z] r IH]; simpl; intros H.
  - auto.
  - destruct (memo (Some b) (FO y)); simpl in *; [auto | discriminate].
  - destruct (forallb (fun a => memo (Some a) (FO y)) (FI z)) eqn:Ef.
    + destruct (nl NL z) eqn:En.
      * destruct (into_pass r y FO) as [O2 c2] eqn:E2. simpl in *. subst c2.
        destruct (IH eq_refl) as [I1 I2]. split; [exact I1 | rewrite I2; reflexivity].
      * simpl. auto.
    + destruct (nl NL z).
      * destruct (into_pass r y (upd FO y (FO y ++ map Some (FI z)))) as [O2 c2]. simpl in H. discriminate.
      * simpl in H. discriminate.
Qed.

Fixpoint follow_pass (x : nat) (al : list symbol) (FO : nat -> list (option nat)) : (nat -> list (option nat)) * bool :=
  match al with
  | [] => (FO, false)
  | T _ :: r => follow_pass x r FO
  | N y :: r =>
      let '(O1, c1) := into_pass r y FO in
      let '(O2, c2) := if nl_form NL r then (if inclo_b (O1 x) (O1 y) then (O1, false) else (upd O1 y (O1 y ++ O1 x), true))
                       else (O1, false) in
      let '(O3, c3) := follow_pass x r O2 in (O3, c1 || c2 || c3)
  end.

Lemma follow_pass_nochange x al FO : snd (follow_pass x al FO) = false ->
  fst (follow_pass x al FO) = FO /\ follow_ok NL FI FO x al = true.
Proof.
  induction al as [|[b|y] al IH]; simpl; intros H.
  - auto.
  - auto.
  - destruct (into_pass al y FO) as [O1 c1] eqn:E1.
    destruct (nl_form NL al) eqn:En.
    + destruct (inclo_b (O1 x) (O1 y)) eqn:Ei.
      * destruct (follow_pass x al O1) as [O3 c3] eqn:E3. simpl in H.
        apply orb_false_iff in H. destruct H as [H12 H3]. apply orb_false_iff in H12. destruct H12 as [H1 _]. subst c1 c3.
        pose proof (into_pass_nochange al y FO) as P. rewrite E1 in P. destruct (P eq_refl) as [P1 P2]. simpl in P1. subst O1.
        rewrite E3 in IH. destruct (IH eq_refl) as [I1 I2]. simpl in I1. subst O3.
        split; [reflexivity|]. rewrite P2, Ei, I2. reflexivity.
      * destruct (follow_pass x al (upd O1 y (O1 y ++ O1 x))) as [O3 c3]. simpl in H.
        rewrite orb_true_r in H. discriminate.
    + destruct (follow_pass x al O1) as [O3 c3] eqn:E3. simpl in H.
      apply orb_false_iff in H. destruct H as [H12 H3]. apply orb_false_iff in H12. destruct H12 as [H1 _]. subst c1 c3.
      pose proof (into_pass_nochange al y FO) as P. rewrite E1 in P. destruct (P eq_refl) as [P1 P2]. simpl in P1. subst O1.
      rewrite E3 in IH. destruct (IH eq_refl) as [I1 I2]. simpl in I1. subst O3.
      split; [reflexivity|]. rewrite P2, I2. reflexivity.
Qed.
End Follow.

Definition tables := ((nat -> list nat) * (nat -> list (option nat)))%type.

Definition rule_pass (st : tables * bool) (r : rule) : tables * bool :=
  let '((FI, FO), c) := st in
  let '(FI1, c1) := first_pass (lhs r) (rhs r) FI in
  let '(FO1, c2) := follow_pass FI1 (lhs r) (rhs r) FO in
  ((FI1, FO1), c || c1 || c2).

Definition pass (g : grammar) (t : tables) : tables * bool := fold_left rule_pass g (t, false).

Lemma rule_pass_flag st r : snd st = true -> snd (rule_pass st r) = true.
Proof.
  destruct st as [[FI FO] c]. simpl. intros ->. unfold rule_pass.
  destruct (first_pass (lhs r) (rhs r) FI) as [FI1 c1]. destruct (follow_pass FI1 (lhs r) (rhs r) FO) as [FO1 c2]. reflexivity.
Qed.

Lemma fold_flag g : forall st, snd st = true -> snd (fold_left rule_pass g st) = true.
Proof. induction g as [|r g IH]; intros st H; simpl; auto. apply IH. apply rule_pass_flag. exact H. Qed.

Lemma pass_nochange_rules g : forall FI FO, snd (fold_left rule_pass g ((FI, FO), false)) = false ->
  fst (fold_left rule_pass g ((FI, FO), false)) = (FI, FO) /\
  forall r, In r g -> first_ok NL FI (lhs r) (rhs r) = true /\ follow_ok NL FI FO (lhs r) (rhs r) = true.
Proof.
  induction g as [|r g IH]; intros FI FO H; simpl in *.
  - split; [reflexivity | intros r []].
  - destruct (first_pass (lhs r) (rhs r) FI) as [FI1 c1] eqn:E1.
    destruct (follow_pass FI1 (lhs r) (rhs r) FO) as [FO1 c2] eqn:E2.
    destruct (c1 || c2) eqn:Ec.
    + simpl in H. rewrite fold_flag in H by reflexivity. discriminate.
    + apply orb_false_iff in Ec. destruct Ec as [-> ->]. simpl in H.
      pose proof (first_pass_nochange (lhs r) (rhs r) FI) as P. rewrite E1 in P. destruct (P eq_refl) as [P1 P2]. simpl in P1. subst FI1.
      pose proof (follow_pass_nochange FI (lhs r) (rhs r) FO) as Q. rewrite E2 in Q. destruct (Q eq_refl) as [Q1 Q2]. simpl in Q1. subst FO1.
      destruct (IH FI FO H) as [I1 I2]. split; [exact I1|].
      intros r' [<-|Hr']; auto.
Qed.

Theorem pass_without_change_means_closed g axiom FI FO :
  snd (pass g (FI, FO)) = false ->
  (forall r, In r g -> nl_form NL (rhs r) = true -> nl NL (lhs r) = true) ->      (* the flags of set_empty_access_derives *)
  memo None (FO axiom) = true ->                                                 (* $S : start $eof *)
  closed_b g axiom NL FI FO = true.
Proof.
  intros H Hn He. unfold pass in H. destruct (pass_nochange_rules g FI FO H) as [_ Hr].
  unfold closed_b. rewrite He, andb_true_r. apply forallb_forall. intros r Hin.
  destruct (Hr r Hin) as [H1 H2]. unfold closed_rule. rewrite H1, H2, !andb_true_r.
  destruct (nl_form NL (rhs r)) eqn:E; auto.
Qed.
End Pass.
