(* FirstFollow: a certificate for the sets the static lookahead (level 1) filters with.
   YAEP computes, by passes repeated until nothing changes (create_first_follow_sets), which nonterminals derive the
   empty string, FIRST and FOLLOW.  The iteration is not modelled: whatever sets come out, if they are *closed* under
   the rules ([closed_b], a finite boolean check that the correspondence run evaluates on the sets read from the
   implementation) they contain the exact FIRST / FOLLOW sets, hence the filter built from them keeps every item
   that lies on a derivation of the input (Lookahead.keep_superset_ok), hence verdict and error token are those of
   the unfiltered parser.  A fixpoint loop that stops too early yields sets that are not closed. *)
From YV Require Import Prelude EarleySpec Lookahead.

Definition memb (a : nat) (l : list nat) : bool := existsb (Nat.eqb a) l.
Definition oeqb (a b : option nat) : bool :=
  match a, b with Some x, Some y => Nat.eqb x y | None, None => true | _, _ => false end.
Definition memo (a : option nat) (l : list (option nat)) : bool := existsb (oeqb a) l.

Lemma memb_In a l : memb a l = true <-> In a l.
Proof.
  unfold memb. rewrite existsb_exists. split.
  - intros (x & Hx & E). apply Nat.eqb_eq in E. now subst.
  - intros H. exists a. split; auto. apply Nat.eqb_refl.
Qed.
Lemma oeqb_eq a b : oeqb a b = true <-> a = b.
Proof.
  destruct a as [x|], b as [y|]; simpl; split; intros H; try discriminate; auto.
  - apply Nat.eqb_eq in H. now subst.
  - injection H as ->. apply Nat.eqb_refl.
Qed.
Lemma memo_In a l : memo a l = true <-> In a l.
Proof.
  unfold memo. rewrite existsb_exists. split.
  - intros (x & Hx & E). apply oeqb_eq in E. now subst.
  - intros H. exists a. split; auto. now apply oeqb_eq.
Qed.

Section FF.
Variable g : grammar.
Variable axiom : nat.
Variable NL : list nat.                        (* nonterminals marked "derives the empty string" *)
Variable FI : nat -> list nat.                 (* FIRST of a nonterminal *)
Variable FO : nat -> list (option nat).        (* FOLLOW of a nonterminal; None: the end of the input *)

Definition nl (x : nat) : bool := memb x NL.
Definition nl_form (al : list symbol) : bool :=
  forallb (fun s => match s with T _ => false | N y => nl y end) al.
Fixpoint fi_form (al : list symbol) (a : nat) : bool :=
  match al with
  | [] => false
  | T b :: _ => Nat.eqb a b
  | N y :: r => memb a (FI y) || (nl y && fi_form r a)
  end.

Definition incl_b (l l' : list nat) : bool := forallb (fun a => memb a l') l.
Definition inclo_b (l l' : list (option nat)) : bool := forallb (fun a => memo a l') l.

(* FIRST of the left hand side contains what the right hand side can begin with *)
Fixpoint first_ok (x : nat) (al : list symbol) : bool :=
  match al with
  | [] => true
  | T b :: _ => memb b (FI x)
  | N y :: r => incl_b (FI y) (FI x) && (if nl y then first_ok x r else true)
  end.
(* what the form r can begin with is in the set S *)
Fixpoint form_first_into (r : list symbol) (S : list (option nat)) : bool :=
  match r with
  | [] => true
  | T b :: _ => memo (Some b) S
  | N z :: r' => forallb (fun a => memo (Some a) S) (FI z) && (if nl z then form_first_into r' S else true)
  end.
(* FOLLOW of every nonterminal of the right hand side contains what the rest can begin with, and FOLLOW of the left
   hand side when the rest can vanish *)
Fixpoint follow_ok (x : nat) (al : list symbol) : bool :=
  match al with
  | [] => true
  | T _ :: r => follow_ok x r
  | N y :: r => form_first_into r (FO y) && (if nl_form r then inclo_b (FO x) (FO y) else true) && follow_ok x r
  end.

Definition closed_rule (r : rule) : bool :=
  (if nl_form (rhs r) then nl (lhs r) else true) && first_ok (lhs r) (rhs r) && follow_ok (lhs r) (rhs r).
Definition closed_b : bool := forallb closed_rule g && memo None (FO axiom).

Hypothesis closed : closed_b = true.

Lemma closed_rule_of r : In r g -> closed_rule r = true.
Proof.
  intros H. unfold closed_b in closed. apply andb_prop in closed. destruct closed as [H1 _].
  rewrite forallb_forall in H1. auto.
Qed.
Lemma end_follows_axiom : memo None (FO axiom) = true.
Proof. unfold closed_b in closed. apply andb_prop in closed. tauto. Qed.

Lemma incl_b_spec l l' a : incl_b l l' = true -> memb a l = true -> memb a l' = true.
Proof. unfold incl_b. rewrite forallb_forall. intros H Ha. apply H. now apply memb_In. Qed.
Lemma inclo_b_spec l l' a : inclo_b l l' = true -> memo a l = true -> memo a l' = true.
Proof. unfold inclo_b. rewrite forallb_forall. intros H Ha. apply H. now apply memo_In. Qed.

(* ---------- nullable ---------- *)
Lemma derives_nil_nl al w : derives g al w -> w = [] -> nl_form al = true.
Proof.
  intros H. induction H as [|a al w H IH|r al w1 w2 Hr H1 IH1 H2 IH2]; intros E; simpl; auto.
  - discriminate.
  - apply app_eq_nil in E. destruct E as [-> ->].
    rewrite (IH2 eq_refl), andb_true_r.
    pose proof (closed_rule_of r Hr) as C. unfold closed_rule in C.
    apply andb_prop in C. destruct C as [C _]. apply andb_prop in C. destruct C as [C _].
    rewrite (IH1 eq_refl) in C. exact C.
Qed.

(* ---------- FIRST ---------- *)
Lemma first_ok_form x al a : first_ok x al = true -> fi_form al a = true -> memb a (FI x) = true.
Proof.
  induction al as [|[b|y] al IH]; simpl; intros H Ha; try discriminate.
  - apply Nat.eqb_eq in Ha. now subst.
  - apply andb_prop in H. destruct H as [H1 H2].
    apply orb_prop in Ha. destruct Ha as [Ha|Ha].
    + eapply incl_b_spec; eauto.
    + apply andb_prop in Ha. destruct Ha as [Hn Ha]. rewrite Hn in H2. auto.
Qed.

Lemma derives_first al w : derives g al w -> forall a v, w = a :: v -> fi_form al a = true.
Proof.
  intros H. induction H as [|b al w H IH|r al w1 w2 Hr H1 IH1 H2 IH2]; intros a v E; simpl.
  - discriminate.
  - injection E as -> _. apply Nat.eqb_refl.
  - destruct w1 as [|c w1].
    + simpl in E. apply orb_true_iff. right.
      assert (Hn : nl (lhs r) = true).
      { pose proof (closed_rule_of r Hr) as C. unfold closed_rule in C.
        apply andb_prop in C. destruct C as [C _]. apply andb_prop in C. destruct C as [C _].
        rewrite (derives_nil_nl _ _ H1 eq_refl) in C. exact C. }
      rewrite Hn. simpl. eapply IH2; eauto.
    + simpl in E. injection E as -> _. apply orb_true_iff. left.
      pose proof (closed_rule_of r Hr) as C. unfold closed_rule in C.
      apply andb_prop in C. destruct C as [C _]. apply andb_prop in C. destruct C as [_ C].
      eapply first_ok_form; [exact C|]. eapply IH1; eauto.
Qed.

(* ---------- FOLLOW ---------- *)
Lemma form_first_into_spec r S a : form_first_into r S = true -> fi_form r a = true -> memo (Some a) S = true.
Proof.
  induction r as [|[b|z] r IH]; simpl; intros H Ha; try discriminate.
  - apply Nat.eqb_eq in Ha. now subst.
  - apply andb_prop in H. destruct H as [H1 H2].
    apply orb_prop in Ha. destruct Ha as [Ha|Ha].
    + rewrite forallb_forall in H1. apply H1. now apply memb_In.
    + apply andb_prop in Ha. destruct Ha as [Hn Ha]. rewrite Hn in H2. auto.
Qed.

Lemma follow_ok_at x al y be : follow_ok x (al ++ N y :: be) = true ->
  form_first_into be (FO y) = true /\ (nl_form be = true -> inclo_b (FO x) (FO y) = true).
Proof.
  induction al as [|[b|z] al IH]; simpl; intros H.
  - apply andb_prop in H. destruct H as [H _]. apply andb_prop in H. destruct H as [H1 H2].
    split; auto. intros Hn. now rewrite Hn in H2.
  - auto.
  - apply andb_prop in H. destruct H as [_ H]. auto.
Qed.

Lemma reach_follow p x de : reachR g axiom p x de ->
  (forall a v, derives g de (a :: v) -> memo (Some a) (FO x) = true) /\
  (derives g de [] -> memo None (FO x) = true).
Proof.
  intros H. induction H as [|p1 p2 r al x be de Hre [IH1 IH2] Hr Hrhs Hal].
  - split.
    + intros a v Hd. inversion Hd.
    + intros _. exact end_follows_axiom.
  - pose proof (closed_rule_of r Hr) as C. unfold closed_rule in C.
    apply andb_prop in C. destruct C as [_ C]. rewrite Hrhs in C.
    destruct (follow_ok_at _ _ _ _ C) as [F1 F2].
    split.
    + intros a v Hd. destruct (derives_app_inv g _ _ _ Hd) as (u & v' & E & Hu & Hv).
      destruct u as [|c u].
      * simpl in E. subst v'. eapply inclo_b_spec; [apply F2; eapply derives_nil_nl; eauto|]. eapply IH1; eauto.
      * simpl in E. injection E as <- _. eapply form_first_into_spec; [exact F1|]. eapply derives_first; eauto.
    + intros Hd. destruct (derives_app_inv g _ _ _ Hd) as (u & v' & E & Hu & Hv).
      symmetry in E. apply app_eq_nil in E. destruct E as [-> ->].
      eapply inclo_b_spec; [apply F2; eapply derives_nil_nl; eauto|]. apply IH2. exact Hv.
Qed.

(* ---------- the filter built from closed sets keeps what the exact filter keeps ---------- *)
Definition keep_closed (nx : option nat) (i : item) : bool :=
  match nx with
  | Some a => fi_form (after i) a || (nl_form (after i) && memo (Some a) (FO (lhs (ir i))))
  | None => nl_form (after i) && memo None (FO (lhs (ir i)))
  end.

Theorem closed_sets_contain_exact_sets :
  (forall al, nullable_form g al -> nl_form al = true) /\
  (forall al a, first_of g al a -> fi_form al a = true) /\
  (forall x a, follow_of g axiom x a -> memo (Some a) (FO x) = true) /\
  (forall x, follow_end g axiom x -> memo None (FO x) = true).
Proof.
  split; [|split; [|split]].
  - intros al H. eapply derives_nil_nl; eauto.
  - intros al a (v & H). eapply derives_first; eauto.
  - intros x a (p & de & v & Hr & Hd). destruct (reach_follow _ _ _ Hr) as [H1 _]. eauto.
  - intros x (p & de & Hr & Hd). destruct (reach_follow _ _ _ Hr) as [_ H2]. auto.
Qed.

Theorem keep_closed_superset nx i : keep_static g axiom nx i -> keep_closed nx i = true.
Proof.
  destruct closed_sets_contain_exact_sets as (C1 & C2 & C3 & C4).
  destruct nx as [a|]; simpl.
  - intros [H|[H1 H2]]; apply orb_true_iff.
    + left. auto.
    + right. apply andb_true_iff. split; auto.
  - intros [H1 H2]. apply andb_true_iff. split; auto.
Qed.

(* every item that lies on a derivation of the input passes the filter *)
Corollary closed_filter_keeps_useful_items w p i : useful g axiom w p i -> keep_closed (next w p) i = true.
Proof. intros H. apply keep_closed_superset. apply keep_static_ok. exact H. Qed.

End FF.

(* S : A b | c ; A : (empty) | a   (terminals a=0 b=1 c=2; S=0, A=1): the exact sets are closed; dropping b from FOLLOW (A),
   as a fixpoint loop that stops one pass early would, is not *)
Example closed_ex :
  let g := [ {| lhs := 0; rhs := [N 1; T 1] |}; {| lhs := 0; rhs := [T 2] |}; {| lhs := 1; rhs := [] |}; {| lhs := 1; rhs := [T 0] |} ] in
  let FI := fun x => match x with 0 => [0; 1; 2] | _ => [0] end in
  closed_b g 0 [1] FI (fun x => match x with 0 => [None] | _ => [Some 1] end) = true /\
  closed_b g 0 [1] FI (fun x => match x with 0 => [None] | _ => [] end) = false /\
  closed_b g 0 [] FI (fun x => match x with 0 => [None] | _ => [Some 1] end) = false.
Proof. vm_compute. auto. Qed.

(* the form the correspondence run evaluates: tables indexed by the number of the nonterminal *)
Definition closed_tbl (g : grammar) (axiom : nat) (NL : list nat) (FIt : list (list nat)) (FOt : list (list (option nat))) : bool :=
  closed_b g axiom NL (fun x => nth x FIt []) (fun x => nth x FOt []).
