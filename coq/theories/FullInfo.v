(* FullInfo: the full-information variant of a grammar with translations - every
   rule builds an abstract node that names the rule (its index) and keeps all
   its right-hand side children.  Its "translations" are the derivation trees.
   [proj] replays the original translation on such a tree.  Theorems:
     - the translation of every derivation tree is a translation of the grammar
       (level by level), and every translation is the projection of a derivation
       tree;
     - hence two different translations come from two different derivation trees
       (what the C05 check relies on when it counts both). *)
From YV Require Import Prelude EarleySpec Recognizer Translate.

Definition full_rule (idx : nat) (r : trule) : trule :=
  {| t_lhs := t_lhs r; tr_rhs := tr_rhs r; tr_anode := Some (idx, 0%Z);
     tr_slots := map Some (seq 0 (length (tr_rhs r))) |}.
Fixpoint full_from (idx : nat) (g : tgrammar) : tgrammar :=
  match g with [] => [] | r :: g' => full_rule idx r :: full_from (S idx) g' end.
Definition full (g : tgrammar) : tgrammar := full_from 0 g.

Lemma full_from_In : forall g idx fr, In fr (full_from idx g) <-> exists k r, nth_error g k = Some r /\ fr = full_rule (idx + k) r.
Proof.
  induction g as [|r g IH]; intros idx fr; cbn [full_from].
  - split; [intros [] | intros (k & r & H & _); destruct k; discriminate].
  - cbn [In]. rewrite IH. split.
    + intros [<-|(k & r' & H & ->)].
      * exists 0, r. split; [reflexivity | rewrite Nat.add_0_r; reflexivity].
      * exists (S k), r'. split; [exact H | f_equal; lia].
    + intros ([|k] & r' & H & ->).
      * left. cbn in H. injection H as <-. rewrite Nat.add_0_r. reflexivity.
      * right. exists k, r'. split; [exact H | f_equal; lia].
Qed.

Lemma map_slot_all ks : map (slot_tree ks) (map Some (seq 0 (length ks))) = ks.
Proof.
  rewrite map_map. cbn [slot_tree].
  assert (G : forall pre l, map (fun k => nth k (pre ++ l) Nil) (seq (length pre) (length l)) = l).
  { intros pre l; revert pre. induction l as [|x l IH]; intros pre; cbn [length seq map]; [reflexivity|]. f_equal.
    - rewrite app_nth2, Nat.sub_diag by lia. reflexivity.
    - specialize (IH (pre ++ [x])). rewrite <- app_assoc, app_length in IH. cbn in IH. rewrite Nat.add_1_r in IH. exact IH. }
  exact (G [] ks).
Qed.

Lemma build_full idx r ks : length ks = length (tr_rhs r) -> build (full_rule idx r) ks = Anode idx 0%Z ks.
Proof. intros H. unfold build, full_rule; cbn [tr_anode tr_slots]. rewrite <- H, map_slot_all. reflexivity. Qed.

Section P.
Variable g : tgrammar.
Variable codes : list Z.
Variable t_err : nat.
Variable w attrs : list nat.

(* replay the translation of the original grammar on a derivation tree *)
Fixpoint proj (t : tree) : tree :=
  match t with
  | Anode idx _ ks => match nth_error g idx with
                      | Some r => build r (map proj ks)
                      | None => Nil
                      end
  | _ => t
  end.

Lemma rhs_of_length P ss i j ts : rhs_of codes t_err w attrs P ss i j ts -> length ts = length ss.
Proof. induction 1; simpl; auto. Qed.

Lemma leaf_proj a i : proj (leaf codes t_err attrs a i) = leaf codes t_err attrs a i.
Proof. unfold leaf. destruct (Nat.eqb a t_err); reflexivity. Qed.

Theorem full_to_orig : forall n x i j t, level (full g) codes t_err w attrs n x i j t -> level g codes t_err w attrs n x i j (proj t).
Proof.
  induction n as [|n IH]; intros x i j t H; [destruct H|]. cbn [level] in *. destruct H as (Hj & fr & ks & Hin & Hl & Hr & ->).
  apply full_from_In in Hin. destruct Hin as (k & r & Hk & ->). cbn [Nat.add] in *. cbn [full_rule t_lhs tr_rhs] in Hl, Hr.
  split; [exact Hj|]. exists r, (map proj ks). split; [eapply nth_error_In; eauto|]. split; [exact Hl|]. split.
  - clear Hl Hj. induction Hr as [|s ss i k' j t ts Hik Hs Hr IHr]; [constructor|]. cbn [map].
    apply ro_cons with (k := k'); auto. destruct s as [a|y]; cbn [sym_of] in *.
    + destruct Hs as (A & B & ->). rewrite leaf_proj. auto.
    + apply IH. exact Hs.
  - rewrite build_full by (apply rhs_of_length in Hr; exact Hr). cbn [proj]. rewrite Hk. reflexivity.
Qed.

Theorem orig_to_full : forall n x i j t, level g codes t_err w attrs n x i j t ->
  exists d, level (full g) codes t_err w attrs n x i j d /\ proj d = t.
Proof.
  induction n as [|n IH]; intros x i j t H; [destruct H|]. cbn [level] in *. destruct H as (Hj & r & ks & Hin & Hl & Hr & ->).
  apply In_nth_error in Hin. destruct Hin as (k & Hk).
  assert (X : exists ds, rhs_of codes t_err w attrs (level (full g) codes t_err w attrs n) (tr_rhs r) i j ds /\ map proj ds = ks).
  { clear Hl Hj Hk. induction Hr as [|s ss i k' j t ts Hik Hs Hr IHr]; [exists []; split; [constructor | reflexivity]|].
    destruct IHr as (ds & Hd & Hm). destruct s as [a|y]; cbn [sym_of] in Hs.
    - destruct Hs as (A & B & ->). exists (leaf codes t_err attrs a i :: ds). split.
      + apply ro_cons with (k := k'); auto. cbn [sym_of]. auto.
      + cbn [map]. rewrite leaf_proj, Hm. reflexivity.
    - destruct (IH _ _ _ _ Hs) as (d & Hd' & Hp). exists (d :: ds). split.
      + apply ro_cons with (k := k'); auto.
      + cbn [map]. rewrite Hp, Hm. reflexivity. }
  destruct X as (ds & Hd & Hm). exists (Anode k 0%Z ds). split.
  - split; [exact Hj|]. exists (full_rule k r), ds. split.
    + apply full_from_In. exists k, r. auto.
    + split; [exact Hl|]. split; [exact Hd|]. symmetry. apply build_full. apply rhs_of_length in Hd. exact Hd.
  - cbn [proj]. rewrite Hk, Hm. reflexivity.
Qed.

End P.

(* two different translations of an input come from two different derivation trees *)
Theorem different_translations_different_derivations g codes t_err start w t1 t2 :
  translation g codes t_err start w t1 -> translation g codes t_err start w t2 -> t1 <> t2 ->
  exists d1 d2, translation (full g) codes t_err start w d1 /\ translation (full g) codes t_err start w d2 /\ d1 <> d2.
Proof.
  unfold translation, translation_a, trans_nt. intros (n1 & H1) (n2 & H2) Hne.
  destruct (orig_to_full g codes t_err w [] n1 _ _ _ _ H1) as (d1 & D1 & P1).
  destruct (orig_to_full g codes t_err w [] n2 _ _ _ _ H2) as (d2 & D2 & P2).
  exists d1, d2. split; [exists n1; exact D1|]. split; [exists n2; exact D2|]. intros E. apply Hne. rewrite <- P1, <- P2, E. reflexivity.
Qed.

(* every derivation tree is translated to a translation *)
Theorem derivation_has_translation g codes t_err start w d :
  translation (full g) codes t_err start w d -> translation g codes t_err start w (proj g d).
Proof. unfold translation, translation_a, trans_nt. intros (n & H). exists n. apply full_to_orig. exact H. Qed.

(* E : E + E # plus (0 2) | a # 0   (terminals a=0 +=1, nonterminal E=0) on a + a + a: two derivation trees, whose
   translations plus(a,plus(a,a)) and plus(plus(a,a),a) differ *)
Example full_info_ex :
  let g := [ {| t_lhs := 0; tr_rhs := [N 0; T 1; N 0]; tr_anode := Some (7, 1%Z); tr_slots := [Some 0; Some 2] |};
             {| t_lhs := 0; tr_rhs := [T 0]; tr_anode := None; tr_slots := [Some 0] |} ] in
  option_map (@length tree) (all_translations 20 (full g) [97%Z; 43%Z] 9 0 [0; 1; 0; 1; 0]) = Some 2 /\
  option_map (@length tree) (all_translations 20 g [97%Z; 43%Z] 9 0 [0; 1; 0; 1; 0]) = Some 2 /\
  option_map (map (proj g)) (all_translations 20 (full g) [97%Z; 43%Z] 9 0 [0; 1; 0; 1; 0]) =
    all_translations 20 g [97%Z; 43%Z] 9 0 [0; 1; 0; 1; 0].
Proof. vm_compute. auto. Qed.
