(* LoopSem: what the loop check of yaep_read_grammar (check_grammar / set_loop_p, error 16 "there is loop in rules")
   means.  The model (ReadGrammar.v) starts from all targets of unit edges  x -> y  (a rule x : alpha y beta with alpha
   and beta nullable) and repeatedly drops the nodes without an edge into the set, a fixed number of times.  Here: the
   number of passes always suffices (the result is a fixed point) and the result is non-empty exactly when some
   nonterminal reaches itself through one or more unit edges, i.e. can derive itself. *)
From Coq Require Import Relations.
From YV Require Import Prelude Generated ReadGrammar ReadGrammarSem.

Section Loop.
Variable E : list (nat * nat).

Definition edge (x y : nat) : Prop := In (x, y) E.
Definition cyc (x : nat) : Prop := clos_trans nat edge x x.

Definition has_succ (set : list nat) (x : nat) : bool :=
  existsb (fun e => Nat.eqb (fst e) x && memn (snd e) set) E.
Definition lpass (set : list nat) : list nat := filter (has_succ set) set.
Definition addt (acc : list nat) (e : nat * nat) : list nat := if memn (snd e) acc then acc else acc ++ [snd e].
Definition linit : list nat := fold_left addt E [].
Definition lres : list nat := iter (S (length E)) lpass linit.

Lemma has_succ_spec set x : has_succ set x = true <-> exists y, edge x y /\ In y set.
Proof.
  unfold has_succ. rewrite existsb_exists. split.
  - intros ([a b] & Hin & H). simpl in H. apply andb_true_iff in H. destruct H as [H1 H2].
    apply Nat.eqb_eq in H1. subst a. apply memn_In in H2. exists b. split; auto.
  - intros (y & He & Hy). exists (x, y). split; [exact He|]. simpl. rewrite Nat.eqb_refl. simpl. now apply memn_In.
Qed.

(* ---------- the initial set: all targets, without repetition ---------- *)
Lemma linit_fold : forall es acc,
  (forall y, In y (fold_left addt es acc) <->
             In y acc \/ exists x, In (x, y) es) /\
  (NoDup acc -> NoDup (fold_left addt es acc)) /\
  (length (fold_left addt es acc) <= length acc + length es).
Proof.
  induction es as [|[a b] es IH]; intros acc.
  - simpl. split; [|split]; auto; [|lia]. intros y. split; auto. intros [H|(x & [])]; auto.
  - cbn [fold_left]. change (addt acc (a, b)) with (if memn b acc then acc else acc ++ [b]). cbn [length].
    destruct (memn b acc) eqn:Eb.
    + destruct (IH acc) as (I1 & I2 & I3). split; [|split]; auto; [|lia].
      intros y. rewrite I1. split.
      * intros [H|(x & H)]; [left; auto | right; exists x; right; exact H].
      * intros [H|(x & [H|H])]; [left; auto | injection H as -> ->; left; now apply memn_In | right; eauto].
    + destruct (IH (acc ++ [b])) as (I1 & I2 & I3). split; [|split].
      * intros y. rewrite I1, in_app_iff. simpl. split.
        -- intros [[H|[<-|[]]]|(x & H)]; [left; auto | right; exists a; left; reflexivity | right; exists x; right; exact H].
        -- intros [H|(x & [H|H])]; [left; left; auto | injection H as -> ->; left; right; left; reflexivity | right; eauto].
      * intros Hn. apply I2. apply NoDup_snoc; auto. intros Hin. apply memn_In in Hin. congruence.
      * rewrite app_length in I3. simpl in I3. lia.
Qed.

Lemma linit_spec y : In y linit <-> exists x, edge x y.
Proof.
  unfold linit. destruct (linit_fold E []) as (I1 & _). rewrite I1. split.
  - intros [[]|H]; auto.
  - intros H. right. exact H.
Qed.

Lemma linit_length : length linit <= length E.
Proof. unfold linit. destruct (linit_fold E []) as (_ & _ & I3). simpl in I3. exact I3. Qed.

(* ---------- nodes on a cycle are never dropped ---------- *)
Lemma cyc_target x : cyc x -> exists z, edge z x.
Proof.
  unfold cyc. intros H. apply clos_trans_tn1 in H. destruct H as [H|y z H _]; eauto.
Qed.

Lemma cyc_next x : cyc x -> exists y, edge x y /\ cyc y.
Proof.
  unfold cyc. intros H. pose proof H as H0. apply clos_trans_t1n in H.
  inversion H as [y Hy|y z Hy Hyz]; subst.
  - exists x. split; auto.
  - exists y. split; auto. apply clos_t1n_trans in Hyz. eapply t_trans; [exact Hyz|]. apply t_step. exact Hy.
Qed.

Lemma lpass_keeps_cycles set : (forall x, cyc x -> In x set) -> forall x, cyc x -> In x (lpass set).
Proof.
  intros H x Hx. unfold lpass. apply filter_In. split; [auto|].
  apply has_succ_spec. destruct (cyc_next x Hx) as (y & Hy & Hc). exists y. split; auto.
Qed.

Lemma iter_keeps_cycles n : forall set, (forall x, cyc x -> In x set) -> forall x, cyc x -> In x (iter n lpass set).
Proof.
  induction n as [|n IH]; intros set H x Hx; simpl; auto.
  apply IH; auto. apply lpass_keeps_cycles. exact H.
Qed.

(* ---------- the number of passes suffices ---------- *)
Lemma filter_length_le {A} (p : A -> bool) l : length (filter p l) <= length l.
Proof. induction l as [|a l IH]; simpl; [lia|]. destruct (p a); simpl; lia. Qed.

Lemma filter_length_eq {A} (p : A -> bool) l : length (filter p l) = length l -> filter p l = l.
Proof.
  induction l as [|a l IH]; simpl; auto. destruct (p a); simpl; intros H.
  - f_equal. apply IH. lia.
  - pose proof (filter_length_le p l). lia.
Qed.

Lemma lpass_progress set : lpass set = set \/ length (lpass set) < length set.
Proof.
  unfold lpass. pose proof (filter_length_le (has_succ set) set).
  destruct (Nat.eq_dec (length (filter (has_succ set) set)) (length set)) as [e|n].
  - left. now apply filter_length_eq.
  - right. lia.
Qed.

Lemma lstable_stays n : forall set, lpass set = set -> iter n lpass set = set.
Proof. induction n as [|n IH]; intros set H; simpl; auto. rewrite H. now apply IH. Qed.

Lemma liter_progress n : forall set, length set <= n -> lpass (iter n lpass set) = iter n lpass set.
Proof.
  induction n as [|n IH]; intros set H; simpl.
  - destruct set; [reflexivity | simpl in H; lia].
  - destruct (lpass_progress set) as [Hs|Hl].
    + rewrite Hs. rewrite lstable_stays; auto.
    + apply IH. lia.
Qed.

Theorem lres_stable : lpass lres = lres.
Proof.
  unfold lres. change (iter (S (length E)) lpass linit) with (iter (length E) lpass (lpass linit)).
  apply liter_progress. pose proof (filter_length_le (has_succ linit) linit). pose proof linit_length.
  unfold lpass. lia.
Qed.

(* ---------- a non-empty fixed point contains a cycle ---------- *)
Inductive walk : list nat -> Prop :=
| w_one x : walk [x]
| w_cons x y l : edge x y -> walk (y :: l) -> walk (x :: y :: l).

Lemma walk_reach a l : walk (a :: l) -> forall b, In b l -> clos_trans nat edge a b.
Proof.
  revert a. induction l as [|y l IH]; intros a H b Hb; [contradiction|].
  inversion H; subst. destruct Hb as [<-|Hb].
  - apply t_step. assumption.
  - eapply t_trans; [apply t_step; eassumption|]. apply IH; auto.
Qed.

Lemma walk_suffix l1 : forall l2, l2 <> [] -> walk (l1 ++ l2) -> walk l2.
Proof.
  induction l1 as [|x l1 IH]; intros l2 Hn H; simpl in *; auto.
  apply IH; auto. inversion H; subst.
  - destruct l1; destruct l2; simpl in *; congruence.
  - assumption.
Qed.

Lemma not_NoDup_split (l : list nat) : ~ NoDup l -> exists l1 a l2 l3, l = l1 ++ a :: l2 ++ a :: l3.
Proof.
  induction l as [|a l IH]; intros H.
  - exfalso. apply H. constructor.
  - destruct (in_dec Nat.eq_dec a l) as [Hin|Hnin].
    + apply in_split in Hin. destruct Hin as (l2 & l3 & ->). exists [], a, l2, l3. reflexivity.
    + destruct IH as (l1 & b & l2 & l3 & ->).
      * intros Hn. apply H. constructor; auto.
      * exists (a :: l1), b, l2, l3. reflexivity.
Qed.

Section Fix.
Variable S0 : list nat.
Hypothesis closed : forall x, In x S0 -> exists y, edge x y /\ In y S0.

Lemma walks_exist n : forall x, In x S0 -> exists l, walk (x :: l) /\ length l = n /\ incl (x :: l) S0.
Proof.
  induction n as [|n IH]; intros x Hx.
  - exists []. split; [constructor|]. split; auto. intros y [<-|[]]. exact Hx.
  - destruct (closed x Hx) as (y & Hxy & Hy). destruct (IH y Hy) as (l & Hw & Hl & Hi).
    exists (y :: l). split; [constructor; auto|]. split; [simpl; lia|].
    intros z [<-|Hz]; auto.
Qed.

Lemma fixed_point_has_cycle x : In x S0 -> exists a, cyc a.
Proof.
  intros Hx. destruct (walks_exist (length S0) x Hx) as (l & Hw & Hl & Hi).
  assert (Hnd : ~ NoDup (x :: l)).
  { intros Hn. pose proof (NoDup_incl_length Hn Hi) as Hlen. simpl in Hlen. lia. }
  destruct (not_NoDup_split _ Hnd) as (l1 & a & l2 & l3 & E0).
  exists a. unfold cyc. rewrite E0 in Hw.
  apply (walk_suffix l1 (a :: l2 ++ a :: l3)) in Hw; [|discriminate].
  apply (walk_reach a (l2 ++ a :: l3) Hw). apply in_app_iff. right. left. reflexivity.
Qed.
End Fix.

Theorem lres_spec : lres <> [] <-> exists x, cyc x.
Proof.
  split.
  - intros H. destruct lres as [|x l] eqn:El; [congruence|].
    apply (fixed_point_has_cycle lres) with (x := x); [|rewrite El; left; reflexivity].
    intros y Hy. rewrite <- lres_stable in Hy. unfold lpass in Hy. apply filter_In in Hy.
    destruct Hy as [_ Hs]. apply has_succ_spec in Hs. exact Hs.
  - intros (x & Hx) He.
    assert (In x lres).
    { unfold lres. apply iter_keeps_cycles; auto. intros y Hy. apply linit_spec. apply cyc_target. exact Hy. }
    rewrite He in H. contradiction.
Qed.

(* every node kept lies on a cycle or leads into one: it has an infinite walk inside the result *)
Theorem lres_members x : In x lres -> exists y, edge x y /\ In y lres.
Proof.
  intros Hx. rewrite <- lres_stable in Hx. unfold lpass in Hx. apply filter_In in Hx.
  destruct Hx as [_ Hs]. apply has_succ_spec in Hs. exact Hs.
Qed.

Theorem cycles_in_lres x : cyc x -> In x lres.
Proof.
  intros Hx. unfold lres. apply iter_keeps_cycles; auto. intros y Hy. apply linit_spec. apply cyc_target. exact Hy.
Qed.

End Loop.

Section Inst.
Variable terms : list (nat * Z).
Variable rules : list rrule.

Lemma loops_is_lres : loops terms rules = lres (unit_edges terms rules).
Proof. reflexivity. Qed.

(* error 16 is raised exactly when some nonterminal reaches itself through unit edges *)
Theorem loops_spec : loops terms rules <> [] <-> exists x, cyc (unit_edges terms rules) x.
Proof. rewrite loops_is_lres. apply lres_spec. Qed.

(* a unit edge x -> y: a rule x : a y b, y not a terminal, where every symbol of a and b is marked nullable *)
Theorem unit_edge_spec x y :
  In (x, y) (unit_edges terms rules) <->
  exists a b, In (x, a ++ y :: b) (arules rules) /\ is_term terms y = false /\
              (forall s, In s a -> memn s (nullable rules) = true) /\ (forall s, In s b -> memn s (nullable rules) = true).
Proof.
  unfold unit_edges. rewrite in_flat_map. split.
  - intros ([lhs rhs] & Hr & H). simpl in H. apply in_flat_map in H. destruct H as (i & Hi & H).
    destruct (nth_error rhs i) as [y'|] eqn:En; [|contradiction].
    destruct (negb (is_term terms y') && _) eqn:Ec; [|contradiction].
    destruct H as [H|[]]. injection H as -> ->.
    apply andb_true_iff in Ec. destruct Ec as [Et Ea]. apply negb_true_iff in Et.
    apply nth_error_split in En. destruct En as (a & b & -> & Hlen).
    exists a, b. split; [exact Hr|]. split; [exact Et|].
    rewrite forallb_forall in Ea.
    split; intros s Hs; apply In_nth_error in Hs; destruct Hs as (j & Hj).
    + assert (j < length a)%nat by (apply nth_error_Some; congruence).
      specialize (Ea j). rewrite in_seq in Ea. rewrite app_length in Ea. simpl in Ea.
      assert (Hq : (Nat.eqb j i || memn (nth j (a ++ y :: b) 0%nat) (nullable rules)) = true) by (apply Ea; lia).
      apply orb_true_iff in Hq. destruct Hq as [Hq|Hq]; [apply Nat.eqb_eq in Hq; lia|].
      rewrite app_nth1 in Hq by lia. rewrite (nth_error_nth _ _ _ Hj) in Hq. exact Hq.
    + assert (j < length b)%nat by (apply nth_error_Some; congruence).
      specialize (Ea (length a + S j)%nat). rewrite in_seq in Ea. rewrite app_length in Ea. simpl in Ea.
      assert (Hq : (Nat.eqb (length a + S j) i || memn (nth (length a + S j) (a ++ y :: b) 0%nat) (nullable rules)) = true) by (apply Ea; lia).
      apply orb_true_iff in Hq. destruct Hq as [Hq|Hq]; [apply Nat.eqb_eq in Hq; lia|].
      rewrite app_nth2 in Hq by lia. replace (length a + S j - length a)%nat with (S j) in Hq by lia. simpl in Hq.
      rewrite (nth_error_nth _ _ _ Hj) in Hq. exact Hq.
  - intros (a & b & Hr & Et & Ha & Hb). exists (x, a ++ y :: b). split; [exact Hr|]. simpl.
    apply in_flat_map. exists (length a). split.
    + apply in_seq. rewrite app_length. simpl. lia.
    + assert (En : nth_error (a ++ y :: b) (length a) = Some y).
      { rewrite nth_error_app2 by lia. now rewrite Nat.sub_diag. }
      rewrite En. rewrite Et. simpl.
      assert (Hall : forallb (fun j => Nat.eqb j (length a) || memn (nth j (a ++ y :: b) 0%nat) (nullable rules))
                             (seq 0 (length (a ++ y :: b))) = true).
      { apply forallb_forall. intros j Hj. apply in_seq in Hj. rewrite app_length in Hj. simpl in Hj.
        destruct (Nat.eqb_spec j (length a)) as [->|Hne]; [reflexivity|]. simpl.
        destruct (Nat.lt_ge_cases j (length a)) as [Hlt|Hge].
        - rewrite app_nth1 by lia. apply Ha. apply nth_In. lia.
        - rewrite app_nth2 by lia. destruct (j - length a)%nat as [|k] eqn:Ek; [lia|]. simpl. apply Hb. apply nth_In. lia. }
      rewrite Hall. left. reflexivity.
Qed.

End Inst.

(* S : A ; A : B N ; B : S | b ; N : (empty)  (S = 20, A = 21, B = 22, N = 23, b = 10): S -> A -> B -> S is a loop.
   With  B : b  only there is none. *)
Example loops_ex :
  let terms := [(10, 1%Z)]%nat in
  let mk l r := {| r_lhs := l; r_rhs := r; r_anode := false; r_cost := 0%Z; r_transl := [] |} in
  loops terms [mk 20 [21]; mk 21 [22; 23]; mk 22 [20]; mk 22 [10]; mk 23 []]%nat <> [] /\
  loops terms [mk 20 [21]; mk 21 [22; 23]; mk 22 [10]; mk 23 []]%nat = [].
Proof. vm_compute. split; [discriminate | reflexivity]. Qed.
