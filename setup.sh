#!/bin/sh
# Build the framework from files on disk only (offline): Coq development
# (full .vo build, Generated.v regenerated from /repo's working tree) and
# the extracted OCaml oracle.
set -e
cd "$(dirname "$0")"
mkdir -p ocaml/extracted evidence replays
python3 tools/extract_facts.py ${YV_REPO:-/repo}/src coq/theories/Generated.v
cd coq
coq_makefile -f _CoqProject -o Makefile >/dev/null
timeout 3000 make -j16
cd ../ocaml
make
