#!/bin/sh
# Runs the repository's stable baseline (120 tests) with the guard OFF:
# configure /repo's working tree in a scratch directory without -DYAEP_VERIF,
# build (twice: the generated sgramm.c has no dependency edge to yaep.c's
# test binaries, so the first ninja pass may stop early) and run ctest.
set -e
B=$(mktemp -d /tmp/yv_baseline_XXXXXX)
trap 'rm -rf "$B"' EXIT
cmake -G Ninja -S /repo -B "$B" >/dev/null 2>&1
cmake --build "$B" -- -k 0 >/dev/null 2>&1 || true
cmake --build "$B" -- -k 0 >/dev/null 2>&1 || true
ctest --test-dir "$B" -j8 --timeout 900 -R '^yaep(\+\+)?-test' 2>&1 | tail -5
