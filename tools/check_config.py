"""Check C09: lookahead level, set caching and debug level never change a
result.  The implementation is compared with itself across lookahead levels
(-3, 0, 1, 2, 7) and debug levels for fixed result-selecting flags; every
goto-cache hit is recomputed by the guarded self-check (hook H1)."""
import json, os, sys
import yvlib, gen
from yvlib import NIL
from checklib import Check
import check_parse as cp

LAS = [-3, 0, 1, 2, 7]


def long_grammars(rng):
    """Deterministic-style grammars with long repetitive inputs (drive the goto cache)."""
    out = []
    g = gen.Gram([('a', 97), ('+', 43), ('*', 42), ('(', 40), (')', 41), (';', 59)],
                 [('S', ['S', ';', 'E'], 'seq', 0, [0, 2]), ('S', ['E'], None, 0, [0]),
                  ('E', ['E', '+', 'T'], 'plus', 1, [0, 2]), ('E', ['T'], None, 0, [0]),
                  ('T', ['T', '*', 'F'], 'mul', 1, [0, 2]), ('T', ['F'], None, 0, [0]),
                  ('F', ['a'], None, 0, [0]), ('F', ['(', 'E', ')'], None, 0, [1]), ('F', ['(', 'error', ')'], 'err', 0, [])])
    frags = [['a'], ['a', '+', 'a'], ['a', '*', 'a', '+', 'a'], ['(', 'a', '+', 'a', ')', '*', 'a'], ['(', '(', 'a', ')', ')']]
    for n in (30, 120):
        w = []
        for i in range(n):
            if w:
                w.append(';')
            w += rng.choice(frags)
        out.append((g, list(w)))
        if len(w) > 10:
            bad = list(w)
            bad[rng.randrange(len(bad))] = rng.choice(['+', ')', '('])
            out.append((g, bad))
    # items sharing a middle part but differing in prefix and suffix: the same set is reached with different predecessors
    kinds = rng.randint(2, 4)
    mids = rng.randint(2, 3)
    terms = [('k%d' % i, 10 + i) for i in range(kinds)] + [('s%d' % i, 20 + i) for i in range(kinds)] + [('m%d' % i, 30 + i) for i in range(mids)]
    rules = [('L', ['I'], None, 0, [0]), ('L', ['L', 'I'], 'l', 0, [0, 1])]
    for i in range(kinds):
        rules.append(('I', ['k%d' % i, 'X%d' % i], 'i%d' % i, 0, [1]))
        rules.append(('X%d' % i, ['P', 's%d' % i], 'x%d' % i, 0, [0]))
    rules.append(('P', ['m%d' % j for j in range(mids)], 'p', 0, [0]))
    g2 = gen.Gram(terms, rules)
    for n in (2, 3, 8, 60):
        w = []
        for _ in range(n):
            i = rng.randrange(kinds)
            w += ['k%d' % i] + ['m%d' % j for j in range(mids)] + ['s%d' % i]
        out.append((g2, w))
    g3 = gen.Gram([('x', 1), ('(', 2), (')', 3)], [('S', [], None, 0, None), ('S', ['S', '(', 'S', ')'], 'b', 0, [0, 2]), ('S', ['S', 'x'], 'x', 0, [0])])
    for n in (20, 100):
        w, depth = [], 0
        for _ in range(n):
            r = rng.random()
            if r < 0.4:
                w.append('('); depth += 1
            elif r < 0.7 and depth:
                w.append(')'); depth -= 1
            else:
                w.append('x')
        w += [')'] * depth
        out.append((g3, w))
    return out


def outcome(p, den):
    d = {'rc': p['rc'], 'amb': p['amb'], 'errs': p['errs'], 'root': None if p.get('root') is None else 'tree'}
    if den is not None:
        d['trees'] = sorted(set(den['trees']))
    elif p.get('nodes') is not None:
        d['nodes'] = [{k: v for k, v in n.items() if k not in ('term_in_block', 'name_block')} for n in p['nodes']]
    return json.dumps(d, sort_keys=True)


def sets_round(chk, exe, ps, quick):
    """The sets the static lookahead works with, read through the hook, must be closed under the rules
    (FirstFollow.closed_tbl: then they contain the exact FIRST / FOLLOW sets and the filter keeps every useful item)."""
    rng = chk.rng
    seen, gl = set(), []
    for g, strict, w in ps.pairs:
        k = yvlib.grammar_text(g.as_dict())
        if k not in seen:
            seen.add(k); gl.append((g, strict))
    # grammars with more terminals than one machine word of a terminal set holds (the flag "changed" of a set union must
    # cover every word): family grammars with unused terminals around the declared ones
    for _ in range(60 if quick else 400):
        g = gen.family_grammar(rng, fam=rng.choice(['deepchains', 'chains', 'stmts', 'nullprefix', 'blocks']))
        if not g.well_formed(False):
            continue
        pad = [('u%d' % i, 3000 + i) for i in range(rng.choice([60, 62, 63, 64, 70, 130]))]
        k_ = rng.randint(0, len(pad))
        gl.append((gen.Gram(pad[:k_] + g.terms + pad[k_:], g.rules), False))
    # chains that need many passes of the fixpoint loops, in every order of declaration: nullable through unit rules,
    # FIRST through leading nonterminals, FOLLOW through trailing nonterminals
    for _ in range(200 if quick else 1500):
        k = rng.randint(3, 7)
        kind = rng.choice(['nullable', 'follow', 'first'])
        ts = [chr(ord('a') + j) for j in range(k + 1)]
        if kind == 'nullable':
            rules = [('N%d' % j, ['N%d' % (j + 1)], None, 0, [0]) for j in range(k)] + [('N%d' % j, [ts[j]], None, 0, [0]) for j in range(k)]
            rules += [('N%d' % k, [], None, 0, None), ('N%d' % k, [ts[k]], None, 0, [0])]
            top = [('S', ['N0', 'z'], None, 0, [0]), ('S', ['z', 'N%d' % rng.randrange(k)], None, 0, [0])]
            terms = [(t, ord(t)) for t in ts] + [('z', 122)]
        elif kind == 'follow':
            rules = [('N%d' % j, [ts[j], 'N%d' % (j + 1)], None, 0, [0]) for j in range(k)] + [('N%d' % k, [ts[k]], None, 0, [0])]
            marks = 'pqrstuvw'
            top = [('S', [marks[j], 'N%d' % j, marks[j].upper()], None, 0, [0]) for j in range(k + 1)]
            terms = [(t, ord(t)) for t in ts] + [(marks[j], ord(marks[j])) for j in range(k + 1)] + [(marks[j].upper(), ord(marks[j].upper())) for j in range(k + 1)]
        else:
            rules = [('N%d' % j, ['N%d' % (j + 1), ts[j]], None, 0, [0]) for j in range(k)] + [('N%d' % k, [ts[k]], None, 0, [0])]
            top = [('S', ['N%d' % j, 'z'], None, 0, [0]) for j in rng.sample(range(k + 1), 2)]
            terms = [(t, ord(t)) for t in ts] + [('z', 122)]
        order = rng.choice(['down', 'up', 'shuffle'])
        if order == 'up':
            rules.reverse()
        elif order == 'shuffle':
            rng.shuffle(rules)
        rng.shuffle(top)
        if kind == 'follow' and rng.random() < 0.6:
            # the deeper a nonterminal of the chain, the earlier it is mentioned (and numbered): every pass moves FOLLOW one step
            top.sort(key=lambda r_: -int(r_[1][1][1:]))
        allr = top[:1] + (top[1:] + rules if rng.random() < 0.5 else rules + top[1:])
        used = {x for r_ in allr for x in r_[1]}
        gl.append((gen.Gram([t for t in terms if t[0] in used], allr), False))
    script = []
    for i, (g, strict) in enumerate(gl):
        script.append('\n'.join(['CASE s%d' % i, 'NEW 0', 'SET 0 0 %d' % rng.choice([0, 1, 2])] + yvlib.script_read(0, g.as_dict(), 1 if strict else 0) + ['SETS 0', 'FREEG 0', 'END']))
    res = yvlib.run_driver(exe, '\n'.join(script))
    qs, qi = [], []
    for i, ((g, strict), r) in enumerate(zip(gl, res)):
        ops = cp.get_ops(r)
        if 'abort' in r or 'sets' not in ops or (ops.get('read') or [{}])[0].get('rc') != 0:
            continue
        nts = {n['name']: n for n in ops['sets'][0]['nts']}
        # the model grammar: `error' is an ordinary terminal (one more than the declared ones)
        tn = dict(g.tnum)
        tn['error'] = len(tn)
        code2t = {c: tn[nm] for nm, c in g.terms}
        code2t[-2] = tn['error']
        nn = [x for x in g.nts if x != 'error']
        nnum = {x: j for j, x in enumerate(nn)}
        enc = [len(g.rules)]
        for lhs, rhs, an, cost, tr in g.rules:
            enc += [nnum[lhs], len(rhs)] + [(2 * tn[x] if x in tn else 2 * nnum[x] + 1) for x in rhs] + [0, 0, 0]
        rows = []
        ok = True
        for x in nn:
            d = nts.get(x)
            if d is None:
                ok = False
                break
            fo = [0 if c == -1 else code2t[c] + 1 for c in d['follow'] if c == -1 or c in code2t]
            fi = [code2t[c] for c in d['first'] if c in code2t]
            rows += [d['empty'], len(fi)] + fi + [len(fo)] + fo
        if not ok:
            continue
        qs.append('FFCLOSED ' + ' '.join(map(str, enc + [nnum[g.start()], len(nn)] + rows)))
        qi.append(i)
    ans = yvlib.run_oracle(qs) if qs else []
    bad = [i for i, a in zip(qi, ans) if a.strip() != '1']
    for i in bad[:3]:
        g, strict = gl[i]
        small = gen.Gram([t for t in g.terms if not (t[0][:1] == 'u' and t[0][1:].isdigit())], g.rules)
        chk.obl['broken'].append('correspondence FirstFollow.closed_tbl: the nullable flags / FIRST / FOLLOW sets the implementation computed for the grammar `%s\' '
                                 '(%d terminals declared) are not closed under its rules, so C09_closed_sets_filter_keeps_useful_items does not apply to them' % (
                                     yvlib.grammar_text(small.as_dict()).replace('\n', ' ')[:400], len(g.terms)))
    return {'first_follow_sets_checked': len(qs), 'first_follow_sets_not_closed': len(bad)}


def run(pid, tier, seed, replay=None):
    chk = Check(pid, tier, seed)
    chk.coq()
    try:
        exe = yvlib.build_impl('c')
    except yvlib.BuildError as e:
        chk.obl['broken'].append('implementation does not build: ' + str(e)[-800:])
        return chk.finish()
    quick = tier == 'quick'
    rng = chk.rng
    ps = cp.ParseStream(chk, exe, 60 if quick else 600, 3 if quick else 4, 4, max_trees=150, n_families=40 if quick else 300, err_rules=2, family_mutants=True)
    pairs = [(g, s, w, False) for (g, s, w) in ps.pairs]
    for _ in range(2 if quick else 10):
        pairs += [(g, False, w, True) for (g, w) in long_grammars(rng)]
    script, index = [], []
    for i, (g, strict, w, is_long) in enumerate(pairs):
        flagsets = [{'one': 1, 'cost': 0, 'rec': 1, 'match': 3}] if is_long else \
            [{'one': rng.choice([0, 1]), 'cost': rng.choice([0, 1]), 'rec': rng.choice([0, 1]), 'match': rng.choice([1, 2, 3, 5])} for _ in range(2)]
        for fi, fl in enumerate(flagsets):
            dbgs = [0, rng.choice([1, 2, 3, 6, -1])]
            for la in LAS:
                for dbg in (dbgs if la in (0, 1, 2) else [0]):
                    cfg = dict(fl, la=la, debug=dbg)
                    cid = 'q%d_%d_%d_%d' % (i, fi, la, dbg)
                    gd = g.as_dict()
                    v = yvlib.vary((seed, i), gd, [], p_pad=0.25, p_pre=0.0)     # the same padding for every level of one case
                    if v.get('pad_after') is not None:
                        gd = dict(gd, terms=list(v.get('pad_before', [])) + list(gd['terms']) + list(v['pad_after']))
                    L = ['CASE %s' % cid, 'NEW 0'] + yvlib.script_cfg(0, cfg) + yvlib.script_read(0, gd, 1 if strict else 0)
                    if not is_long and (seed + 3 * i) % 5 == 1:
                        # the grammar is read at level 0 (or 2) and the level is set afterwards: what is prepared at definition
                        # time must serve every level
                        L = ['CASE %s' % cid, 'NEW 0'] + yvlib.script_cfg(0, dict(cfg, la=(0 if i % 2 == 0 else 2))) + yvlib.script_read(0, gd, 1 if strict else 0) + ['SET 0 0 %d' % la]
                    # a fifth of the short cases: the object has parsed before (the same input, or the input without its last
                    # token), at every level alike - what a parse leaves in the grammar must not change the next one
                    pre = None
                    if not is_long and (seed + 7 * i) % 5 == 0:
                        pw = w if (seed + i) % 2 == 0 else w[:-1]
                        pre = 'PARSE 0 0 %d %s' % (len(pw), ' '.join(map(str, gen.codes_of(g, pw))))
                        L.append(pre)
                    L += ['VSET -1 0', 'VSET 0 1', 'PARSE 0 0 %d %s' % (len(w), ' '.join(map(str, gen.codes_of(g, w)))), 'COUNTERS', 'FREEG 0', 'END']
                    script.append('\n'.join(L)); index.append((i, fi, la, dbg, cfg, pre is not None))
    res = yvlib.run_driver(exe, '\n'.join(script), timeout_case=60)
    for k_, (ix, r) in enumerate(zip(index, res)):
        if ix[5] and 'ops' in r:
            # drop the record of the earlier parse: consumers see one parse
            for j_, o in enumerate(r['ops']):
                if o.get('op') == 'parse':
                    r.setdefault('pre_ops', []).append(o)
                    del r['ops'][j_]
                    break
    index = [ix[:5] for ix in index]
    # denotations for the small cases
    qs, qidx = [], []
    for (i, fi, la, dbg, cfg), r in zip(index, res):
        if pairs[i][3]:
            continue
        ops = cp.get_ops(r)
        p = (ops.get('parse') or [None])[0]
        if p and p.get('root') is not None and p['rc'] == 0 and cp.count_denoted(p) <= 300:
            names = {}
            qs.append(cp.dag_query(p, names)); qidx.append((i, fi, la, dbg))
    den = dict(zip(qidx, [cp.parse_denote(a) for a in yvlib.run_oracle(qs)]))
    groups = {}
    stats = {'pairs': len(pairs), 'long_inputs': sum(1 for p in pairs if p[3]), 'max_tokens': max(len(p[2]) for p in pairs),
             'cases': len(index), 'cache_hits': 0, 'selfcheck_mismatches': 0, 'groups': 0}
    stats.update(sets_round(chk, exe, ps, quick))
    for (i, fi, la, dbg, cfg), r in zip(index, res):
        g, strict, w, is_long = pairs[i]
        ops = cp.get_ops(r)
        rd = (ops.get('read') or [{}])[0]
        if rd.get('rc') != 0 and 'abort' not in r:
            continue
        rep = {'property': 'C09', 'grammar': yvlib.grammar_text(g.as_dict()), 'tokens': w if len(w) < 3000 else w[:3000] + ['...'],
               'cfg': cfg, 'implementation': r if len(json.dumps(r)) < 20000 else {'abort': r.get('abort'), 'truncated': True}}
        sig = 'C09:%%s:%s|%s|%s' % (yvlib.grammar_text(g.as_dict()).replace('\n', ' '), ' '.join(w)[:300], ','.join('%s=%s' % kv for kv in sorted(cfg.items()) if kv[0] not in ('la', 'debug')))
        if 'abort' in r or 'parse' not in ops:
            chk.violation(sig % 'abort', 'aborted at la=%d debug=%d: %s %s' % (la, dbg, r.get('abort'), (r.get('stderr') or [''])[:2]), rep)
            continue
        p = ops['parse'][0]
        ctr = (ops.get('counters') or [{}])[0].get('verif') or [0] * 8
        stats['cache_hits'] += ctr[0]
        if ctr[1] > 0:
            stats['selfcheck_mismatches'] += ctr[1]
            chk.violation(sig % 'cache', 'a re-used (cached) Earley set differs from the freshly computed one (%d of %d hits) at la=%d' % (ctr[1], ctr[0], la), rep)
            continue
        d = den.get((i, fi, la, dbg))
        if d is not None and d['status'] != 'ok':
            d = None
        oc = outcome(p, d)
        groups.setdefault((i, fi), []).append((la, dbg, oc, rep, d is not None))
    for (i, fi), lst in groups.items():
        g, strict, w, is_long = pairs[i]
        stats['groups'] += 1
        key = (i, fi)
        chk.note_case(key, len(w) > 0, {'grammar': yvlib.grammar_text(g.as_dict()), 'tokens': ' '.join(w)[:120], 'levels': len(lst)})
        # compare like with like (denotation available or raw node lists)
        ref = None
        for la, dbg, oc, rep, has_den in lst:
            if ref is None:
                ref = (la, dbg, oc, has_den)
                continue
            if has_den != ref[3]:
                continue
            if oc != ref[2]:
                sig = 'C09:differs:%s|%s|%s' % (yvlib.grammar_text(g.as_dict()).replace('\n', ' '), ' '.join(w)[:300], fi)
                rep2 = dict(rep, other={'la': ref[0], 'debug': ref[1], 'outcome': json.loads(ref[2]) if len(ref[2]) < 5000 else 'large'},
                            this_outcome=json.loads(oc) if len(oc) < 5000 else 'large')
                chk.violation(sig, 'outcome at la=%d debug=%d differs from la=%d debug=%d' % (la, dbg, ref[0], ref[1]), rep2)
                break
    chk.cov['rule'] = ('(grammar, input, result-selecting flags) groups, each run at lookahead -3,0,1,2,7 and two debug levels with the cache self-check on; '
                       'random small grammars + families + long repetitive inputs (up to %d tokens); non-trivial = non-empty input' % stats['max_tokens'])
    return chk.finish(extra_cov={'stream': stats})
