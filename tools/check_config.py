"""Check C09: lookahead level, set caching and debug level never change a
result.  The implementation is compared with itself across lookahead levels
(-3, 0, 1, 2, 7) and debug levels for fixed result-selecting flags; every
goto-cache hit is recomputed by the guarded self-check (hook H1)."""
import json, os, sys
import yvlib, gen
from yvlib import NIL
from checklib import Check
import check_parse as cp

LAS = [-3, 0, 1, 2, 7]


def long_grammars(rng):
    """Deterministic-style grammars with long repetitive inputs (drive the goto cache)."""
    out = []
    g = gen.Gram([('a', 97), ('+', 43), ('*', 42), ('(', 40), (')', 41), (';', 59)],
                 [('S', ['S', ';', 'E'], 'seq', 0, [0, 2]), ('S', ['E'], None, 0, [0]),
                  ('E', ['E', '+', 'T'], 'plus', 1, [0, 2]), ('E', ['T'], None, 0, [0]),
                  ('T', ['T', '*', 'F'], 'mul', 1, [0, 2]), ('T', ['F'], None, 0, [0]),
                  ('F', ['a'], None, 0, [0]), ('F', ['(', 'E', ')'], None, 0, [1]), ('F', ['(', 'error', ')'], 'err', 0, [])])
    frags = [['a'], ['a', '+', 'a'], ['a', '*', 'a', '+', 'a'], ['(', 'a', '+', 'a', ')', '*', 'a'], ['(', '(', 'a', ')', ')']]
    for n in (30, 120):
        w = []
        for i in range(n):
            if w:
                w.append(';')
            w += rng.choice(frags)
        out.append((g, list(w)))
        if len(w) > 10:
            bad = list(w)
            bad[rng.randrange(len(bad))] = rng.choice(['+', ')', '('])
            out.append((g, bad))
    # items sharing a middle part but differing in prefix and suffix: the same set is reached with different predecessors
    kinds = rng.randint(2, 4)
    mids = rng.randint(2, 3)
    terms = [('k%d' % i, 10 + i) for i in range(kinds)] + [('s%d' % i, 20 + i) for i in range(kinds)] + [('m%d' % i, 30 + i) for i in range(mids)]
    rules = [('L', ['I'], None, 0, [0]), ('L', ['L', 'I'], 'l', 0, [0, 1])]
    for i in range(kinds):
        rules.append(('I', ['k%d' % i, 'X%d' % i], 'i%d' % i, 0, [1]))
        rules.append(('X%d' % i, ['P', 's%d' % i], 'x%d' % i, 0, [0]))
    rules.append(('P', ['m%d' % j for j in range(mids)], 'p', 0, [0]))
    g2 = gen.Gram(terms, rules)
    for n in (2, 3, 8, 60):
        w = []
        for _ in range(n):
            i = rng.randrange(kinds)
            w += ['k%d' % i] + ['m%d' % j for j in range(mids)] + ['s%d' % i]
        out.append((g2, w))
    g3 = gen.Gram([('x', 1), ('(', 2), (')', 3)], [('S', [], None, 0, None), ('S', ['S', '(', 'S', ')'], 'b', 0, [0, 2]), ('S', ['S', 'x'], 'x', 0, [0])])
    for n in (20, 100):
        w, depth = [], 0
        for _ in range(n):
            r = rng.random()
            if r < 0.4:
                w.append('('); depth += 1
            elif r < 0.7 and depth:
                w.append(')'); depth -= 1
            else:
                w.append('x')
        w += [')'] * depth
        out.append((g3, w))
    return out


def outcome(p, den):
    d = {'rc': p['rc'], 'amb': p['amb'], 'errs': p['errs'], 'root': None if p.get('root') is None else 'tree'}
    if den is not None:
        d['trees'] = sorted(set(den['trees']))
    elif p.get('nodes') is not None:
        d['nodes'] = [{k: v for k, v in n.items() if k not in ('term_in_block', 'name_block')} for n in p['nodes']]
    return json.dumps(d, sort_keys=True)


def run(pid, tier, seed, replay=None):
    chk = Check(pid, tier, seed)
    chk.coq()
    try:
        exe = yvlib.build_impl('c')
    except yvlib.BuildError as e:
        chk.obl['broken'].append('implementation does not build: ' + str(e)[-800:])
        return chk.finish()
    quick = tier == 'quick'
    rng = chk.rng
    ps = cp.ParseStream(chk, exe, 60 if quick else 600, 3 if quick else 4, 4, max_trees=150, n_families=40 if quick else 300, err_rules=2, family_mutants=True)
    pairs = [(g, s, w, False) for (g, s, w) in ps.pairs]
    for _ in range(2 if quick else 10):
        pairs += [(g, False, w, True) for (g, w) in long_grammars(rng)]
    script, index = [], []
    for i, (g, strict, w, is_long) in enumerate(pairs):
        flagsets = [{'one': 1, 'cost': 0, 'rec': 1, 'match': 3}] if is_long else \
            [{'one': rng.choice([0, 1]), 'cost': rng.choice([0, 1]), 'rec': rng.choice([0, 1]), 'match': rng.choice([1, 2, 3, 5])} for _ in range(2)]
        for fi, fl in enumerate(flagsets):
            dbgs = [0, rng.choice([1, 2, 3, 6, -1])]
            for la in LAS:
                for dbg in (dbgs if la in (0, 1, 2) else [0]):
                    cfg = dict(fl, la=la, debug=dbg)
                    cid = 'q%d_%d_%d_%d' % (i, fi, la, dbg)
                    gd = g.as_dict()
                    v = yvlib.vary((seed, i), gd, [], p_pad=0.25, p_pre=0.0)     # the same padding for every level of one case
                    if v.get('pad_after') is not None:
                        gd = dict(gd, terms=list(v.get('pad_before', [])) + list(gd['terms']) + list(v['pad_after']))
                    L = ['CASE %s' % cid, 'NEW 0'] + yvlib.script_cfg(0, cfg) + yvlib.script_read(0, gd, 1 if strict else 0)
                    L += ['VSET -1 0', 'VSET 0 1', 'PARSE 0 0 %d %s' % (len(w), ' '.join(map(str, gen.codes_of(g, w)))), 'COUNTERS', 'FREEG 0', 'END']
                    script.append('\n'.join(L)); index.append((i, fi, la, dbg, cfg))
    res = yvlib.run_driver(exe, '\n'.join(script), timeout_case=60)
    # denotations for the small cases
    qs, qidx = [], []
    for (i, fi, la, dbg, cfg), r in zip(index, res):
        if pairs[i][3]:
            continue
        ops = cp.get_ops(r)
        p = (ops.get('parse') or [None])[0]
        if p and p.get('root') is not None and p['rc'] == 0 and cp.count_denoted(p) <= 300:
            names = {}
            qs.append(cp.dag_query(p, names)); qidx.append((i, fi, la, dbg))
    den = dict(zip(qidx, [cp.parse_denote(a) for a in yvlib.run_oracle(qs)]))
    groups = {}
    stats = {'pairs': len(pairs), 'long_inputs': sum(1 for p in pairs if p[3]), 'max_tokens': max(len(p[2]) for p in pairs),
             'cases': len(index), 'cache_hits': 0, 'selfcheck_mismatches': 0, 'groups': 0}
    for (i, fi, la, dbg, cfg), r in zip(index, res):
        g, strict, w, is_long = pairs[i]
        ops = cp.get_ops(r)
        rd = (ops.get('read') or [{}])[0]
        if rd.get('rc') != 0 and 'abort' not in r:
            continue
        rep = {'property': 'C09', 'grammar': yvlib.grammar_text(g.as_dict()), 'tokens': w if len(w) < 3000 else w[:3000] + ['...'],
               'cfg': cfg, 'implementation': r if len(json.dumps(r)) < 20000 else {'abort': r.get('abort'), 'truncated': True}}
        sig = 'C09:%%s:%s|%s|%s' % (yvlib.grammar_text(g.as_dict()).replace('\n', ' '), ' '.join(w)[:300], ','.join('%s=%s' % kv for kv in sorted(cfg.items()) if kv[0] not in ('la', 'debug')))
        if 'abort' in r or 'parse' not in ops:
            chk.violation(sig % 'abort', 'aborted at la=%d debug=%d: %s %s' % (la, dbg, r.get('abort'), (r.get('stderr') or [''])[:2]), rep)
            continue
        p = ops['parse'][0]
        ctr = (ops.get('counters') or [{}])[0].get('verif') or [0] * 8
        stats['cache_hits'] += ctr[0]
        if ctr[1] > 0:
            stats['selfcheck_mismatches'] += ctr[1]
            chk.violation(sig % 'cache', 'a re-used (cached) Earley set differs from the freshly computed one (%d of %d hits) at la=%d' % (ctr[1], ctr[0], la), rep)
            continue
        d = den.get((i, fi, la, dbg))
        if d is not None and d['status'] != 'ok':
            d = None
        oc = outcome(p, d)
        groups.setdefault((i, fi), []).append((la, dbg, oc, rep, d is not None))
    for (i, fi), lst in groups.items():
        g, strict, w, is_long = pairs[i]
        stats['groups'] += 1
        key = (i, fi)
        chk.note_case(key, len(w) > 0, {'grammar': yvlib.grammar_text(g.as_dict()), 'tokens': ' '.join(w)[:120], 'levels': len(lst)})
        # compare like with like (denotation available or raw node lists)
        ref = None
        for la, dbg, oc, rep, has_den in lst:
            if ref is None:
                ref = (la, dbg, oc, has_den)
                continue
            if has_den != ref[3]:
                continue
            if oc != ref[2]:
                sig = 'C09:differs:%s|%s|%s' % (yvlib.grammar_text(g.as_dict()).replace('\n', ' '), ' '.join(w)[:300], fi)
                rep2 = dict(rep, other={'la': ref[0], 'debug': ref[1], 'outcome': json.loads(ref[2]) if len(ref[2]) < 5000 else 'large'},
                            this_outcome=json.loads(oc) if len(oc) < 5000 else 'large')
                chk.violation(sig, 'outcome at la=%d debug=%d differs from la=%d debug=%d' % (la, dbg, ref[0], ref[1]), rep2)
                break
    chk.cov['rule'] = ('(grammar, input, result-selecting flags) groups, each run at lookahead -3,0,1,2,7 and two debug levels with the cache self-check on; '
                       'random small grammars + families + long repetitive inputs (up to %d tokens); non-trivial = non-empty input' % stats['max_tokens'])
    return chk.finish(extra_cov={'stream': stats})
