"""Checks C01-C05: recognition, single tree, all-parses DAG, minimal cost,
ambiguity flag.  One shared stream of (grammar, input) pairs; per property the
configurations and the registered relation differ."""
import json, os, sys, itertools
import yvlib, gen
from yvlib import NIL
from checklib import Check

FUEL = 60


def dag_query(res, names, fuel=400):
    """Encode the DAG of a parse result for the oracle's DENOTE query."""
    nodes = res['nodes']
    q = ['DENOTE', fuel, res['root'], len(nodes)]
    for n in nodes:
        k = n['k']
        if k == 'nil':
            q.append(0)
        elif k == 'err':
            q.append(1)
        elif k == 'term':
            q += [2, n['code'], max(n['attr'], 0) if n['attr'] >= 0 else 999999]
        elif k == 'anode':
            q += [3, names.setdefault(n['name'], len(names)), n['cost'], len(n['kids'])] + n['kids']
        elif k == 'alt':
            q += [4, n['node'], 0 if n['next'] is None else n['next'] + 1]
        else:
            return None
    return ' '.join(str(x) for x in q)


DEEP = []      # sizes of results whose DAG is deeper than 300 nodes (not evaluated by the enumerating deciders)


def count_denoted(res, cap=5000):
    """Number of trees denoted (with multiplicity) - to skip oversize cases before asking the oracle."""
    nodes = res['nodes']
    memo = {}

    def cnt(i, depth=0):
        if i in memo:
            return memo[i]
        if depth > 300:
            DEEP.append(len(nodes))
            return cap + 1
        n = nodes[i]
        k = n['k']
        memo[i] = cap + 1      # cycle guard
        if k == 'anode':
            c = 1
            for j in n['kids']:
                c *= cnt(j, depth + 1)
                if c > cap:
                    c = cap + 1
                    break
        elif k == 'alt':
            c = cnt(n['node'], depth + 1) + (cnt(n['next'], depth + 1) if n['next'] is not None else 0)
        else:
            c = 1
        memo[i] = min(c, cap + 1)
        return memo[i]
    return cnt(res['root'])


def full_info_grammar(g):
    """Same rules, but every rule builds a node naming the rule and keeping all children:
    translations of this grammar are the derivation trees themselves."""
    rules = []
    for i, (lhs, rhs, an, cost, tr) in enumerate(g.rules):
        rules.append((lhs, rhs, '#r%d' % i, 0, list(range(len(rhs)))))
    return gen.Gram(g.terms, rules)


class ParseStream:
    """Generates (grammar, strict, input) pairs and runs implementation + oracle."""

    def __init__(self, chk, exe, n_grammars, exhaustive_len, extra_inputs, costs=(0, 5), p_anode=0.6, sentences_only=False, max_trees=None, n_families=0, err_rules=0, family_mutants=False, block_maxlen=22):
        self.chk, self.exe = chk, exe
        self.vary = True
        self.pairs = []
        rng = chk.rng
        self.stats = {'grammars': 0, 'inputs': 0, 'rejected_by_impl': 0, 'sentences': 0, 'nonsentences': 0,
                      'oracle_none': 0, 'nullable_grammars': 0, 'ambiguous_inputs': 0}
        # the corpus of minimised cases that once failed runs first
        import json as _json, os as _os
        cf = _os.path.join(yvlib.VERIF, 'corpus', 'parse_cases.json')
        if _os.path.exists(cf):
            for c in _json.load(open(cf)):
                g = gen.Gram([tuple(t) for t in c['grammar']['terms']],
                             [(r[0], list(r[1]), r[2], r[3], (None if r[4] is None else list(r[4]))) for r in c['grammar']['rules']])
                for w in c['inputs']:
                    if max_trees is None or gen.count_derivations(g, w) <= max_trees:
                        self.pairs.append((g, bool(c['strict']), list(w)))
            self.stats['corpus_pairs'] = len(self.pairs)
        # every family gets its quota (a third of n_families each), so that no family depends on the luck of a draw
        per = (n_families + 2) // 3
        for gi in range(per * len(gen.FAMILIES) if n_families else 0):
            g = gen.family_grammar(rng, costs=costs, fam=gen.FAMILIES[gi % len(gen.FAMILIES)])
            if not g.well_formed(False):
                continue
            self.stats['family_grammars'] = self.stats.get('family_grammars', 0) + 1
            for w in gen.family_inputs(rng, g, (16 if block_maxlen > 14 else 8) if getattr(g, 'pieces', None) else 6, block_maxlen):
                if max_trees is None or gen.count_derivations(g, w) <= max_trees:
                    self.pairs.append((g, False, w))
                if family_mutants and not sentences_only and rng.random() < 0.5:
                    m = gen.mutate(rng, g, w, rng.choice([1, 1, 2]))
                    if len(m) <= 9 and (max_trees is None or gen.count_derivations(g, m) <= max_trees):
                        self.pairs.append((g, False, m))
        for gi in range(n_grammars):
            strict = rng.random() < 0.5
            profile = rng.choice(['default', 'default', 'nullable', 'units', 'nullable+units'])
            self.stats['profile_' + profile] = self.stats.get('profile_' + profile, 0) + 1
            g = gen.rand_wf_grammar(rng, strict, max_nt=rng.choice([1, 2, 3, 4, 5]), max_t=rng.choice([1, 2, 3, 4]),
                                    max_rhs=rng.choice([2, 3, 4]), costs=costs, p_anode=p_anode,
                                    sparse_codes=rng.random() < 0.2,
                                    err_rules=(rng.choice([0] + list(range(err_rules + 1))) if err_rules else 0),
                                    p_empty=0.3 if 'nullable' in profile else 0.0,
                                    p_unit=0.3 if 'units' in profile else 0.0)
            if g is None:
                continue
            self.stats['grammars'] += 1
            if g.nullable():
                self.stats['nullable_grammars'] += 1
            seen = set()
            ws = []
            for _ in range(extra_inputs):
                w = gen.rand_sentence(rng, g, maxlen=8)
                if w is None:
                    continue
                ws.append(w)
                if not sentences_only:
                    ws.append(gen.mutate(rng, g, w, rng.choice([1, 1, 2])))
            if exhaustive_len >= 0:
                alph = len(g.terms)
                L = exhaustive_len if alph <= 2 else max(1, exhaustive_len - 1) if alph == 3 else max(1, exhaustive_len - 2)
                ws += list(gen.all_strings(g, L))
            for w in ws:
                key = tuple(w)
                if key in seen or len(w) > 9:
                    continue
                seen.add(key)
                if max_trees is not None and gen.count_derivations(g, w) > max_trees:
                    self.stats['too_ambiguous_skipped'] = self.stats.get('too_ambiguous_skipped', 0) + 1
                    continue
                self.pairs.append((g, strict, w))
        self.stats['inputs'] = len(self.pairs)

    def oracle_basics(self, want_trans=True, want_full=False):
        """REC / TRANS (/ TRANS on the full-information grammar) for all pairs."""
        qs = []
        self.names = []
        for g, strict, w in self.pairs:
            names = {}
            toks = [g.tnum[t] for t in w]
            enc = g.enc_rules(names)
            start = g.nnum[g.start()]
            qs.append('REC ' + ' '.join(map(str, enc + [start, len(toks)] + toks)))
            codes = [c for n, c in g.terms]
            t_err = len(g.terms) + 7
            if want_trans:
                qs.append('TRANS ' + ' '.join(map(str, [FUEL] + enc + [len(codes)] + codes + [t_err, start, len(toks)] + toks)))
            if want_full:
                # the derivation trees: translations of the full-information variant, built by the extracted FullInfo.full
                qs.append('TRANSF ' + ' '.join(map(str, [FUEL] + enc + [len(codes)] + codes + [t_err, start, len(toks)] + toks)))
            self.names.append(names)
        ans = yvlib.run_oracle(qs)
        per = 1 + (1 if want_trans else 0) + (1 if want_full else 0)
        self.rec, self.trans, self.full = [], [], []
        for i in range(len(self.pairs)):
            a = ans[i * per:(i + 1) * per]
            self.rec.append({'1': True, '0': False}.get(a[0]))
            k = 1
            if want_trans:
                self.trans.append(parse_trans(a[k])); k += 1
            if want_full:
                self.full.append(parse_trans(a[k])); k += 1
        self.stats['oracle_none'] = sum(1 for r in self.rec if r is None)
        self.stats['sentences'] = sum(1 for r in self.rec if r is True)
        self.stats['nonsentences'] = sum(1 for r in self.rec if r is False)

    def run_impl(self, cfgs_for, allocmode_for=None):
        """cfgs_for(i) -> list of cfg dicts for pair i.  Returns dict (i, cfg_index) -> driver result."""
        script = []
        index = []
        for i, (g, strict, w) in enumerate(self.pairs):
            cfgs = cfgs_for(i)
            for ci, cfg in enumerate(cfgs):
                am = allocmode_for(i, cfg) if allocmode_for else 0
                cid = 'p%dc%d' % (i, ci)
                toks = gen.codes_of(g, w)
                v = yvlib.vary((self.chk.seed, i, ci), g.as_dict(), toks) if self.vary else None
                if v:
                    kind = 'pad' if 'pad_after' in v else ('pre' if 'pre' in v else 'desc')
                    self.stats['varied_' + kind] = self.stats.get('varied_' + kind, 0) + 1
                script.append(yvlib.simple_case(cid, g.as_dict(), 1 if strict else 0, cfg, toks, allocmode=am, variation=v))
                index.append((i, ci, cfg, am, v))
        res = yvlib.run_driver(self.exe, '\n'.join(script))
        out = {}
        for (i, ci, cfg, am, v), r in zip(index, res):
            if v:
                r = yvlib.strip_variation(r, v)
                r['variation'] = v
            out[(i, ci)] = (cfg, am, r)
        return out


def parse_trans(a):
    """'ok|tree=cost;tree=cost' -> dict tree -> cost ; 'none' -> None"""
    if not a.startswith('ok|'):
        return None
    body = a[3:]
    d = {}
    if body:
        for item in body.split(';'):
            t, c = item.rsplit('=', 1)
            d[t] = int(c)
    return d


def parse_denote(a):
    parts = a.split('|')
    st = parts[0]
    flags = [int(x) for x in parts[1].split()] if len(parts) > 1 else [0, 0, 0]
    r = {'status': st, 'acyclic': flags[0], 'altflat': flags[1], 'hasalt': flags[2], 'trees': [], 'own': []}
    if st == 'ok':
        r['trees'] = parts[2].split(';') if parts[2] else []
        r['own'] = parts[3].split(';') if parts[3] else []
    return r


def get_ops(r):
    ops = {}
    for o in r.get('ops', []):
        ops.setdefault(o['op'], []).append(o)
    return ops


def replay_obj(pid, g, strict, w, cfg, am, r, expect):
    return {'property': pid, 'grammar': yvlib.grammar_text(g.as_dict()), 'grammar_struct': g.as_dict(), 'strict': strict,
            'tokens': w, 'cfg': cfg, 'allocmode': am, 'expected': expect, 'implementation': r}


def sig_of(pid, rel, g, w, cfg):
    return '%s:%s:%s|%s|%s' % (pid, rel, yvlib.grammar_text(g.as_dict()).replace('\n', ' '), ' '.join(w),
                               ','.join('%s=%s' % kv for kv in sorted(cfg.items())))


ALL_LA = [0, 1, 2]


def run(pid, tier, seed, replay=None):
    chk = Check(pid, tier, seed)
    chk.coq()
    try:
        exe = yvlib.build_impl('c')
    except yvlib.BuildError as e:
        chk.obl['broken'].append('implementation does not build: ' + str(e)[-800:])
        return chk.finish()
    quick = tier == 'quick'
    if pid == 'C01':
        ps = ParseStream(chk, exe, 120 if quick else 500, 4 if quick else 5, 4, n_families=40 if quick else 150)
        ps.oracle_basics(want_trans=False)
        cfgs = [{'la': la, 'one': o, 'cost': c, 'rec': r} for la in ALL_LA for o in (0, 1) for c in (0, 1) for r in (0, 1)]
        res = ps.run_impl(lambda i: cfgs if ps.rec[i] is not None else [])
        check_C01(chk, ps, res)
    elif pid in ('C02', 'C03', 'C04', 'C05'):
        amb_bias = pid in ('C03', 'C04', 'C05')
        ps = ParseStream(chk, exe, (120 if quick else 1200), (4 if quick else 5), 5, sentences_only=False,
                         costs=(0, 3) if pid == 'C04' else (0, 5), p_anode=0.75 if amb_bias else 0.6, max_trees=150,
                         n_families=(60 if quick else 600) if amb_bias else (45 if quick else 300), block_maxlen=12)
        ps.oracle_basics(want_trans=True, want_full=(pid == 'C05'))
        # keep sentences only
        if pid == 'C02':
            cfgs = [{'la': la, 'one': 1, 'cost': 0, 'rec': r} for la in ALL_LA for r in (0, 1)]
        elif pid == 'C03':
            cfgs = [{'la': la, 'one': 0, 'cost': 0, 'rec': 1} for la in ALL_LA]
        elif pid == 'C04':
            # recovery on / off alternates (for a sentence the flag must not matter; with it off a rejected earlier parse
            # on the same object leaves make_parse early)
            cfgs = [{'la': la, 'one': o, 'cost': 1, 'rec': (la + o) % 2} for la in ALL_LA for o in (0, 1)] + [{'la': 1, 'one': 0, 'cost': 0, 'rec': 1}]
        else:
            cfgs = [{'la': la, 'one': o, 'cost': c, 'rec': 1} for la in ALL_LA for o in (0, 1) for c in (0, 1)]
        res = ps.run_impl(lambda i: cfgs if (ps.rec[i] is True and ps.trans[i] is not None) else [],
                          allocmode_for=(lambda i, cfg: (0 if (i + cfg['la']) % 2 == 0 else 2)) if pid == 'C04' else None)
        check_trees(chk, pid, ps, res)
        if pid == 'C03':
            cyclic_substream(chk, exe, 40 if quick else 400, ps)
    chk.cov['rule'] = ('random well-formed grammars (<=5 nonterminals, <=4 terminals, rhs<=4, random translations) x '
                       '(random derivations, their 1-2 token mutations, all strings up to a small length) x configurations; '
                       'a case is non-trivial+distinct when (grammar, input, configuration) is new and the grammar was accepted by yaep_read_grammar')
    return chk.finish(extra_cov={'stream': ps.stats})


def cyclic_substream(chk, exe, n, ps):
    """Grammars in which a nonterminal derives itself must not be accepted; should the definition go through all the
    same, the result of an all-parses request must still be an acyclic DAG (C03's last clause)."""
    import check_readgrammar as crg
    rng = chk.rng
    cases = []
    for _ in range(n):
        g = gen.rand_wf_grammar(rng, False, max_nt=3, max_t=2, max_rhs=3, p_anode=0.9)
        if g is None:
            continue
        w = gen.rand_sentence(rng, g, maxlen=5)
        if w is None:
            continue
        terms, rules = crg.inject(rng, g.terms, g.rules, 16)
        # every rule builds a node, so that a derivation cycle shows as a cycle of the result
        rules = [(l, r, (a if a is not None else 'cy%d' % k), c, (t if a is not None else list(range(len(r))))) for k, (l, r, a, c, t) in enumerate(rules)]
        cases.append((gen.Gram(terms, rules), w))
    script = [yvlib.simple_case('cy%d' % i, g.as_dict(), 0, {'la': rng.choice([0, 1, 2]), 'one': 0, 'cost': 0, 'rec': 1}, gen.codes_of(g, w))
              for i, (g, w) in enumerate(cases)]
    res = yvlib.run_driver(exe, '\n'.join(script), timeout_case=10) if script else []
    qs, qi = [], []
    accepted = 0
    for k, ((g, w), r) in enumerate(zip(cases, res)):
        ops = get_ops(r)
        rd = (ops.get('read') or [{}])[0]
        if rd.get('rc') != 0 and 'abort' not in r:
            continue
        accepted += 1
        p = (ops.get('parse') or [None])[0]
        rep = replay_obj('C03', g, False, w, {'one': 0}, 0, r, {'acyclic': True})
        if 'abort' in r:
            chk.violation(sig_of('C03', 'cyclic-abort', g, w, {}), 'a grammar with a derivation cycle was accepted and the parse aborted: %s' % r.get('abort'), rep)
            continue
        if p is None or p.get('root') is None or p.get('truncated'):
            continue
        q = dag_query(p, {})
        if q is not None:
            qs.append(q); qi.append((g, w, r, rep))
    for a, (g, w, r, rep) in zip(yvlib.run_oracle(qs) if qs else [], qi):
        d = parse_denote(a)
        if d['status'] == 'cyclic' or not d['acyclic']:
            chk.violation(sig_of('C03', 'cyclic', g, w, {}), 'the returned graph has a cycle (a grammar in which a nonterminal derives itself was accepted)', rep)
    ps.stats['cyclic_grammars_tried'] = len(cases)
    ps.stats['cyclic_grammars_accepted'] = accepted


def check_C01(chk, ps, res):
    for (i, ci), (cfg, am, r) in sorted(res.items()):
        g, strict, w = ps.pairs[i]
        ops = get_ops(r)
        rd = ops.get('read', [{}])[0]
        if rd.get('rc') != 0 and 'abort' not in r:
            if ci == 0:
                ps.stats['rejected_by_impl'] += 1
            continue
        b = ps.rec[i]
        key = (i, ci)
        sample = {'grammar': yvlib.grammar_text(g.as_dict()), 'tokens': ' '.join(w), 'cfg': cfg, 'sentence': b}
        chk.note_case(key, True, sample)
        expect = {'sentence': b}
        if 'abort' in r or 'parse' not in ops:
            chk.violation(sig_of('C01', 'abort', g, w, cfg), 'implementation aborted: %s' % r.get('abort'),
                          replay_obj('C01', g, strict, w, cfg, am, r, expect))
            continue
        p = ops['parse'][0]
        nerr = len(p['errs'])
        has_root = p.get('root') is not None
        bad = None
        if p['rc'] != 0:
            bad = 'rc=%d for declared tokens' % p['rc']
        elif cfg['rec'] == 0:
            if b and not (has_root and nerr == 0):
                bad = 'sentence: root %s, %d syntax_error calls (recovery off)' % ('non-NULL' if has_root else 'NULL', nerr)
            if not b and not (not has_root and nerr == 1):
                bad = 'non-sentence: root %s, %d syntax_error calls (recovery off)' % ('non-NULL' if has_root else 'NULL', nerr)
        else:
            if b and nerr != 0:
                bad = 'sentence reported %d syntax errors (recovery on)' % nerr
            if not b and nerr == 0:
                bad = 'non-sentence parsed without syntax error (recovery on)'
            if b and not has_root:
                bad = 'sentence: NULL root (recovery on)'
        if bad:
            chk.violation(sig_of('C01', 'verdict', g, w, cfg), bad, replay_obj('C01', g, strict, w, cfg, am, r, expect))


def check_trees(chk, pid, ps, res):
    # second oracle round: denotations of the implementation's DAGs
    qs, qidx = [], []
    for (i, ci), (cfg, am, r) in sorted(res.items()):
        ops = get_ops(r)
        if 'abort' in r or 'parse' not in ops:
            continue
        p = ops['parse'][0]
        if p.get('root') is None or p['rc'] != 0 or p.get('truncated'):
            continue
        if count_denoted(p) > 400:
            ps.stats['oversize_dags'] = ps.stats.get('oversize_dags', 0) + 1
            continue
        q = dag_query(p, ps.names[i])
        if q is not None:
            qs.append(q); qidx.append((i, ci))
    ans = dict(zip(qidx, [parse_denote(a) for a in yvlib.run_oracle(qs)]))
    prune = {}
    if pid == 'C04':
        # third oracle round: the model of prune_to_minimal (Prune.v) applied to the implementation's own unpruned DAG
        # (all parses, no cost flag); the runs with the cost flag must denote what the pruned model store denotes
        pq, pidx = [], []
        for (q, (i, ci)) in zip(qs, qidx):
            cfg = res[(i, ci)][0]
            if cfg['cost'] == 0 and cfg['one'] == 0 and ans[(i, ci)]['status'] == 'ok' and ans[(i, ci)]['altflat']:
                body = q.split(' ', 2)[2]
                for one in (0, 1):
                    pq.append('PRUNE %d %s' % (one, body)); pidx.append((i, one, cfg['la']))
        for (i, one, la), a in zip(pidx, yvlib.run_oracle(pq) if pq else []):
            parts = a.split('|')
            if parts[0] == 'ok':
                prune[(i, one)] = (int(parts[1]), parts[2].split(';') if parts[2] else [], la)
        ps.stats['pruning_model_queries'] = len(pq)
        ps.stats['pruning_model_answers'] = len(prune)
        ps.stats['pruning_compared'] = 0
    for (i, ci), (cfg, am, r) in sorted(res.items()):
        g, strict, w = ps.pairs[i]
        ops = get_ops(r)
        rd = ops.get('read', [{}])[0]
        if rd.get('rc') != 0 and 'abort' not in r:
            continue
        T = ps.trans[i]
        expect = {'translations': T}
        sample = {'grammar': yvlib.grammar_text(g.as_dict()), 'tokens': ' '.join(w), 'cfg': cfg, 'n_translations': len(T)}
        nontriv = len(w) > 0
        chk.note_case((i, ci), nontriv, sample)
        if len(T) > 1:
            ps.stats['ambiguous_inputs'] += 1

        verif = (ops.get('counters') or [{}])[0].get('verif') or [0] * 8

        def V(rel, desc):
            chk.violation(sig_of(pid, rel, g, w, cfg), desc, replay_obj(pid, g, strict, w, cfg, am, r, expect))
        if 'abort' in r or 'parse' not in ops:
            V('abort', 'implementation aborted: %s %s' % (r.get('abort'), r.get('stderr', [''])[:2]))
            continue
        p = ops['parse'][0]
        if p['rc'] != 0 or p['errs']:
            V('verdict', 'sentence not parsed cleanly: rc=%d errs=%s' % (p['rc'], p['errs']))
            continue
        if p.get('root') is None:
            V('nullroot', 'sentence: NULL root')
            continue
        if (i, ci) not in ans:
            continue
        d = ans[(i, ci)]
        if d['status'] == 'cyclic' or not d['acyclic']:
            V('cyclic', 'result DAG has a cycle')
            continue
        if d['status'] != 'ok':
            ps.stats['denote_none'] = ps.stats.get('denote_none', 0) + 1
            continue
        nodes = p['nodes']
        if pid == 'C02':
            if d['hasalt']:
                V('alt', 'ALT node in a one-parse result'); continue
            if len(d['trees']) != 1:
                V('count', 'one-parse result denotes %d trees' % len(d['trees'])); continue
            t = d['trees'][0]
            if t not in T:
                V('translation', 'returned tree %s is not a translation of any derivation (translations: %s)' % (t, sorted(T)[:6])); continue
            if sum(1 for n in nodes if n['k'] == 'nil') > 1 or sum(1 for n in nodes if n['k'] == 'err') > 1:
                V('exemplar', 'NIL/ERROR node exists in more than one exemplar'); continue
            if any(n['k'] == 'anode' and n.get('term_in_block', 1) != 1 for n in nodes):
                V('nullterm', 'child array not NULL-terminated inside its allocation'); continue
        elif pid == 'C03':
            if not d['altflat']:
                V('altflat', 'an ALT alternative is itself an ALT (or a next link is not an ALT)'); continue
            S = set(d['trees'])
            extra = S - set(T)
            missing = set(T) - S
            if extra:
                V('spurious', 'DAG denotes %d spurious tree(s), e.g. %s' % (len(extra), sorted(extra)[0])); continue
            if missing:
                # attribute to a call site of make_parse through the guarded event counters
                site = ('missing@untranslated-symbol-several-origins' if verif[3] > 0 else
                        'missing@reused-translation-of-copied-anode' if (verif[2] > 0 and verif[4] > 0) else 'missing')
                V(site, 'DAG misses %d translation(s), e.g. %s [events: reuse=%d multi-origin=%d copies=%d]' % (
                    len(missing), sorted(missing)[0], verif[2], verif[3], verif[4])); continue
        elif pid == 'C04':
            if cfg['cost'] == 0:
                # without the cost flag every field is the rule's own cost: denoted trees are translations as they stand
                extra = set(d['trees']) - set(T)
                if extra:
                    V('field_noflag', 'cost flag off: tree %s is not a translation (cost field not the rule cost?)' % sorted(extra)[0])
                continue
            m = min(T.values())
            if not d['altflat']:
                V('altflat', 'ALT chain malformed'); continue
            own = d['own']
            if any(o == '-' for o in own):
                V('fields', 'a cost field is smaller than the sum of the fields below it: %s' % d['trees'][own.index('-')]); continue
            owntrees = {}
            for o in own:
                t, c = o.rsplit('=', 1)
                owntrees[t] = int(c)
            notmin = [t for t in owntrees if t not in T]
            if notmin:
                V('fields_or_spurious', 'tree %s (own costs) is not a translation: cost fields do not add up, or spurious tree' % notmin[0]); continue
            high = [t for t, c in owntrees.items() if c != m]
            if high:
                V('notminimal', 'denotes a tree of cost %d, minimum is %d: %s' % (owntrees[high[0]], m, high[0])); continue
            minimal = {t for t, c in T.items() if c == m}
            if cfg['one'] == 1:
                if len(owntrees) != 1 or d['hasalt']:
                    V('one', 'one parse requested with the cost flag: %d trees / ALT present' % len(owntrees)); continue
            else:
                miss = minimal - set(owntrees)
                if miss:
                    site = 'missing_min@reused-translation-of-copied-anode' if (verif[2] > 0 and verif[4] > 0) else 'missing_min'
                    V(site, 'a minimal translation is missing: %s [events: reuse=%d copies=%d]' % (sorted(miss)[0], verif[2], verif[4])); continue
            rootfield = nodes[p['root']].get('cost') if nodes[p['root']]['k'] == 'anode' else None
            if rootfield is not None and rootfield != m and not d['hasalt']:
                V('rootcost', 'root cost field %d, minimum %d' % (rootfield, m)); continue
            pm = prune.get((i, cfg['one']))
            if pm is not None:
                pcost, ptrees, pla = pm
                ps.stats['pruning_compared'] += 1
                if any(c != pcost for c in owntrees.values()):
                    V('prune_cost', 'pruning model: least cost of the unpruned DAG is %d, the result denotes a tree of cost %s' % (pcost, sorted(set(owntrees.values())))); continue
                if cfg['one'] == 0 and set(owntrees) != set(ptrees):
                    dif = sorted(set(owntrees) ^ set(ptrees))
                    V('prune_all', 'pruning model: the pruned unpruned-DAG denotes %d trees, the result %d; differs in %s' % (len(ptrees), len(owntrees), dif[0])); continue
                if cfg['one'] == 1:
                    allp = prune.get((i, 0))
                    if cfg['la'] == pla and set(owntrees) != set(ptrees):
                        V('prune_one', 'pruning model: first alternative of least cost gives %s, the result is %s' % (ptrees[:1], sorted(owntrees)[:1])); continue
                    if allp is not None and not set(owntrees) <= set(allp[1]):
                        V('prune_one_member', 'pruning model: the single tree %s is not among the least cost trees of the unpruned DAG' % sorted(owntrees)[:1]); continue
        elif pid == 'C05':
            F = ps.full[i]
            if F is None:
                continue
            amb = p['amb'] != 0
            if amb and len(F) < 2:
                V('unsound', 'ambiguity flag set but the input has %d derivation(s)' % len(F)); continue
            if len(T) >= 2 and not amb:
                V('incomplete', 'two derivations with different translations but the flag is 0'); continue
