"""Check C13: the caller owns tree memory - exact alloc/free pairing, trees
outlive the grammar, yaep_free_tree releases every block once and calls the
terminal callback once per TERM node."""
import json, os, sys
import yvlib, gen
from yvlib import NIL
from checklib import Check
import check_parse as cp

NULLFREE = -1000000000


def run(pid, tier, seed, replay=None):
    chk = Check(pid, tier, seed)
    chk.coq()
    try:
        exe = yvlib.build_impl('c')
    except yvlib.BuildError as e:
        chk.obl['broken'].append('implementation does not build: ' + str(e)[-800:])
        return chk.finish()
    quick = tier == 'quick'
    rng = chk.rng
    ps = cp.ParseStream(chk, exe, 100 if quick else 1200, 3, 4, max_trees=400, n_families=60 if quick else 600, costs=(0, 3), p_anode=0.75)
    # grammars with error rules too (ERROR node used / unused)
    extra = []
    for _ in range(40 if quick else 400):
        g = gen.rand_wf_grammar(rng, False, max_nt=3, max_t=3, max_rhs=3, err_rules=rng.choice([1, 2]), p_anode=0.8)
        if g is None:
            continue
        for _ in range(4):
            w = gen.rand_sentence(rng, g, maxlen=7)
            if w is not None:
                extra.append((g, False, gen.mutate(rng, g, w, rng.choice([0, 1, 2]))))
    # abstract nodes with an empty name (possible through the callback interface)
    def with_empty_names(g):
        rules = [(l, r, ('' if (a is not None and rng.random() < 0.5) else a), c, t) for (l, r, a, c, t) in g.rules]
        return gen.Gram(g.terms, rules)
    pairs = ps.pairs + extra
    pairs = [((with_empty_names(g) if rng.random() < 0.15 else g), s, w) for (g, s, w) in pairs]
    by_g = {}
    for g, strict, w in pairs:
        by_g.setdefault(id(g), (g, strict, []))[2].append(w)
    script, meta = [], []
    ci = 0
    for gid, (g, strict, ws) in by_g.items():
        rng.shuffle(ws)
        groups = [ws[i:i + 3] for i in range(0, min(len(ws), 9), 3)]
        for grp in groups:
            cfg = {'la': rng.choice([0, 1, 2]), 'one': rng.choice([0, 1]), 'cost': rng.choice([0, 1]), 'rec': rng.choice([1, 1, 0]), 'match': rng.choice([1, 3])}
            mode = rng.choice([0, 0, 0, 1, 2])
            cid = 'm%d' % ci
            ci += 1
            L = ['CASE %s' % cid, 'NEW 0'] + yvlib.script_cfg(0, cfg) + yvlib.script_read(0, g.as_dict(), 1 if strict else 0)
            np_ = 0
            for w in grp:
                L.append('PARSE 0 %d %d %s' % (mode, len(w), ' '.join(map(str, gen.codes_of(g, w)))))
                np_ += 1
                if rng.random() < 0.3:
                    L.append('WALK %d' % (np_ - 1))
            order = list(range(np_))
            rng.shuffle(order)
            free_g_first = rng.random() < 0.7
            if free_g_first:
                L.append('FREEG 0')
            for k in order:
                L.append('WALK %d' % k)
            if mode in (0, 1):
                for k in order:
                    L.append('FREET %d 1' % k)
                    for k2 in order[order.index(k) + 1:]:
                        L.append('WALK %d' % k2)     # the other trees are still intact
            if not free_g_first:
                L.append('FREEG 0')
            L.append('END')
            script.append('\n'.join(L))
            meta.append((g, strict, grp, cfg, mode))
    res = yvlib.run_driver(exe, '\n'.join(script), leaks=True)
    stats = {'cases': len(script), 'parses': 0, 'alloc_blocks': 0, 'frees_in_parse': 0, 'trees_freed': 0, 'modes': {}, 'free_tree_model_compared': 0, 'free_tree_model_none': 0}
    tree_cases = []
    for (g, strict, grp, cfg, mode), r in zip(meta, res):
        stats['modes'][str(mode)] = stats['modes'].get(str(mode), 0) + 1
        txt = yvlib.grammar_text(g.as_dict())
        key = (txt, tuple(map(tuple, grp)), json.dumps(cfg, sort_keys=True), mode)
        chk.note_case(key, True, {'grammar': txt, 'inputs': [' '.join(w) for w in grp], 'cfg': cfg, 'allocmode': mode})
        rep = {'property': 'C13', 'grammar': txt, 'grammar_struct': g.as_dict(), 'inputs': grp, 'cfg': cfg, 'allocmode': mode, 'implementation': r}
        sig = 'C13:%%s:%s|%s|%s|%d' % (txt.replace('\n', ' '), grp, sorted(cfg.items()), mode)
        if 'abort' in r or 'exit_problem' in r:
            what = r.get('abort') or r['exit_problem'].get('abort')
            st = r.get('stderr') or r.get('exit_problem', {}).get('stderr')
            chk.violation(sig % 'abort', 'aborted / leaked: %s %s' % (what, (st or [''])[:3]), rep)
            continue
        bad = None
        parses = [o for o in r['ops'] if o['op'] == 'parse']
        freets = [o for o in r['ops'] if o['op'] == 'freet']
        for p in parses:
            stats['parses'] += 1
            stats['alloc_blocks'] += p['nallocs']
            stats['frees_in_parse'] += len(p['frees'])
            lo, hi = p['first_block'], p['first_block'] + p['nallocs']
            for f in p['frees']:
                if f == NULLFREE:
                    bad = 'yaep_parse passed a null pointer to parse_free'
                elif f < 0:
                    bad = 'yaep_parse passed to parse_free %s' % ('a block twice' if f <= -2 else 'a pointer parse_alloc never returned')
                elif not (lo <= f < hi):
                    bad = 'yaep_parse passed to parse_free block %d which was allocated by an earlier parse' % f
            if mode == 0 and p.get('root') is None and p['rc'] == 0:
                got = set(f for f in p['frees'] if f >= 0)
                if len(got) != p['nallocs']:
                    bad = 'yaep_parse returned no tree but left %d of its %d parse_alloc blocks unreleased' % (p['nallocs'] - len(got), p['nallocs'])
            if mode in (0, 2) and p.get('nodes'):
                freed = set(f for f in p['frees'] if f >= 0)
                for nb in p.get('node_blocks', []):
                    if nb < 0:
                        bad = 'a node of the returned tree is not in a block returned by parse_alloc'
                    elif nb in freed:
                        bad = 'a node of the returned tree lies in a block already passed to parse_free'
                    elif not (lo <= nb < hi):
                        bad = 'a node of the returned tree lies in a block of an earlier parse'
                for n in p['nodes']:
                    if n['k'] == 'anode' and (n.get('name_block', 0) < lo or n.get('name_block', 0) in freed):
                        bad = 'a node name lies in a freed block or in a block of another parse'
                    if n['k'] == 'anode' and n.get('term_in_block') != 1:
                        bad = 'a child array is not NULL-terminated inside its block'
        for ft, p in zip(freets, []):
            pass
        for o in r['ops']:
            if o['op'] == 'freet':
                stats['trees_freed'] += 1
                if any(f < 0 for f in o['frees']):
                    bad = 'yaep_free_tree passed to parse_free a block twice, a null pointer or an unknown pointer: %s' % [('NULL' if f == NULLFREE else f) for f in o['frees'] if f < 0][:3]
                elif mode == 0 and o['live_blocks'] != 0:
                    bad = 'after yaep_free_tree %d blocks of that parse are still allocated' % o['live_blocks']
        # terminal callback: once per TERM node of the freed tree
        if mode in (0, 1) and not bad:
            fi = 0
            order = [o for o in r['ops'] if o['op'] == 'freet']
            # FREET ops are in the script order; map each to its parse through the script
            pass
        if bad:
            chk.violation(sig % 'memory', bad, rep)
            continue
        tree_cases.append((r, parses, mode, rep, sig, script[meta.index((g, strict, grp, cfg, mode))]))
        # termcb counts: reconstruct which parse each FREET freed from the script order
        if mode in (0, 1):
            seq = [l for l in script[meta.index((g, strict, grp, cfg, mode))].split('\n') if l.startswith('FREET ')]
            for l, o in zip(seq, [x for x in r['ops'] if x['op'] == 'freet']):
                k = int(l.split()[1])
                p = parses[k]
                nterm = sum(1 for n in (p.get('nodes') or []) if n['k'] == 'term')
                if p.get('root') is None:
                    nterm = 0
                if o['termcb'] != nterm:
                    chk.violation(sig % 'termcb', 'terminal callback called %d times for a tree with %d TERM nodes' % (o['termcb'], nterm), rep)
                    break
    # the model of yaep_free_tree (TreeMem.v, theorem C13_free_tree) on the DAG the implementation returned:
    # number of nodes and of names passed to parse_free, number of terminal callbacks
    qs, qmeta = [], []
    for (r, parses, mode, rep, sig, sc) in tree_cases:
        if mode not in (0, 1):
            continue
        seq = [l for l in sc.split('\n') if l.startswith('FREET ')]
        for l, o in zip(seq, [x for x in r['ops'] if x['op'] == 'freet']):
            p = parses[int(l.split()[1])]
            if p.get('root') is None or not p.get('nodes'):
                continue
            q = ['FREETREE', 2 * len(p['nodes']) + 4, p['root'], len(p['nodes'])]
            ok = True
            for n in p['nodes']:
                k = n['k']
                if k == 'nil':
                    q.append(0)
                elif k == 'err':
                    q.append(1)
                elif k == 'term':
                    q += [2, n['code'], 0]
                elif k == 'anode':
                    q += [3, max(n.get('name_block', 0), 0), 0, len(n['kids'])] + n['kids']
                elif k == 'alt':
                    q += [4, n['node'], 0 if n['next'] is None else n['next'] + 1]
                else:
                    ok = False
            if ok:
                qs.append(' '.join(map(str, q))); qmeta.append((o, mode, rep, sig))
    for a, (o, mode, rep, sig) in zip(yvlib.run_oracle(qs), qmeta):
        if a == 'none' or a.startswith('error'):
            stats['free_tree_model_none'] += 1
            continue
        nn, nnames, nterm = map(int, a.split())
        stats['free_tree_model_compared'] += 1
        if o['termcb'] != nterm:
            chk.violation(sig % 'model-termcb', 'terminal callback called %d times, the model of yaep_free_tree on this DAG says %d' % (o['termcb'], nterm), rep)
        elif mode == 0:
            real = [f for f in o['frees'] if f != NULLFREE]
            if len(real) != nn + nnames or len(set(real)) != len(real):
                chk.violation(sig % 'model-frees', 'yaep_free_tree passed %d blocks to parse_free (%d distinct); the model says %d nodes + %d names, each once' % (
                    len(real), len(set(real)), nn, nnames), rep)
    chk.cov['rule'] = ('1-3 parses per grammar object (ambiguous families with sharing, cost pruning, error rules, NIL used/unused), tracking allocator with and without '
                       'parse_free and the default allocator, trees walked (ASan) after yaep_free_grammar and freed in random order, LeakSanitizer at exit')
    return chk.finish(extra_cov={'stream': stats})
