import re
def flex(a):
    return re.compile(r'\s+'.join(re.escape(t) for t in a.split()))
def sub1(s, old, new):
    m=list(flex(old).finditer(s)); assert len(m)==1,(old[:60],len(m))
    st = s.rfind('\n',0,m[0].start())+1
    assert s[st:m[0].start()].strip()=='' , 'anchor must start a line'
    return s[:st]+new+s[m[0].end():]
