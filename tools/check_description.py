"""Check C11: a textual description defines exactly the grammar its documented
syntax denotes.  Printable grammars are printed in many lexical variations;
the extracted Coq model of the description language (Description.v) says what
terminals (with codes) and rules the text denotes; yaep_parse_grammar on the
text must behave like yaep_read_grammar (of the same binary) on that twin."""
import json, os, sys, re
import yvlib, gen
from yvlib import NIL, hx
from checklib import Check
import check_parse as cp

IDS = ['S', 'A', 'B', 'Expr', 'T_1', 'x', '_y', 'Item2', 'list', 'N']
TIDS = ['NUM', 'ID', 'PLUS', 'tok', 'K_W', 'Z9']
CHARS = ['+', '*', '(', ')', 'a', 'b', ';', '0', '"', ':', '#', '|', '\xe9', '\x80', '\xff']


def rand_desc_grammar(rng):
    """A grammar printable in the description syntax: ident terminals (explicit or implicit codes), char terminals."""
    nt = rng.randint(1, 4)
    nts = rng.sample(IDS, nt)
    tids = rng.sample(TIDS, rng.randint(0, 3))
    chars = rng.sample(CHARS, rng.randint(0, 4))
    if not tids and not chars:
        chars = ['a']
    tdecl = []
    used = set(ord(c) for c in chars)
    for t in tids:
        if rng.random() < 0.5:
            c = rng.choice([0, 1, 5, 200, 255, 256, 257, 300, 1000])
            while c in used:
                c += 1
            used.add(c)
            tdecl.append((t, c))
        else:
            tdecl.append((t, None))
    symbols = nts + tids + ["'%s'" % c for c in chars]
    rules = []
    for n in nts:
        alts = []
        for _ in range(rng.randint(1, 3)):
            rhs = [rng.choice(symbols) for _ in range(rng.choice([0, 1, 2, 2, 3]))]
            r = rng.random()
            if r < 0.25:
                tr = ('none',)
            elif r < 0.35:
                tr = ('hash',)
            elif r < 0.5 and rhs:
                tr = ('num', rng.randrange(len(rhs)))
            elif r < 0.55:
                tr = ('dash',)
            else:
                k = rng.randint(0, 3)
                idx = list(range(len(rhs)))
                rng.shuffle(idx)
                els = []
                for _ in range(k):
                    els.append(idx.pop() if idx and rng.random() < 0.7 else '-')
                tr = ('anode', rng.choice(['node', 'plus', 'n_1', 'X']), rng.choice([None, 0, 1, 3, 10]), els if rng.random() < 0.8 else None)
            alts.append((rhs, tr))
        rules.append((n, alts))
    return tdecl, rules


def ws(rng, must=False):
    r = rng.random()
    if r < 0.5:
        return ' '
    if r < 0.6:
        return '\n'
    if r < 0.7:
        return '\t '
    if r < 0.8:
        return ' /* c*mm**ent */ '
    if r < 0.85:
        return '\n\n  '
    if r < 0.9:
        return ' /**/ '
    return ' ' if must else rng.choice(['', ' '])


def print_desc(rng, tdecl, rules):
    out = []
    pending = list(tdecl)
    # TERM sections anywhere, repeated declarations
    def term_section(ts):
        s = 'TERM'
        for t, c in ts:
            s += ws(rng, True) + t
            if c is not None:
                s += ws(rng) + '=' + ws(rng) + str(c)
        if rng.random() < 0.6:
            s += ws(rng) + ';'
        return s
    chunks = []
    if pending and rng.random() < 0.7:
        k = rng.randint(1, len(pending))
        chunks.append(term_section(pending[:k])); pending = pending[k:]
    for n, alts in rules:
        s = n + rng.choice(['', ' ', '\n', ' \t']) + ':'
        first = True
        for rhs, tr in alts:
            if not first:
                s += ws(rng) + '|'
            first = False
            for sym in rhs:
                s += ws(rng, True) + sym
            if tr[0] == 'hash':
                s += ws(rng) + '#'
            elif tr[0] == 'num':
                s += ws(rng) + '#' + ws(rng) + str(tr[1])
            elif tr[0] == 'dash':
                s += ws(rng) + '#' + ws(rng) + '-'
            elif tr[0] == 'anode':
                s += ws(rng) + '#' + ws(rng) + tr[1]
                if tr[2] is not None:
                    s += ws(rng, True) + str(tr[2])
                if tr[3] is not None:
                    s += ws(rng) + '(' + ''.join(ws(rng, True) + str(e) for e in tr[3]) + ws(rng) + ')'
        if rng.random() < 0.7:
            s += ws(rng) + ';'
        chunks.append(s)
        if pending and rng.random() < 0.4:
            k = rng.randint(1, len(pending))
            chunks.append(term_section(pending[:k])); pending = pending[k:]
    if pending:
        chunks.insert(rng.randrange(len(chunks) + 1), term_section(pending))
    if tdecl and rng.random() < 0.3:
        # a harmless repeated declaration (same code / both without code)
        chunks.insert(rng.randrange(len(chunks) + 1), term_section([rng.choice(tdecl)]))
    text = ''
    for c in chunks:
        text += ws(rng) + c + rng.choice(['\n', ' ', '\n\n'])
    # a chunk that does not end in ';' must be followed by white space before the next identifier: guaranteed by the joiner
    return text


BIGNUMS = ['2147483647', '2147483648', '2147483649', '2147483650', '2147483639', '2147483640', '4294967296', '4294967297',
           '21474836470', '99999999999', '0000000000012', '2147483646']


def big_numbers(rng, text):
    """Replace one number of the text (or append a declaration) by a number around the limits of int."""
    import re as _re
    ms = list(_re.finditer(r'\d+', text))
    n = rng.choice(BIGNUMS)
    if ms and rng.random() < 0.7:
        m = rng.choice(ms)
        return text[:m.start()] + n + text[m.end():]
    return 'TERM zq=%s;\n' % n + text


def mutate_text(rng, text):
    if rng.random() < 0.12:
        return big_numbers(rng, text)
    b = bytearray(text.encode('latin-1'))
    for _ in range(rng.choice([1, 1, 2, 3])):
        op = rng.choice(['del', 'ins', 'sub', 'trunc', 'dup'])
        if not b:
            op = 'ins'
        if op == 'del':
            del b[rng.randrange(len(b))]
        elif op == 'ins':
            b.insert(rng.randrange(len(b) + 1), rng.choice(b"'/*#|;:=()-\n aT0") if rng.random() < 0.8 else rng.randrange(1, 256))
        elif op == 'sub':
            b[rng.randrange(len(b))] = rng.choice(b"'/*#|;:=()-\n aT09") if rng.random() < 0.8 else rng.randrange(1, 256)
        elif op == 'trunc':
            del b[rng.randrange(len(b)):]
        else:
            i = rng.randrange(len(b)); j = min(len(b), i + rng.randint(1, 6)); b[i:i] = b[i:j]
    return bytes(x for x in b if x != 0).decode('latin-1')


def parse_model(a):
    if a in ('syntax', 'repeated'):
        return a, None
    _, ts, rs = a.split('|')
    terms = []
    if ts:
        for t in ts.split(','):
            nm, c = t.rsplit(':', 1)
            terms.append((bytes.fromhex(nm[1:]).decode('latin-1'), int(c)))
    rules = []
    if rs:
        for r in rs.split(';'):
            lhs, rhs, an, cost, tr = r.split('>')
            rules.append((bytes.fromhex(lhs[1:]).decode('latin-1'), [bytes.fromhex(x[1:]).decode('latin-1') for x in rhs.split()],
                          None if an == '-' else bytes.fromhex(an[1:]).decode('latin-1'), int(cost), [int(x) for x in tr.split()]))
    return 'ok', {'terms': terms, 'rules': rules}


def run(pid, tier, seed, replay=None):
    chk = Check(pid, tier, seed)
    chk.coq(extra_files=['Description'])
    try:
        exe = yvlib.build_impl('c')
    except yvlib.BuildError as e:
        chk.obl['broken'].append('implementation does not build: ' + str(e)[-800:])
        return chk.finish()
    quick = tier == 'quick'
    rng = chk.rng
    texts = []
    N = 1200 if quick else 15000
    for i in range(N):
        t = None
        if rng.random() < 0.45:
            # a well-formed grammar (accepted by yaep_read_grammar, so that parses can be compared in depth), re-spaced at random
            gw = gen.rand_wf_grammar(rng, rng.random() < 0.5, max_nt=3, max_t=3, max_rhs=3, p_anode=0.7, err_rules=rng.choice([0, 0, 1]),
                                     p_empty=rng.choice([0, 0.2]))
            if gw is not None:
                t0 = yvlib.desc_text(gw.as_dict(), rng)
                if t0 is not None:
                    # between the left hand side and its colon only blanks are skipped by the lexer (comments are not part
                    # of the documented syntax at all; the implementation skips them between tokens, not inside `name :')
                    tl = t0.split()
                    t = ''.join(tok + (rng.choice([' ', '\n', ' \t', '']) if i + 1 < len(tl) and tl[i + 1] == ':' else ws(rng, True))
                                for i, tok in enumerate(tl))
        if t is None:
            tdecl, rules = rand_desc_grammar(rng)
            t = print_desc(rng, tdecl, rules)
        texts.append(('valid', t))
        if rng.random() < 0.5:
            texts.append(('mutated', mutate_text(rng, t)))
    model = [parse_model(a) for a in yvlib.run_oracle(['DESC %d %s' % (len(t.encode('latin-1')), ' '.join(map(str, t.encode('latin-1')))) for k, t in texts])]
    stats = {'texts': len(texts), 'model_ok': sum(1 for m in model if m[0] == 'ok'), 'model_syntax': sum(1 for m in model if m[0] == 'syntax'),
             'model_repeated': sum(1 for m in model if m[0] == 'repeated'), 'impl_codes': {}, 'parses_compared': 0}
    script = []
    for i, ((kind, t), (st, g)) in enumerate(zip(texts, model)):
        strict = i % 2
        L = ['CASE d%d' % i, 'NEW 0', 'NEW 1', 'SET 0 4 0', 'SET 1 4 0', 'DESC 0 %d %s' % (strict, hx(t)), 'ERR 0']
        if st == 'ok':
            L += yvlib.script_read(1, g, strict)
            # sample inputs over the declared codes
            codes = [c for n, c in g['terms'] if c >= 0] or [0]
            # sentences of the denoted grammar (every alternative gets its chance), and random sequences
            sents = []
            try:
                gg = gen.Gram([tuple(t_) for t_ in g['terms']], [(l, list(rh), a, c_, (list(tr_) if tr_ is not None else None)) for (l, rh, a, c_, tr_) in g['rules']])
                cm = dict(gg.terms)
                for _ in range(6):
                    w = gen.rand_sentence(rng, gg, maxlen=7)
                    if w is not None and all(x in cm and cm[x] >= 0 for x in w):
                        sents.append([cm[x] for x in w])
            except Exception:
                sents = []
            for k_ in range(4):
                toks = sents[k_] if k_ < min(3, len(sents)) else [rng.choice(codes) for _ in range(rng.randint(0, 5))]
                L.append('PARSE 0 0 %d %s' % (len(toks), ' '.join(map(str, toks))))
                L.append('PARSE 1 0 %d %s' % (len(toks), ' '.join(map(str, toks))))
        L += ['FREEG 0', 'FREEG 1', 'END']
        script.append('\n'.join(L))
    res = yvlib.run_driver(exe, '\n'.join(script))
    for i, ((kind, t), (st, g), r) in enumerate(zip(texts, model, res)):
        chk.note_case(t, kind == 'valid' or st == 'ok', {'kind': kind, 'text': t[:300], 'model': st})
        rep = {'property': 'C11', 'kind': kind, 'text': t, 'model': st, 'denoted': g, 'implementation': r}
        sig = 'C11:%%s:%s' % t[:500]
        ops = r.get('ops', [])
        if 'abort' in r or len(ops) < 6:
            chk.violation(sig % 'abort', 'aborted: %s %s' % (r.get('abort'), (r.get('stderr') or [''])[:2]), rep)
            continue
        d = ops[4]
        rc = d['rc']
        stats['impl_codes'][str(rc)] = stats['impl_codes'].get(str(rc), 0) + 1
        if kind == 'valid' and st != 'ok':
            chk.violation(sig % 'model', 'the model rejects a text printed from a grammar (%s)' % st, rep)
            continue
        if st == 'syntax':
            if rc != 3:
                chk.violation(sig % 'syntax', 'text outside the documented syntax: yaep_parse_grammar returned %d, not YAEP_DESCRIPTION_SYNTAX_ERROR_CODE' % rc, rep)
                continue
            m = re.search(r'ln (\d+)', d['em'])
            nl = t.count('\n')
            if not m or not (1 <= int(m.group(1)) <= nl + 1):
                chk.violation(sig % 'line', 'syntax error message %r: line outside the text (1..%d)' % (d['em'], nl + 1), rep)
            continue
        if st == 'repeated':
            if rc != 7:
                chk.violation(sig % 'repeated', 'terminal described with two codes: returned %d, not YAEP_REPEATED_TERM_CODE' % rc, rep)
            continue
        twin = ops[6]
        if rc != twin['rc']:
            chk.violation(sig % 'twin', 'yaep_parse_grammar returned %d; yaep_read_grammar on the denoted grammar returns %d (%s)' % (rc, twin['rc'], twin['em']), rep)
            continue
        if rc != 0 and d['ec'] != rc:
            chk.violation(sig % 'errstate', 'returned %d but error_code %d' % (rc, d['ec']), rep)
            continue
        ps = [o for o in ops if o['op'] == 'parse']
        for a, b in zip(ps[0::2], ps[1::2]):
            stats['parses_compared'] += 1
            ka = {k: v for k, v in a.items() if k not in ('parse', 'first_block', 'node_blocks', 'nodes', 'frees')}
            kb = {k: v for k, v in b.items() if k not in ('parse', 'first_block', 'node_blocks', 'nodes', 'frees')}
            na = [{k: v for k, v in n.items() if k != 'name_block'} for n in a.get('nodes') or []]
            nb = [{k: v for k, v in n.items() if k != 'name_block'} for n in b.get('nodes') or []]
            if ka != kb or na != nb:
                chk.violation(sig % 'parse', 'the object defined by the text and the object defined by the denoted grammar parse differently', rep)
                break
    chk.cov['rule'] = ('grammars printable in the description syntax (TERM sections anywhere, explicit / implicit codes, character constants, all translation forms, '
                       'repeated declarations) printed with random white space, newlines, comments, optional semicolons; plus byte-level mutations of these texts; '
                       'non-trivial = printed text, or mutated text that still denotes a grammar')
    return chk.finish(extra_cov={'stream': stats})
