"""Check C19: hash table, object stack, variable length object keep their
abstract contents - random operation sequences on the real C and C++
containers against the extracted Coq models (Containers.v)."""
import json, os, sys
import yvlib
from checklib import Check


def gen_ht(rng, maxops):
    size = rng.choice([0, 1, 3, 5, 7, 10, 20, 40])
    a, m = rng.choice([(1, 0), (1, 0), (1, 3), (1, 1), (7, 5), (3, 4), (5, 0), (2, 7), (1, 13)])
    keys = rng.randint(3, 60)
    present = set()
    drv, orc = ['HC %d %d %d' % (size, a, m)], []
    n = rng.randint(5, maxops)
    for _ in range(n):
        r = rng.random()
        k = rng.randrange(keys)
        if r < 0.45:
            drv.append('HI %d' % k); orc += [1, k]; present.add(k)
        elif r < 0.7:
            drv.append('HF %d' % k); orc += [0, k]
        elif r < 0.9 and present:
            k = rng.choice(sorted(present))
            drv.append('HR %d' % k); orc += [2, k]; present.discard(k)
        elif r < 0.93:
            drv.append('HE'); orc += [3]; present = set()
        elif r < 0.97:
            drv.append('HN'); orc += [4]
        else:
            drv.append('HZ'); orc += [5]
    for k in range(keys):
        drv.append('HF %d' % k); orc += [0, k]
    drv.append('HN'); orc += [4]
    nops = sum(1 for x in drv[1:])
    return ' '.join(drv), 'HT %d %d %d %d %s' % (size, a, m, nops, ' '.join(map(str, orc))), {'size': size, 'hash': (a, m), 'ops': nops}


def rbytes(rng, n):
    return [rng.randrange(256) for _ in range(n)]


def gen_os_bytes(rng, maxops):
    """A finished object ending in the unaligned tail of a segment, then a top object built byte by byte."""
    length = rng.choice([9, 12, 13, 20, 27, 33, 100, 101, 103])
    drv, orc = ['OC %d' % length], []
    tail = length % 8
    m = length - rng.randrange(0, tail + 1) if tail else length
    if rng.random() < 0.3:
        m = max(1, m - 8)
    b = rbytes(rng, m)
    drv.append('OA %d %s' % (m, ' '.join(map(str, b)))); orc += [0, m] + b
    drv.append('OF'); orc += [4]
    for _ in range(rng.randint(1, min(maxops, 40))):
        r = rng.random()
        if r < 0.8:
            x = rng.randrange(256)
            drv.append('OB %d' % x); orc += [0, 1, x]
        elif r < 0.9:
            drv.append('OT'); orc += [6]
        elif r < 0.95:
            drv.append('OF'); orc += [4]
        else:
            drv.append('OK'); orc += [7]
    drv += ['OT', 'OK']; orc += [6, 7]
    nops = len(drv) - 1
    return ' '.join(drv), 'OS %d %d %s' % (length, nops, ' '.join(map(str, orc))), {'len': length, 'ops': nops}


def gen_os(rng, maxops):
    if rng.random() < 0.25:
        return gen_os_bytes(rng, maxops)
    length = rng.choice([0, 0, 8, 16, 24, 100])
    drv, orc = ['OC %d' % length], []
    n = rng.randint(4, maxops)
    cap = 16 if length == 0 else length
    for _ in range(n):
        r = rng.random()
        if r < 0.35:
            m = rng.choice([0, 1, 2, 3, 7, 8, 9, 15, 16, 17, 24, 25, 40, cap, cap + 1, cap - 1 if cap > 1 else 1])
            m = max(0, min(m, 200))
            b = rbytes(rng, m)
            if m == 1 and rng.random() < 0.5:
                drv.append('OB %d' % b[0])
            else:
                drv.append('OA %d %s' % (m, ' '.join(map(str, b))))
            orc += [0, m] + b
        elif r < 0.45:
            m = rng.choice([0, 1, 5, 16, 17, 30])
            drv.append('OX %d' % m); orc += [1, m]
        elif r < 0.5:
            # OS_TOP_ADD_STRING: drop the last byte of the top object if there is one, then append the string with its end marker
            m = rng.choice([0, 0, 1, 3, 8, 20])
            b = [x if x else 1 for x in rbytes(rng, m)]
            drv.append(('OG %d %s' % (m, ' '.join(map(str, b)))).strip()); orc += [2, 1] + [0, m + 1] + b + [0]
        elif r < 0.55:
            m = rng.choice([0, 1, 2, 5, 100])
            drv.append('OS %d' % m); orc += [2, m]
        elif r < 0.6:
            drv.append('ON'); orc += [3]
        elif r < 0.8:
            drv.append('OF'); orc += [4]
        elif r < 0.84:
            drv.append('OE'); orc += [5]
        elif r < 0.92:
            drv.append('OT'); orc += [6]
        else:
            drv.append('OK'); orc += [7]
    drv += ['OT', 'OK']; orc += [6, 7]
    nops = len(drv) - 1 + sum(1 for d in drv if d.startswith('OG'))      # an add-string is two operations of the model
    return ' '.join(drv), 'OS %d %d %s' % (length, nops, ' '.join(map(str, orc))), {'len': length, 'ops': nops}


def gen_vlo(rng, maxops):
    length = rng.choice([0, 0, 1, 4, 8, 30])
    drv, orc = ['VC %d' % length], []
    n = rng.randint(3, maxops)
    for _ in range(n):
        r = rng.random()
        if r < 0.4:
            m = rng.choice([0, 1, 2, 3, 7, 8, 9, 12, 13, 20, 50])
            b = rbytes(rng, m)
            if m == 1 and rng.random() < 0.5:
                drv.append('VB %d' % b[0])
            else:
                drv.append('VA %d %s' % (m, ' '.join(map(str, b))))
            orc += [0, m] + b
        elif r < 0.5:
            m = rng.choice([0, 1, 5, 9, 30]); drv.append('VX %d' % m); orc += [1, m]
        elif r < 0.57:
            # VLO_ADD_STRING: in the model "drop the last byte if there is one, then append the string with its end marker"
            m = rng.choice([0, 0, 1, 3, 8, 20])
            b = [x if x else 1 for x in rbytes(rng, m)]
            drv.append(('VG %d %s' % (m, ' '.join(map(str, b)))).strip()); orc += [2, 1] + [0, m + 1] + b + [0]
        elif r < 0.65:
            m = rng.choice([0, 1, 2, 5, 100]); drv.append('VS %d' % m); orc += [2, m]
        elif r < 0.72:
            drv.append('VN'); orc += [3]
        elif r < 0.85:
            drv.append('VT'); orc += [4]
        else:
            drv.append('VD'); orc += [5]
    drv.append('VD'); orc += [5]
    nops = len(drv) - 1 + sum(1 for d in drv if d.startswith('VG'))      # an add-string is two operations of the model
    return ' '.join(drv), 'VLO %d %d %s' % (length, nops, ' '.join(map(str, orc))), {'len': length, 'ops': nops}


def canon_driver(kind, out):
    if out is None:
        return None
    if kind == 'ht':
        return ' '.join(str(x) for x in out)
    if kind == 'vlo':
        return ';'.join(','.join(map(str, l)) for l in out)
    # os: OT -> [bytes]; OK -> [[..],..] then bad count
    parts, i = [], 0
    while i < len(out):
        x = out[i]
        if x and isinstance(x[0], list) or (x == [] and i + 1 < len(out) and isinstance(out[i + 1], int)):
            # OK result followed by the bad counter
            parts.append(';'.join(','.join(map(str, l)) for l in x) + ('#BAD%d' % out[i + 1] if out[i + 1] else ''))
            i += 2
        else:
            parts.append(','.join(map(str, x)))
            i += 1
    return '|'.join(parts)


def run(pid, tier, seed, replay=None):
    chk = Check(pid, tier, seed)
    chk.coq(extra_files=['Containers', 'HashTabProofs'])
    quick = tier == 'quick'
    rng = chk.rng
    N = 1500 if quick else 20000
    cases = []
    for i in range(N):
        kind = ('ht', 'ht', 'os', 'vlo')[i % 4]
        d, o, info = {'ht': gen_ht, 'os': gen_os, 'vlo': gen_vlo}[kind](rng, 40 if quick else 120)
        cases.append((kind, 'k%d' % i, d, o, info))
    model = yvlib.run_oracle([c[3] for c in cases])
    stats = {'cases': N, 'model_none': sum(1 for m in model if m == 'none'), 'variants': {}}
    for variant in ('c', 'cxx'):
        try:
            exe = yvlib.build_containers(variant)
        except yvlib.BuildError as e:
            chk.obl['broken'].append('containers (%s) do not build: %s' % (variant, str(e)[-800:]))
            continue
        res = yvlib.run_containers(exe, ['%s %s' % (c[1], c[2]) for c in cases])
        nbad = 0
        for c, r, m in zip(cases, res, model):
            kind, cid, d, o, info = c
            key = (variant, d)
            chk.note_case(key, info['ops'] > 5, {'variant': variant, 'kind': kind, 'ops': d[:200]})
            rep = {'property': 'C19', 'variant': variant, 'kind': kind, 'ops': d, 'model': m, 'implementation': r}
            sig = 'C19:%%s:%s:%s' % (variant, d[:600])
            if 'abort' in r or r.get('out') is None or 'exit_problem' in r:
                chk.violation(sig % ('abort-' + kind), '%s %s: aborted: %s %s' % (variant, kind, r.get('abort') or r.get('exit_problem'), (r.get('stderr') or [''])[:2]), rep)
                nbad += 1
                continue
            if m == 'none':
                continue
            got = canon_driver(kind, r['out'])
            if kind == 'ht' and '-2' in got.split():
                chk.violation(sig % 'ht-deleted-marker', '%s hash table handed out an entry holding the deleted marker as if it were an element' % variant, rep)
                nbad += 1
                continue
            if got != m:
                chk.violation(sig % kind, '%s %s: observable results differ from the model' % (variant, kind), rep)
                nbad += 1
        stats['variants'][variant] = {'disagreements': nbad}
    chk.cov['rule'] = ('random operation sequences (hash table: create/find/insert/remove/empty with colliding hash functions and sizes 3..41; object stack and vlo: '
                       'add/expand/shorten/finish/nullify/empty/tailor with sizes around the segment and growth boundaries, compiled with 16-byte segments) '
                       'on the C and the C++ container; non-trivial = more than 5 operations')
    return chk.finish(extra_cov={'stream': stats})
