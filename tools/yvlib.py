"""Shared machinery of the /verif checks: building the implementation from
/repo's working tree, running the driver, building and running the Coq
development and the extracted oracle, evidence files, violations."""
import json, os, subprocess, sys, tempfile, shutil, time, hashlib, random, re

VERIF = os.path.dirname(os.path.dirname(os.path.abspath(__file__)))
REPO = os.environ.get('YV_REPO', '/repo')
SRC = os.path.join(REPO, 'src')
COQ = os.path.join(VERIF, 'coq')
NPROC = os.cpu_count() or 4
GUARD = 'YAEP_VERIF'

SAN = ['-g', '-O1', '-fno-omit-frame-pointer', '-fsanitize=address,undefined',
       '-fno-sanitize=pointer-overflow', '-fno-sanitize-recover=all']
C_LIB = ['allocate.c', 'hashtab.c', 'objstack.c', 'vlobject.c', 'yaep.c']
CXX_LIB = ['allocate.c', 'hashtab.cpp', 'objstack.cpp', 'vlobject.cpp', 'yaep.cpp']

_scratch = []


def scratch_dir(prefix='yv_'):
    d = tempfile.mkdtemp(prefix=prefix, dir=os.environ.get('YV_TMP', '/tmp'))
    _scratch.append(d)
    return d


def cleanup():
    for d in _scratch:
        shutil.rmtree(d, ignore_errors=True)
    del _scratch[:]


def sh(cmd, cwd=None, timeout=600, env=None, check=True, inp=None):
    p = subprocess.run(cmd, cwd=cwd, timeout=timeout, env=env, input=inp,
                       stdout=subprocess.PIPE, stderr=subprocess.PIPE, text=True)
    if check and p.returncode != 0:
        raise RuntimeError('command failed (%d): %s\n%s\n%s' % (p.returncode, ' '.join(cmd), p.stdout[-4000:], p.stderr[-4000:]))
    return p


class BuildError(Exception):
    pass


def build_impl(variant='c', sanitize=True, hooks=True, extra_defs=()):
    """Build the driver against the library sources of /repo's *working tree*.
    variant: 'c' | 'cxx' | 'fault' (C, every library source routed through counting/failing wrappers).
    Returns the path of the executable (in a scratch dir)."""
    d = scratch_dir('yv_impl_')
    src = os.path.join(d, 'src')
    shutil.copytree(SRC, src)
    p = sh(['bison', '-o', os.path.join(src, 'sgramm.c'), os.path.join(src, 'sgramm.y')], check=False)
    if p.returncode != 0:
        raise BuildError('bison failed: ' + p.stderr[-2000:])
    cxx = variant == 'cxx'
    cc = 'clang++' if cxx else 'clang'
    flags = (SAN if sanitize else ['-O2', '-g']) + ['-I' + src, '-w']
    if hooks:
        flags.append('-D' + GUARD)
    flags += list(extra_defs)
    std = ['-std=c++11'] if cxx else []
    objs = []
    jobs = []
    for f in (CXX_LIB if cxx else C_LIB):
        o = os.path.join(d, f.replace('.', '_') + '.o')
        fl = list(flags)
        comp = cc
        if f.endswith('.c') and cxx:
            comp = 'clang'   # allocate.c is C in both libraries
        if variant == 'fault':
            # every request of the library is a failable one: allocate.c's wrappers, the default tree allocator of
            # yaep_parse and the stack extension of the generated description parser (YYMALLOC) in yaep.c
            fl += ['-Dmalloc=yv_malloc', '-Dcalloc=yv_calloc', '-Drealloc=yv_realloc', '-Dfree=yv_free']
        cmd = [comp] + (std if comp == 'clang++' else []) + fl + ['-c', os.path.join(src, f), '-o', o]
        jobs.append((cmd, subprocess.Popen(cmd, stdout=subprocess.PIPE, stderr=subprocess.PIPE, text=True)))
        objs.append(o)
    drv = os.path.join(VERIF, 'harness', 'yv_driver.c')
    o = os.path.join(d, 'driver.o')
    cmd = [cc] + std + (['-x', 'c++'] if cxx else []) + flags + ['-c', drv, '-o', o]
    jobs.append((cmd, subprocess.Popen(cmd, stdout=subprocess.PIPE, stderr=subprocess.PIPE, text=True)))
    objs.append(o)
    for cmd, pr in jobs:
        so, se = pr.communicate(timeout=600)
        if pr.returncode != 0:
            raise BuildError('compile failed: %s\n%s' % (' '.join(cmd), se[-3000:]))
    exe = os.path.join(d, 'yv_driver')
    p = sh([('clang++' if cxx else 'clang')] + (SAN if sanitize else []) + objs + ['-o', exe], check=False)
    if p.returncode != 0:
        raise BuildError('link failed: ' + p.stderr[-3000:])
    return exe


def hx(s):
    if isinstance(s, str):
        s = s.encode('latin-1')
    return 'x' + s.hex()


ASAN_ENV = 'abort_on_error=0:detect_leaks=1:allocator_may_return_null=1:exitcode=99:malloc_context_size=4:max_malloc_fill_size=1048576:malloc_fill_byte=190'


def run_driver(exe, script, timeout_case=20, shards=None, leaks=False, batch=None):
    """Run a script (text with many CASEs).  Sharded over the cores.  Returns
    the list of per-case result dicts in script order."""
    cases = split_cases(script)
    if not cases:
        return []
    n = shards or min(NPROC, max(1, len(cases) // 8))
    chunks = [cases[i::n] for i in range(n)]
    d = scratch_dir('yv_run_')
    procs = []
    env = dict(os.environ)
    env['ASAN_OPTIONS'] = ASAN_ENV if leaks else ASAN_ENV.replace('detect_leaks=1', 'detect_leaks=0')
    env['UBSAN_OPTIONS'] = 'print_stacktrace=1:halt_on_error=1'
    for i, ch in enumerate(chunks):
        fn = os.path.join(d, 's%d.txt' % i)
        with open(fn, 'w') as f:
            f.write('\n'.join(ch) + '\n')
        procs.append(subprocess.Popen([exe, fn, str(timeout_case), str(batch if batch else (1 if leaks else 40))], stdout=subprocess.PIPE, stderr=subprocess.PIPE, text=True, env=env))
    res = {}
    for i, pr in enumerate(procs):
        so, se = pr.communicate(timeout=3600)
        if pr.returncode != 0:
            raise RuntimeError('driver failed rc=%d: %s' % (pr.returncode, se[-2000:]))
        for line in so.splitlines():
            line = line.strip()
            if not line:
                continue
            try:
                r = json.loads(line)
            except Exception:
                raise RuntimeError('driver printed bad JSON: ' + line[:500])
            if r['id'] == '@exit':
                # a worker that completed its cases did not exit cleanly (leak report): attribute to the last case
                if r.get('after') in res:
                    res[r['after']].setdefault('exit_problem', r)
                continue
            res[r['id']] = r
    shutil.rmtree(d, ignore_errors=True)
    out = []
    for c in cases:
        cid = c.split(None, 2)[1]
        out.append(res.get(cid, {'id': cid, 'ops': [], 'abort': 'no result'}))
    return out


def split_cases(script):
    cases, cur = [], []
    for line in script.splitlines():
        if line.startswith('CASE '):
            cur = [line]
        elif line.strip() == 'END':
            cur.append('END')
            cases.append('\n'.join(cur))
            cur = []
        elif line.strip():
            cur.append(line)
    return cases


# ---------------------------------------------------------------------------
# Grammar cases (python-side representation)
#   grammar = {'terms': [(name, code)], 'rules': [(lhs, [rhs names], anode|None, cost, transl|None)]}
NIL = 2147483647


def script_read(slot, g, strict):
    lines = ['READ %d %d %d %d' % (slot, strict, len(g['terms']), len(g['rules']))]
    for name, code in g['terms']:
        lines.append('t %s %d' % (hx(name), code))
    for lhs, rhs, anode, cost, tr in g['rules']:
        lines.append('r %s %d %s %s %d %s' % (hx(lhs), len(rhs), ' '.join(hx(s) for s in rhs),
                                              hx(anode) if anode is not None else '-', cost,
                                              ('-1' if tr is None else ' '.join([str(len(tr))] + [str(x) for x in tr]))))
    return lines


CFG_KEYS = ['la', 'debug', 'one', 'cost', 'rec', 'match']
DEFAULT_CFG = {'la': 1, 'debug': 0, 'one': 1, 'cost': 0, 'rec': 1, 'match': 3}


def script_cfg(slot, cfg):
    return ['SET %d %d %d' % (slot, CFG_KEYS.index(k), v) for k, v in cfg.items()]


def simple_case(cid, g, strict, cfg, toks, allocmode=0, free_tree=True, walk=True, variation=None):
    """One grammar object, one parse.  variation (see vary): implementation-side context that must
    not change any result - unused extra terminals around the declared ones, and/or an earlier
    parse (tree freed) on the same object."""
    v = variation or {}
    if v.get('pad_before') or v.get('pad_after'):
        g = dict(g, terms=list(v.get('pad_before', [])) + list(g['terms']) + list(v.get('pad_after', [])))
    L = ['CASE %s' % cid, 'NEW 0'] + script_cfg(0, cfg) + (['DESC 0 %d %s' % (strict, hx(v['desc']))] if v.get('desc') else script_read(0, g, strict))
    k = 0
    if v.get('pre') is not None:
        pt = v['pre']
        pc = v.get('pre_cfg') or {}
        # the earlier parse may run under other settings, which are set back afterwards
        L += script_cfg(0, pc)
        L.append('PARSE 0 %d %d %s' % (allocmode, len(pt), ' '.join(str(c) for c in pt)))
        L += script_cfg(0, {kk: cfg.get(kk, DEFAULT_CFG[kk]) for kk in pc})
        if free_tree:
            L.append('FREET 0 1')
        k = 1
    L.append('VSET -1 0')
    L.append('PARSE 0 %d %d %s' % (allocmode, len(toks), ' '.join(str(c) for c in toks)))
    L.append('COUNTERS')
    L.append('FREEG 0')
    if walk:
        L.append('WALK %d' % k)
    if free_tree:
        L.append('FREET %d 1' % k)
    L.append('END')
    return '\n'.join(L)


_IDENT = re.compile(r'^[A-Za-z_][A-Za-z0-9_]*$')


def desc_text(g, r):
    """A description (syntax of yaep_parse_grammar) that denotes the grammar dict g, or None when g cannot be written
    that way (a terminal that is neither an identifier nor a character constant of its own code, ...)."""
    tname = {}
    decl = []
    for nm, code in g['terms']:
        if _IDENT.match(nm) and nm not in ('TERM', 'error'):
            if len(nm) == 1 and ord(nm) == code and r.random() < 0.5:
                tname[nm] = "'%s'" % nm
            else:
                tname[nm] = nm
                decl.append('%s=%d' % (nm, code))
        elif len(nm) == 1 and ord(nm) == code and 32 < code < 127 and nm not in "'\\":
            tname[nm] = "'%s'" % nm
        else:
            return None
    # a terminal written as a character constant is declared by its use: one that no rule uses needs a TERM declaration
    used = {x for lhs, rhs, anode, cost, tr in g['rules'] for x in rhs}
    for nm, code in g['terms']:
        if tname[nm].startswith("'") and nm not in used:
            if not _IDENT.match(nm):
                return None
            tname[nm] = nm
            decl.append('%s=%d' % (nm, code))
    out = []
    if decl:
        r.shuffle(decl)
        out.append('TERM ' + ' '.join(decl) + ';')
    prev = None
    for lhs, rhs, anode, cost, tr in g['rules']:
        if not _IDENT.match(lhs) or lhs == 'TERM' or (anode is not None and (not _IDENT.match(anode) or anode == 'TERM')):
            return None
        syms = []
        for x in rhs:
            if x in tname:
                syms.append(tname[x])
            elif _IDENT.match(x) and x != 'TERM':
                syms.append(x)
            else:
                return None
        t = ' '.join(syms)
        if anode is not None:
            t += ' # %s' % anode
            if cost != 1 or r.random() < 0.5:
                t += ' %d' % cost
            if tr or r.random() < 0.5:
                t += ' (%s)' % ' '.join('-' if x == NIL else str(x) for x in (tr or []))
        elif tr is not None:
            if len(tr) > 1:
                return None
            t += ' #' + (' -' if tr and tr[0] == NIL else (' %d' % tr[0] if tr else ''))
        if prev == lhs and r.random() < 0.6:
            out[-1] = out[-1].rstrip(';').rstrip() + '\n  | ' + t + ' ;'
        else:
            out.append('%s : %s ;' % (lhs, t))
        prev = lhs
    return '\n'.join(out) + '\n'


def vary(key, g, toks, p_pad=0.2, p_pre=0.15, p_desc=0.1):
    """Deterministic (from key) choice of an implementation-side variation for a case."""
    import random as _r
    r = _r.Random('vary:%s' % (key,))
    v = {}
    x = r.random()
    if x < p_pad:
        used = {c for n, c in g['terms']}
        names = {n for n, c in g['terms']}
        total = r.choice([63, 64, 65, 66, 70, 127, 129])
        nb = r.choice([0, 0, 0, 1, 62, 64])
        base = r.choice([1000, 1000, 20000])
        extra = []
        i = 0
        while len(extra) + len(g['terms']) < total:
            c = base + i
            i += 1
            if c in used or ('zz%d' % c) in names:
                continue
            extra.append(('zz%d' % c, c))
        v['pad_before'], v['pad_after'] = extra[:nb], extra[nb:]
    elif x < p_pad + p_pre:
        v['pre'] = list(toks)
        if toks and r.random() < 0.5:
            # the earlier parse is of another input: the last token dropped, or one token replaced by another declared code
            # (mostly a non-sentence: the object has been through a rejected or repaired parse before)
            if r.random() < 0.5:
                v['pre'] = list(toks[:-1])
            else:
                k = r.randrange(len(toks))
                v['pre'] = list(toks[:k]) + [r.choice([c for n, c in g['terms']])] + list(toks[k + 1:])
        if r.random() < 0.6:
            v['pre_cfg'] = {kk: r.choice(vals) for kk, vals in (('la', [0, 1, 2]), ('one', [0, 1]), ('cost', [0, 1]), ('rec', [0, 1])) if r.random() < 0.5}
    elif x < p_pad + p_pre + p_desc:
        t = desc_text(g, r)
        if t is not None:
            v['desc'] = t          # the grammar is defined through its description text instead of the callbacks
    return v


def strip_variation(r, v):
    """Remove the ops of the earlier parse from a driver result so that consumers see one parse."""
    if v and v.get('desc') and 'ops' in r:
        for o in r['ops']:
            if o.get('op') == 'desc':
                o['op'] = 'read'      # consumers look for the defining call under this name
    if not v or v.get('pre') is None or 'ops' not in r:
        return r
    ops, out, dropped = r['ops'], [], {'parse': 0, 'freet': 0}
    for o in ops:
        if o.get('op') in dropped and dropped[o['op']] == 0:
            dropped[o['op']] = 1
            r.setdefault('pre_ops', []).append(o)
            continue
        out.append(o)
    r['ops'] = out
    return r


def grammar_text(g):
    """Human readable form of a python-side grammar (for samples / replays)."""
    out = []
    out.append('TERM ' + ' '.join('%s=%d' % (n, c) for n, c in g['terms']) + ';')
    for lhs, rhs, anode, cost, tr in g['rules']:
        s = '%s : %s' % (lhs, ' '.join(rhs))
        if anode is not None:
            s += ' # %s %d (%s)' % (anode, cost, ' '.join('-' if x == NIL else str(x) for x in (tr or [])))
        elif tr is not None:
            s += ' # ' + ' '.join('-' if x == NIL else str(x) for x in tr)
        out.append(s + ' ;')
    return '\n'.join(out)


# ---------------------------------------------------------------------------
# Coq development and oracle

def coq_build(targets=None, timeout=1800, keep_going=True):
    """Regenerate Generated.v from the working tree, then (re)build the Coq
    development.  Returns (ok, log)."""
    gen = sh([sys.executable, os.path.join(VERIF, 'tools', 'extract_facts.py'), SRC,
              os.path.join(COQ, 'theories', 'Generated.v')], check=False)
    log = gen.stdout + gen.stderr
    if gen.returncode != 0:
        return False, 'extract_facts failed:\n' + log
    if not os.path.exists(os.path.join(COQ, 'Makefile')):
        sh(['coq_makefile', '-f', '_CoqProject', '-o', 'Makefile'], cwd=COQ)
    cmd = ['make', '-j%d' % NPROC] + (['-k'] if keep_going else []) + (targets or [])
    p = sh(cmd, cwd=COQ, timeout=timeout, check=False)
    return p.returncode == 0, log + p.stdout[-20000:] + p.stderr[-20000:]


def oracle_build():
    p = sh(['make', '-s', '-C', os.path.join(VERIF, 'ocaml')], check=False, timeout=900)
    if p.returncode != 0:
        raise BuildError('oracle build failed:\n' + p.stdout[-3000:] + p.stderr[-3000:])
    return os.path.join(VERIF, 'ocaml', 'oracle')


def run_oracle(lines, shards=None, timeout=3600, qtimeout=None):
    """lines: list of query strings (one per line).  Returns list of answer strings."""
    exe = os.path.join(VERIF, 'ocaml', 'oracle')
    if not lines:
        return []
    n = shards or min(NPROC, max(1, len(lines) // 4))
    idx = [list(range(i, len(lines), n)) for i in range(n)]
    procs = []
    for ix in idx:
        env = dict(os.environ)
        if qtimeout:
            env['ORACLE_QUERY_TIMEOUT'] = str(qtimeout)     # seconds per query; a query over the limit is answered 'none'
        pr = subprocess.Popen([exe], stdin=subprocess.PIPE, stdout=subprocess.PIPE, stderr=subprocess.PIPE, text=True, env=env)
        procs.append(pr)
    import threading
    outs = [None] * n

    def work(k):
        so, se = procs[k].communicate('\n'.join(lines[i] for i in idx[k]) + '\n', timeout=timeout)
        outs[k] = (procs[k].returncode, so, se)
    ths = [threading.Thread(target=work, args=(k,)) for k in range(n)]
    for t in ths:
        t.start()
    for t in ths:
        t.join()
    res = [None] * len(lines)
    for k in range(n):
        rc, so, se = outs[k]
        if rc != 0:
            raise RuntimeError('oracle failed rc=%s: %s' % (rc, se[-2000:]))
        ans = so.splitlines()
        if len(ans) != len(idx[k]):
            raise RuntimeError('oracle answered %d lines for %d queries: %s' % (len(ans), len(idx[k]), se[-1000:]))
        for i, a in zip(idx[k], ans):
            res[i] = a
    return res


# ---------------------------------------------------------------------------
# Evidence / violations

def write_evidence(pid, tier, seed, coverage, assumptions, wall, violations, level='proof'):
    os.makedirs(os.path.join(VERIF, 'evidence'), exist_ok=True)
    ev = {'property_id': pid, 'tier': tier, 'seed': seed, 'level': level, 'coverage': coverage,
          'assumptions': assumptions, 'wall_s': round(wall, 2), 'violations': violations}
    with open(os.path.join(VERIF, 'evidence', pid + '.json'), 'w') as f:
        json.dump(ev, f, indent=1, sort_keys=True)
        f.write('\n')


def write_replay(pid, name, obj):
    d = os.path.join(VERIF, 'replays')
    os.makedirs(d, exist_ok=True)
    fn = os.path.join(d, '%s_%s.json' % (pid, name))
    with open(fn, 'w') as f:
        json.dump(obj, f, indent=1, sort_keys=True)
        f.write('\n')
    return fn


def load_known_findings():
    fn = os.path.join(VERIF, 'known_findings.json')
    if not os.path.exists(fn):
        return {'known': [], 'fixed': []}
    with open(fn) as f:
        return json.load(f)


def build_containers(variant='c', small=True):
    """Build harness/ct_driver.c against the container sources of the working tree."""
    d = scratch_dir('yv_ct_')
    src = os.path.join(d, 'src')
    shutil.copytree(SRC, src)
    cxx = variant == 'cxx'
    flags = SAN + ['-I' + src, '-w']
    if small:
        flags += ['-DOS_DEFAULT_SEGMENT_LENGTH=16', '-DVLO_DEFAULT_LENGTH=8']
    files = ['allocate.c'] + (['hashtab.cpp', 'objstack.cpp', 'vlobject.cpp'] if cxx else ['hashtab.c', 'objstack.c', 'vlobject.c'])
    objs = []
    for f in files:
        o = os.path.join(d, f.replace('.', '_') + '.o')
        comp = 'clang++' if f.endswith('.cpp') else 'clang'
        p = sh([comp] + (['-std=c++11'] if comp == 'clang++' else []) + flags + ['-c', os.path.join(src, f), '-o', o], check=False)
        if p.returncode != 0:
            raise BuildError('compile failed: %s\n%s' % (f, p.stderr[-2000:]))
        objs.append(o)
    o = os.path.join(d, 'ct_driver.o')
    drv = os.path.join(VERIF, 'harness', 'ct_driver.c')
    cmd = (['clang++', '-std=c++11', '-x', 'c++'] if cxx else ['clang']) + flags + ['-c', drv, '-o', o]
    p = sh(cmd, check=False)
    if p.returncode != 0:
        raise BuildError('compile failed: ct_driver\n' + p.stderr[-3000:])
    exe = os.path.join(d, 'ct_driver')
    p = sh([('clang++' if cxx else 'clang')] + SAN + objs + [o, '-o', exe], check=False)
    if p.returncode != 0:
        raise BuildError('link failed: ' + p.stderr[-3000:])
    return exe


def run_containers(exe, lines, timeout=600):
    """lines: list of 'id op op ...'.  One process per shard; a crash loses the rest of the shard,
    so every case also gets its own process when its shard died."""
    d = scratch_dir('yv_ctrun_')
    n = min(NPROC, max(1, len(lines) // 20))
    env = dict(os.environ)
    env['ASAN_OPTIONS'] = ASAN_ENV
    env['UBSAN_OPTIONS'] = 'print_stacktrace=1:halt_on_error=1'
    res = {}
    hangs = [0]

    def run_chunk(ch, tag):
        fn = os.path.join(d, 'c%s.txt' % tag)
        open(fn, 'w').write('\n'.join(ch) + '\n')
        class _P:
            pass
        try:
            p = subprocess.run([exe, fn], stdout=subprocess.PIPE, stderr=subprocess.PIPE, text=True, env=env, timeout=min(timeout, 12 + len(ch) // 40))
        except subprocess.TimeoutExpired as e:
            # a container operation that does not return: the case after the last completed one hangs
            p = _P()
            p.returncode = -14
            p.stdout = (e.stdout.decode('latin-1') if isinstance(e.stdout, bytes) else (e.stdout or ''))
            p.stderr = 'ERROR: watchdog: the operation sequence did not finish'
            hangs[0] += 1
        done = 0
        for l in p.stdout.splitlines():
            try:
                r = json.loads(l)
            except Exception:
                continue
            res[r['id']] = r
            done += 1
        return p, done
    chunks = [lines[i::n] for i in range(n)]
    for ci, ch in enumerate(chunks):
        if hangs[0] >= 3:
            break            # three sequences did not return: the rest is not run
        p, done = run_chunk(ch, str(ci))
        while p.returncode != 0 and done < len(ch) and hangs[0] < 3:
            # the case after the last completed one crashed
            bad = ch[done]
            cid = bad.split()[0]
            rep = [l for l in p.stderr.splitlines() if 'ERROR:' in l or 'SUMMARY' in l or 'runtime error' in l or '    #0 ' in l or '    #1 ' in l][:6]
            res[cid] = {'id': cid, 'out': None, 'abort': 'exit %d' % p.returncode, 'stderr': rep}
            ch = ch[done + 1:]
            if not ch:
                break
            p, done = run_chunk(ch, '%d_r' % ci)
        if p.returncode != 0 and done == len(ch) and ch:
            cid = ch[-1].split()[0]
            rep = [l for l in p.stderr.splitlines() if 'ERROR:' in l or 'SUMMARY' in l or '    #0 ' in l or '    #1 ' in l][:6]
            res.setdefault(cid, {})['exit_problem'] = {'abort': 'exit %d' % p.returncode, 'stderr': rep}
    shutil.rmtree(d, ignore_errors=True)
    return [res.get(l.split()[0], {'id': l.split()[0], 'out': None, 'abort': 'no result'}) for l in lines]
