"""Check C12: no crash, hang or undefined behaviour within the API
preconditions.  Dedicated stream (arbitrary byte strings as descriptions, very
long names at every error message site, hundreds of symbols, sparse and dense
codes, undeclared / huge token codes, arbitrary flag values); every case runs
under ASan/UBSan with a watchdog; failures may be reported only through return
codes and the message must fit its buffer."""
import json, os, sys
import yvlib, gen
from yvlib import NIL, hx
from checklib import Check
import check_description as cd
import check_readgrammar as crg

INT_MAX = 2147483647


def long_name(rng, n=None):
    n = n or rng.choice([199, 200, 201, 250, 300, 1000])
    return ''.join(rng.choice('abcXYZ_09') for _ in range(n))


def run(pid, tier, seed, replay=None):
    chk = Check(pid, tier, seed)
    chk.coq(extra_files=['Messages'])
    try:
        exe = yvlib.build_impl('c')
    except yvlib.BuildError as e:
        chk.obl['broken'].append('implementation does not build: ' + str(e)[-800:])
        return chk.finish()
    quick = tier == 'quick'
    rng = chk.rng
    cases = []     # (kind, info, script)
    n = 0

    def add(kind, info, lines):
        nonlocal n
        cid = 'r%d' % n
        n += 1
        cases.append((kind, info, '\n'.join(['CASE ' + cid] + lines + ['END'])))
    # 1. byte strings as descriptions
    for _ in range(600 if quick else 8000):
        r = rng.random()
        if r < 0.3:
            t = bytes(rng.randrange(1, 256) for _ in range(rng.randint(0, 60))).decode('latin-1')
        else:
            tdecl, rules = cd.rand_desc_grammar(rng)
            t = cd.print_desc(rng, tdecl, rules)
            for _ in range(rng.randint(1, 4)):
                t = cd.mutate_text(rng, t)
            if rng.random() < 0.2:
                t += rng.choice(["'", "/*", "/", "TERM x=99999999999999999999", "a : # n 99999999999 ()", "'a", "\x80 : 'a' ;", "x : '\xff' ;",
                                 "TERM y=2147483648;", "TERM y=2147483649", "b : # 2147483648 ;", "b : # n 2147483649 (0)", "TERM y=2147483647;"])
        add('text', {'text': t[:200]}, ['NEW 0', 'SET 0 4 %d' % rng.choice([0, 1]), 'DESC 0 %d %s' % (rng.choice([0, 1]), hx(t)), 'ERR 0',
                                        'PARSE 0 0 2 %d %d' % (rng.randrange(0, 300), rng.randrange(0, 300)), 'FREEG 0', 'FREET 0 0'])
    # 2. very long names at every message site (defect injections with long names)
    for _ in range(400 if quick else 5000):
        strict = rng.random() < 0.5
        g = gen.rand_wf_grammar(rng, strict, max_nt=3, max_t=3, max_rhs=3, err_rules=rng.choice([0, 1]))
        if g is None:
            continue
        ren = {}
        for nm in [t for t, c in g.terms] + g.nts:
            if rng.random() < 0.5:
                ren[nm] = long_name(rng)
        terms = [(ren.get(t, t), c) for t, c in g.terms]
        rules = [(ren.get(l, l), [ren.get(s, s) for s in r], (long_name(rng) if (a is not None and rng.random() < 0.3) else a), c, t) for (l, r, a, c, t) in g.rules]
        for _ in range(rng.choice([0, 1, 1, 2])):
            terms, rules = crg.inject(rng, terms, rules, rng.randint(4, 16))
        gd = {'terms': terms, 'rules': rules}
        tok = [c for nm, c in terms if c >= 0][:3] or [0]
        w = gen.rand_sentence(rng, g, maxlen=6)
        if w is not None and rng.random() < 0.7:
            cm = dict(g.terms)
            tok = [cm[x] for x in w]
        add('longnames', {'grammar': yvlib.grammar_text(gd)[:300]}, ['NEW 0', 'SET 0 2 %d' % rng.choice([0, 1]), 'SET 0 3 %d' % rng.choice([0, 0, 1])] +
            yvlib.script_read(0, gd, 1 if strict else 0) +
            ['ERR 0', 'PARSE 0 0 %d %s' % (len(tok), ' '.join(map(str, tok))), 'ERR 0', 'FREEG 0', 'FREET 0 0'])
    # 2b. grammars with a nonterminal deriving itself, defined without strict checking, all parses requested:
    #     they must be rejected (tree construction would not terminate)
    for _ in range(60 if quick else 600):
        g = gen.rand_wf_grammar(rng, False, max_nt=3, max_t=2, max_rhs=3)
        if g is None:
            continue
        w = gen.rand_sentence(rng, g, maxlen=5)
        if w is None:
            continue
        terms, rules = crg.inject(rng, g.terms, g.rules, 16)
        gd = {'terms': terms, 'rules': rules}
        cm = dict(g.terms)
        tok = [cm[x] for x in w]
        add('cyclic', {'grammar': yvlib.grammar_text(gd)[:300], 'tokens': w}, ['NEW 0', 'SET 0 2 0', 'SET 0 3 %d' % rng.choice([0, 1])] +
            yvlib.script_read(0, gd, 0) + ['PARSE 0 0 %d %s' % (len(tok), ' '.join(map(str, tok))), 'FREEG 0', 'FREET 0 0'])
    # 3. many symbols, sparse and dense codes, undeclared / huge / gap token codes
    for _ in range(60 if quick else 600):
        nt = rng.choice([63, 64, 65, 100, 129, 300])
        sparse = rng.random() < 0.5
        if sparse:
            codes = sorted(rng.sample(range(0, 20000), nt))
        else:
            base = rng.choice([0, 1, 250])
            codes = [base + 2 * i if rng.random() < 0.5 else base + i for i in range(nt)]
            codes = sorted(set(codes))
        terms = [('t%d' % i, c) for i, c in enumerate(codes)]
        nn = rng.choice([1, 5, 70, 130])
        rules = [('S', ['L'], None, 0, [0]), ('L', ['L', 'I'], 'l', 0, [0, 1]), ('L', ['I'], None, 0, [0])]
        for j in range(nn):
            rules.append(('I', ['X%d' % j], None, 0, [0]))
            rules.append(('X%d' % j, [rng.choice(terms)[0] for _ in range(rng.randint(1, 3))], 'x%d' % j, 0, [0]))
        gd = {'terms': terms, 'rules': rules}
        L = ['NEW 0', 'SET 0 0 %d' % rng.choice([0, 1, 2])] + yvlib.script_read(0, gd, 0)
        for _ in range(4):
            toks = [rng.choice(codes) for _ in range(rng.randint(0, 30))]
            r = rng.random()
            if r < 0.6:
                bad = rng.choice([codes[0] - 1 if codes[0] > 0 else 7, codes[-1] + 1, INT_MAX, codes[0] + 1, (codes[0] + codes[-1]) // 2, 10 ** 9, 0, 1])
                toks.insert(rng.randrange(len(toks) + 1), bad)
            L.append('PARSE 0 %d %d %s' % (rng.choice([0, 1]), len(toks), ' '.join(map(str, toks))))
        L += ['FREEG 0'] + ['FREET %d 1' % k for k in range(4)]
        add('manysymbols', {'terminals': nt, 'sparse': sparse, 'nonterminals': nn + 3}, L)
    # 4. arbitrary flag values
    ge = {'terms': [('a', 97), ('+', 43), ('(', 40), (')', 41)],
          'rules': [('E', ['E', '+', 'E'], 'plus', 1, [0, 2]), ('E', ['a'], None, 0, [0]), ('E', ['(', 'E', ')'], None, 0, [1]), ('E', ['(', 'error', ')'], 'err', 0, [])]}
    for _ in range(150 if quick else 2000):
        L = ['NEW 0'] + yvlib.script_read(0, ge, 0)
        for i in range(6):
            if rng.random() < 0.7:
                v = rng.choice([0, 1, -1, 2, 3, 7, INT_MAX, -INT_MAX - 1, 100, -100])
                if i == 1:
                    v = rng.choice([0, 1, 2, 3, 4, 5, 6, 7, -1, -5, INT_MAX, -INT_MAX - 1])
                L.append('SET 0 %d %d' % (i, v))
        toks = [rng.choice([97, 43, 40, 41]) for _ in range(rng.randint(0, 9))]
        L += ['PARSE 0 %d %d %s' % (rng.choice([0, 1, 2]), len(toks), ' '.join(map(str, toks))), 'ERR 0', 'FREEG 0', 'FREET 0 1']
        add('flags', {'script': L[1 + 7:][:8]}, L)
    # 5. several parses on one object, trees released in between and read afterwards
    for _ in range(120 if quick else 1500):
        g = gen.family_grammar(rng) if rng.random() < 0.5 else gen.rand_wf_grammar(rng, False, max_nt=3, max_t=3, max_rhs=3, p_anode=0.8, err_rules=rng.choice([0, 1]))
        if g is None or not g.well_formed(False):
            continue
        ws = [w for w in (gen.rand_sentence(rng, g, maxlen=7) for _ in range(3)) if w is not None]
        if not ws:
            continue
        ws = [w if rng.random() < 0.7 else gen.mutate(rng, g, w, 1) for w in ws]
        am = rng.choice([0, 0, 1])
        L = ['NEW 0', 'SET 0 0 %d' % rng.choice([0, 1, 2]), 'SET 0 2 %d' % rng.choice([0, 1]), 'SET 0 3 %d' % rng.choice([0, 0, 1])] + yvlib.script_read(0, g.as_dict(), 0)
        for k, w in enumerate(ws):
            L.append('PARSE 0 %d %d %s' % (am, len(w), ' '.join(map(str, gen.codes_of(g, w)))))
            if k > 0 and rng.random() < 0.8:
                L.append('FREET %d 1' % (k - 1))
            L.append('WALK %d' % k)
        L += ['FREEG 0'] + ['WALK %d' % (len(ws) - 1)] + ['FREET %d 1' % k for k in range(len(ws))]
        add('reparse', {'grammar': yvlib.grammar_text(g.as_dict())[:300], 'inputs': [' '.join(w) for w in ws]}, L)
    # 7. dynamic lookahead with hundreds of contexts (the tables of situations by context are re-allocated)
    for k in ([300, 600] if quick else [300, 520, 600, 900, 1500]):
        terms = [('n', 1)] + [('t%d' % i, 10 + i) for i in range(k)]
        rhs = []
        for i in range(k):
            rhs += ['N', 't%d' % i]
        gd = {'terms': terms, 'rules': [('S', rhs, None, 0, None), ('N', ['n'], 'n', 0, [0])]}
        toks = []
        for i in range(k):
            toks += [1, 10 + i]
        for la in (2, 1):
            add('contexts', {'symbols': k, 'lookahead': la}, ['NEW 0', 'SET 0 0 %d' % la] + yvlib.script_read(0, gd, 0) +
                ['PARSE 0 0 %d %s' % (len(toks), ' '.join(map(str, toks))), 'PARSE 0 0 %d %s' % (len(toks) - 1, ' '.join(map(str, toks[:-1]))), 'FREEG 0', 'FREET 0 0', 'FREET 1 0'])
    # 8. a terminal with a long name described twice with different codes: the message quotes a bounded part of the name
    for _ in range(40 if quick else 400):
        L_ = rng.choice([98, 99, 100, 101, 120, 150, 199, 200, 201, 300])
        ch = rng.choice('QZJ')
        name = ch * L_
        t = 'TERM %s = 1 %s = 2 ;\nS : %s ;\n' % (name, name, name)
        add('twice', {'name_length': L_, 'char': ch}, ['NEW 0', 'DESC 0 0 %s' % hx(t), 'ERR 0', 'FREEG 0'])
    # 11. one syntax error followed by hundreds of correct tokens, in grammars whose sets keep expecting `error': the search
    #     for the best recovery must stay bounded (recovery alternatives of equal cost are cut off)
    for _ in range(12 if quick else 120):
        kind_ = rng.choice(['list', 'stmts', 'blocks'])
        if kind_ == 'list':
            gd = {'terms': [('b', 98), ('x', 120)], 'rules': [('L', ['L', 'b'], None, 0, None), ('L', ['L', 'error'], None, 0, None), ('L', [], None, 0, None)]}
            good, bad = [98], [120]
        elif kind_ == 'stmts':
            gd = {'terms': [('a', 97), (';', 59), ('x', 120)], 'rules': [('P', ['P', 'S'], 'p', 0, [0, 1]), ('P', ['S'], None, 0, [0]), ('S', ['a', ';'], 's', 0, []), ('S', ['error', ';'], 'e', 0, [])]}
            good, bad = [97, 59], [120] if rng.random() < 0.5 else [97, 97]
        else:
            gd = {'terms': [('{', 123), ('}', 125), ('s', 115), ('x', 120)],
                  'rules': [('G', ['G', 'K'], 'g', 0, [0, 1]), ('G', ['K'], None, 0, [0]), ('K', ['{', 'L', '}'], 'k', 0, [1]), ('K', ['{', 'error', '}'], 'e', 0, []),
                            ('L', ['L', 's'], None, 0, None), ('L', ['s'], None, 0, None)]}
            good, bad = [123, 115, 115, 125], [123, 115, 120, 125]
        n_ = rng.choice([40, 80, 200, 400])
        toks = good * rng.randint(0, 3) + bad + good * n_
        add('longrecovery', {'grammar': yvlib.grammar_text(gd)[:300], 'tokens_after_the_error': len(good) * n_},
            ['NEW 0', 'SET 0 0 %d' % rng.choice([0, 1, 2]), 'SET 0 5 %d' % rng.choice([1, 2, 3, 3, 5])] + yvlib.script_read(0, gd, 0) +
            ['PARSE 0 0 %d %s' % (len(toks), ' '.join(map(str, toks))), 'FREEG 0', 'FREET 0 1'])
    # 10. a rule with more right hand side symbols than a short can count (the dot position of a situation)
    for n in ([32769] if quick else [32767, 32768, 33000, 40000]):
        gd = {'terms': [('a', 97), ('b', 98)], 'rules': [('S', ['a'] * (n - 1) + ['b'], None, 0, None)]}
        toks = ['97'] * (n - 1) + ['98']
        add('longrule', {'rhs_symbols': n}, ['NEW 0', 'SET 0 0 %d' % rng.choice([0, 1, 2])] + yvlib.script_read(0, gd, 0) +
            ['PARSE 0 0 %d %s' % (n, ' '.join(toks)), 'PARSE 0 0 %d %s' % (n - 1, ' '.join(toks[:-1])), 'FREEG 0', 'FREET 0 0', 'FREET 1 0'])
    # 9. costs near INT_MAX with the cost flag: the sums of minimal cost pruning and its visit marks stay in range
    for _ in range(60 if quick else 600):
        g = gen.family_grammar(rng, costs=(0, 3), fam=rng.choice(['split', 'shared', 'ops', 'nullable', 'stmts']))
        if not g.well_formed(False):
            continue
        big = [2147483647, 2147483646, 2147483640, 1073741824, 1073741823, 2000000000]
        rules = [(l, r, an, (rng.choice(big) if an is not None and rng.random() < 0.5 else c), tr) for (l, r, an, c, tr) in g.rules]
        gb = gen.Gram(g.terms, rules)
        ws = [w for w in gen.family_inputs(rng, g, 3)]
        if not ws:
            continue
        am = rng.choice([0, 0, 1])
        L = ['NEW 0', 'SET 0 2 %d' % rng.choice([0, 1]), 'SET 0 3 1'] + yvlib.script_read(0, gb.as_dict(), 0)
        for k, w in enumerate(ws):
            L.append('PARSE 0 %d %d %s' % (am, len(w), ' '.join(map(str, gen.codes_of(g, w)))))
            L.append('WALK %d' % k)
        L += ['FREEG 0'] + ['FREET %d 1' % k for k in range(len(ws))]
        add('bigcost', {'grammar': yvlib.grammar_text(gb.as_dict())[:300], 'inputs': [' '.join(w) for w in ws]}, L)
    # 6. a good definition, a rejected re-definition (every kind of defect), then parses
    for _ in range(150 if quick else 2000):
        g = gen.rand_wf_grammar(rng, False, max_nt=3, max_t=3, max_rhs=3, p_anode=0.6)
        if g is None:
            continue
        w = gen.rand_sentence(rng, g, maxlen=6) or []
        terms, rules = crg.inject(rng, g.terms, g.rules, rng.randint(4, 16))
        bad = {'terms': terms, 'rules': rules}
        tok = gen.codes_of(g, w)
        L = ['NEW 0', 'SET 0 0 %d' % rng.choice([0, 1, 2])] + yvlib.script_read(0, g.as_dict(), 0) + ['PARSE 0 0 %d %s' % (len(tok), ' '.join(map(str, tok)))]
        L += yvlib.script_read(0, bad, rng.choice([0, 1])) + ['ERR 0', 'PARSE 0 0 %d %s' % (len(tok), ' '.join(map(str, tok))), 'ERR 0']
        if rng.random() < 0.5:
            L += yvlib.script_read(0, g.as_dict(), 0) + ['PARSE 0 0 %d %s' % (len(tok), ' '.join(map(str, tok)))]
        L += ['FREEG 0', 'FREET 0 1', 'FREET 1 1', 'FREET 2 1']
        add('redefine', {'grammar': yvlib.grammar_text(g.as_dict())[:200], 'bad': yvlib.grammar_text(bad)[:200]}, L)
    # the heavy cases (tens of thousands of tokens, hundreds of contexts) get their own run with a long watchdog: on a busy
    # machine they take more than the 10 s that are plenty for everything else (a false alarm of that kind was seen once)
    heavy = [i for i, c in enumerate(cases) if c[0] in ('longrule', 'contexts')]
    light = [i for i, c in enumerate(cases) if c[0] not in ('longrule', 'contexts')]
    res = [None] * len(cases)
    for idx, to in ((light, 10 if quick else 30), (heavy, 240)):
        if idx:
            for i, r in zip(idx, yvlib.run_driver(exe, '\n'.join(cases[i][2] for i in idx), timeout_case=to, leaks=False)):
                res[i] = r
    stats = {'cases': len(cases), 'by_kind': {}, 'nonzero_codes': {}, 'max_message_length': 0}
    for (kind, info, sc), r in zip(cases, res):
        stats['by_kind'][kind] = stats['by_kind'].get(kind, 0) + 1
        chk.note_case(sc, True, dict(info, kind=kind))
        rep = {'property': 'C12', 'kind': kind, 'script': sc if len(sc) < 20000 else sc[:20000], 'implementation': r if len(json.dumps(r)) < 30000 else {'abort': r.get('abort'), 'stderr': r.get('stderr')}}
        sig = 'C12:%%s:%s' % sc[:700]
        if 'abort' in r:
            what = 'watchdog timeout' if r['abort'] == 'signal 14' else r['abort']
            chk.violation(sig % 'abort', '%s: %s %s' % (kind, what, (r.get('stderr') or [''])[:3]), rep)
            continue
        if kind == 'twice':
            # the quoted name is a prefix of the name: nothing but its character between the fixed words
            import re as _re
            for o in r['ops']:
                m_ = _re.match(r'^term (.*) described repeatedly with different code$', o.get('em') or '', _re.S)
                if o.get('op') == 'err' and m_ and (set(m_.group(1)) - {info['char']} or len(m_.group(1)) > info['name_length']):
                    chk.violation(sig % 'quoted', 'the message quotes %r (%d characters) for a terminal named %d x %r' % (
                        m_.group(1)[:120], len(m_.group(1)), info['name_length'], info['char']), rep)
                    break
        for o in r['ops']:
            if 'emlen' in o:
                stats['max_message_length'] = max(stats['max_message_length'], o['emlen'])
                if o['emlen'] > 200:
                    chk.violation(sig % 'message', 'error message of %d characters does not fit its buffer' % o['emlen'], rep)
                    break
            if o.get('rc'):
                stats['nonzero_codes'][str(o['rc'])] = stats['nonzero_codes'].get(str(o['rc']), 0) + 1
                if not (1 <= o['rc'] <= 17):
                    chk.violation(sig % 'code', 'undocumented return code %d' % o['rc'], rep)
                    break
    # a parse with dynamic lookahead and more than 512 terminal sets in which one big memory request fails, then the same
    # parse again on the same object: the tables of the grammar must have stayed consistent (the later call must not crash)
    try:
        exe_f = yvlib.build_impl('fault')
    except yvlib.BuildError as e:
        chk.obl['broken'].append('implementation (fault build) does not build: ' + str(e)[-800:])
        return chk.finish(extra_cov={'stream': stats})
    nb_ = 560
    terms = [('x', 1)] + [('a%d' % i, 10 + i) for i in range(nb_)] + [('t%d' % i, 1000 + i) for i in range(nb_)]
    rules = [('S', [], None, 0, None), ('S', ['S', 'P'], None, 0, None), ('X', ['x'], None, 0, None)] + [('P', ['a%d' % i, 'X', 't%d' % i], None, 0, None) for i in range(nb_)]
    toks = []
    for i in range(nb_):
        toks += [10 + i, 1, 1000 + i]

    def fcase(k):
        return '\n'.join(['CASE ft%d' % k, 'NEW 0', 'SET 0 0 2'] + yvlib.script_read(0, {'terms': terms, 'rules': rules}, 0) +
                         ['COUNTERS', 'FAILBIG %d 4000' % k, 'PARSE 0 0 %d %s' % (len(toks), ' '.join(map(str, toks))), 'COUNTERS', 'FAILBIG -1 0',
                          'PARSE 0 0 %d %s' % (len(toks), ' '.join(map(str, toks))), 'FREEG 0', 'END'])
    b = yvlib.run_driver(exe_f, fcase(-1), timeout_case=120)[0]
    cs = [o for o in b.get('ops', []) if o['op'] == 'counters']
    nbig = cs[1]['big'] if len(cs) > 1 else 0
    ks = list(range(1, nbig + 1))
    if quick and len(ks) > 48:
        ks = sorted(rng.sample(ks, 48))
    fres = yvlib.run_driver(exe_f, '\n'.join(fcase(k) for k in ks), timeout_case=120) if ks else []
    stats['big_requests_of_the_context_parse'] = nbig
    stats['failing_big_requests_tried'] = len(ks)
    for k, r in zip(ks, fres):
        chk.note_case(('faultthen', k), True, {'kind': 'faultthen', 'failing_big_request': k})
        ps_ = [o for o in r.get('ops', []) if o['op'] == 'parse']
        if 'abort' in r and len(ps_) >= 1:
            # the first parse returned: the crash is in the later, fault-free call
            chk.violation('C12:faultthen:k=%d' % k, 'after a parse in which big memory request %d failed (returned %s) the next parse on the same object: %s %s' % (
                k, ps_[0].get('rc'), r.get('abort'), (r.get('stderr') or [''])[:2]), {'property': 'C12', 'kind': 'faultthen', 'failing_big_request': k,
                'grammar': 'S : | S P ; X : x ; P : a_i X t_i (i < %d), lookahead level 2' % nb_, 'implementation': {'abort': r.get('abort'), 'stderr': r.get('stderr')}})
    chk.cov['rule'] = ('arbitrary byte strings and mutated descriptions (exact-size buffers); callback grammars with 199-1000 character names and injected defects (every '
                       'message site); 63-300 terminals with sparse / dense codes and token codes below, between, above the declared ones and INT_MAX; arbitrary values of all six '
                       'settings; all under ASan/UBSan with a 30 s watchdog')
    return chk.finish(extra_cov={'stream': stats})
