"""Check C12: no crash, hang or undefined behaviour within the API
preconditions.  Dedicated stream (arbitrary byte strings as descriptions, very
long names at every error message site, hundreds of symbols, sparse and dense
codes, undeclared / huge token codes, arbitrary flag values); every case runs
under ASan/UBSan with a watchdog; failures may be reported only through return
codes and the message must fit its buffer."""
import json, os, sys
import yvlib, gen
from yvlib import NIL, hx
from checklib import Check
import check_description as cd
import check_readgrammar as crg

INT_MAX = 2147483647


def long_name(rng, n=None):
    n = n or rng.choice([199, 200, 201, 250, 300, 1000])
    return ''.join(rng.choice('abcXYZ_09') for _ in range(n))


def run(pid, tier, seed, replay=None):
    chk = Check(pid, tier, seed)
    chk.coq(extra_files=['Messages'])
    try:
        exe = yvlib.build_impl('c')
    except yvlib.BuildError as e:
        chk.obl['broken'].append('implementation does not build: ' + str(e)[-800:])
        return chk.finish()
    quick = tier == 'quick'
    rng = chk.rng
    cases = []     # (kind, info, script)
    n = 0

    def add(kind, info, lines):
        nonlocal n
        cid = 'r%d' % n
        n += 1
        cases.append((kind, info, '\n'.join(['CASE ' + cid] + lines + ['END'])))
    # 1. byte strings as descriptions
    for _ in range(600 if quick else 8000):
        r = rng.random()
        if r < 0.3:
            t = bytes(rng.randrange(1, 256) for _ in range(rng.randint(0, 60))).decode('latin-1')
        else:
            tdecl, rules = cd.rand_desc_grammar(rng)
            t = cd.print_desc(rng, tdecl, rules)
            for _ in range(rng.randint(1, 4)):
                t = cd.mutate_text(rng, t)
            if rng.random() < 0.2:
                t += rng.choice(["'", "/*", "/", "TERM x=99999999999999999999", "a : # n 99999999999 ()", "'a", "\x80 : 'a' ;", "x : '\xff' ;",
                                 "TERM y=2147483648;", "TERM y=2147483649", "b : # 2147483648 ;", "b : # n 2147483649 (0)", "TERM y=2147483647;"])
        add('text', {'text': t[:200]}, ['NEW 0', 'SET 0 4 %d' % rng.choice([0, 1]), 'DESC 0 %d %s' % (rng.choice([0, 1]), hx(t)), 'ERR 0',
                                        'PARSE 0 0 2 %d %d' % (rng.randrange(0, 300), rng.randrange(0, 300)), 'FREEG 0', 'FREET 0 0'])
    # 2. very long names at every message site (defect injections with long names)
    for _ in range(400 if quick else 5000):
        strict = rng.random() < 0.5
        g = gen.rand_wf_grammar(rng, strict, max_nt=3, max_t=3, max_rhs=3, err_rules=rng.choice([0, 1]))
        if g is None:
            continue
        ren = {}
        for nm in [t for t, c in g.terms] + g.nts:
            if rng.random() < 0.5:
                ren[nm] = long_name(rng)
        terms = [(ren.get(t, t), c) for t, c in g.terms]
        rules = [(ren.get(l, l), [ren.get(s, s) for s in r], (long_name(rng) if (a is not None and rng.random() < 0.3) else a), c, t) for (l, r, a, c, t) in g.rules]
        for _ in range(rng.choice([0, 1, 1, 2])):
            terms, rules = crg.inject(rng, terms, rules, rng.randint(4, 16))
        gd = {'terms': terms, 'rules': rules}
        tok = [c for nm, c in terms if c >= 0][:3] or [0]
        w = gen.rand_sentence(rng, g, maxlen=6)
        if w is not None and rng.random() < 0.7:
            cm = dict(g.terms)
            tok = [cm[x] for x in w]
        add('longnames', {'grammar': yvlib.grammar_text(gd)[:300]}, ['NEW 0', 'SET 0 2 %d' % rng.choice([0, 1]), 'SET 0 3 %d' % rng.choice([0, 0, 1])] +
            yvlib.script_read(0, gd, 1 if strict else 0) +
            ['ERR 0', 'PARSE 0 0 %d %s' % (len(tok), ' '.join(map(str, tok))), 'ERR 0', 'FREEG 0', 'FREET 0 0'])
    # 2b. grammars with a nonterminal deriving itself, defined without strict checking, all parses requested:
    #     they must be rejected (tree construction would not terminate)
    for _ in range(60 if quick else 600):
        g = gen.rand_wf_grammar(rng, False, max_nt=3, max_t=2, max_rhs=3)
        if g is None:
            continue
        w = gen.rand_sentence(rng, g, maxlen=5)
        if w is None:
            continue
        terms, rules = crg.inject(rng, g.terms, g.rules, 16)
        gd = {'terms': terms, 'rules': rules}
        cm = dict(g.terms)
        tok = [cm[x] for x in w]
        add('cyclic', {'grammar': yvlib.grammar_text(gd)[:300], 'tokens': w}, ['NEW 0', 'SET 0 2 0', 'SET 0 3 %d' % rng.choice([0, 1])] +
            yvlib.script_read(0, gd, 0) + ['PARSE 0 0 %d %s' % (len(tok), ' '.join(map(str, tok))), 'FREEG 0', 'FREET 0 0'])
    # 3. many symbols, sparse and dense codes, undeclared / huge / gap token codes
    for _ in range(60 if quick else 600):
        nt = rng.choice([63, 64, 65, 100, 129, 300])
        sparse = rng.random() < 0.5
        if sparse:
            codes = sorted(rng.sample(range(0, 20000), nt))
        else:
            base = rng.choice([0, 1, 250])
            codes = [base + 2 * i if rng.random() < 0.5 else base + i for i in range(nt)]
            codes = sorted(set(codes))
        terms = [('t%d' % i, c) for i, c in enumerate(codes)]
        nn = rng.choice([1, 5, 70, 130])
        rules = [('S', ['L'], None, 0, [0]), ('L', ['L', 'I'], 'l', 0, [0, 1]), ('L', ['I'], None, 0, [0])]
        for j in range(nn):
            rules.append(('I', ['X%d' % j], None, 0, [0]))
            rules.append(('X%d' % j, [rng.choice(terms)[0] for _ in range(rng.randint(1, 3))], 'x%d' % j, 0, [0]))
        gd = {'terms': terms, 'rules': rules}
        L = ['NEW 0', 'SET 0 0 %d' % rng.choice([0, 1, 2])] + yvlib.script_read(0, gd, 0)
        for _ in range(4):
            toks = [rng.choice(codes) for _ in range(rng.randint(0, 30))]
            r = rng.random()
            if r < 0.6:
                bad = rng.choice([codes[0] - 1 if codes[0] > 0 else 7, codes[-1] + 1, INT_MAX, codes[0] + 1, (codes[0] + codes[-1]) // 2, 10 ** 9, 0, 1])
                toks.insert(rng.randrange(len(toks) + 1), bad)
            L.append('PARSE 0 %d %d %s' % (rng.choice([0, 1]), len(toks), ' '.join(map(str, toks))))
        L += ['FREEG 0'] + ['FREET %d 1' % k for k in range(4)]
        add('manysymbols', {'terminals': nt, 'sparse': sparse, 'nonterminals': nn + 3}, L)
    # 4. arbitrary flag values
    ge = {'terms': [('a', 97), ('+', 43), ('(', 40), (')', 41)],
          'rules': [('E', ['E', '+', 'E'], 'plus', 1, [0, 2]), ('E', ['a'], None, 0, [0]), ('E', ['(', 'E', ')'], None, 0, [1]), ('E', ['(', 'error', ')'], 'err', 0, [])]}
    for _ in range(150 if quick else 2000):
        L = ['NEW 0'] + yvlib.script_read(0, ge, 0)
        for i in range(6):
            if rng.random() < 0.7:
                v = rng.choice([0, 1, -1, 2, 3, 7, INT_MAX, -INT_MAX - 1, 100, -100])
                if i == 1:
                    v = rng.choice([0, 1, 2, 3, 4, 5, 6, 7, -1, -5, INT_MAX, -INT_MAX - 1])
                L.append('SET 0 %d %d' % (i, v))
        toks = [rng.choice([97, 43, 40, 41]) for _ in range(rng.randint(0, 9))]
        L += ['PARSE 0 %d %d %s' % (rng.choice([0, 1, 2]), len(toks), ' '.join(map(str, toks))), 'ERR 0', 'FREEG 0', 'FREET 0 1']
        add('flags', {'script': L[1 + 7:][:8]}, L)
    # 5. several parses on one object, trees released in between and read afterwards
    for _ in range(120 if quick else 1500):
        g = gen.family_grammar(rng) if rng.random() < 0.5 else gen.rand_wf_grammar(rng, False, max_nt=3, max_t=3, max_rhs=3, p_anode=0.8, err_rules=rng.choice([0, 1]))
        if g is None or not g.well_formed(False):
            continue
        ws = [w for w in (gen.rand_sentence(rng, g, maxlen=7) for _ in range(3)) if w is not None]
        if not ws:
            continue
        ws = [w if rng.random() < 0.7 else gen.mutate(rng, g, w, 1) for w in ws]
        am = rng.choice([0, 0, 1])
        L = ['NEW 0', 'SET 0 0 %d' % rng.choice([0, 1, 2]), 'SET 0 2 %d' % rng.choice([0, 1]), 'SET 0 3 %d' % rng.choice([0, 0, 1])] + yvlib.script_read(0, g.as_dict(), 0)
        for k, w in enumerate(ws):
            L.append('PARSE 0 %d %d %s' % (am, len(w), ' '.join(map(str, gen.codes_of(g, w)))))
            if k > 0 and rng.random() < 0.8:
                L.append('FREET %d 1' % (k - 1))
            L.append('WALK %d' % k)
        L += ['FREEG 0'] + ['WALK %d' % (len(ws) - 1)] + ['FREET %d 1' % k for k in range(len(ws))]
        add('reparse', {'grammar': yvlib.grammar_text(g.as_dict())[:300], 'inputs': [' '.join(w) for w in ws]}, L)
    # 6. a good definition, a rejected re-definition (every kind of defect), then parses
    for _ in range(150 if quick else 2000):
        g = gen.rand_wf_grammar(rng, False, max_nt=3, max_t=3, max_rhs=3, p_anode=0.6)
        if g is None:
            continue
        w = gen.rand_sentence(rng, g, maxlen=6) or []
        terms, rules = crg.inject(rng, g.terms, g.rules, rng.randint(4, 16))
        bad = {'terms': terms, 'rules': rules}
        tok = gen.codes_of(g, w)
        L = ['NEW 0', 'SET 0 0 %d' % rng.choice([0, 1, 2])] + yvlib.script_read(0, g.as_dict(), 0) + ['PARSE 0 0 %d %s' % (len(tok), ' '.join(map(str, tok)))]
        L += yvlib.script_read(0, bad, rng.choice([0, 1])) + ['ERR 0', 'PARSE 0 0 %d %s' % (len(tok), ' '.join(map(str, tok))), 'ERR 0']
        if rng.random() < 0.5:
            L += yvlib.script_read(0, g.as_dict(), 0) + ['PARSE 0 0 %d %s' % (len(tok), ' '.join(map(str, tok)))]
        L += ['FREEG 0', 'FREET 0 1', 'FREET 1 1', 'FREET 2 1']
        add('redefine', {'grammar': yvlib.grammar_text(g.as_dict())[:200], 'bad': yvlib.grammar_text(bad)[:200]}, L)
    res = yvlib.run_driver(exe, '\n'.join(c[2] for c in cases), timeout_case=10 if quick else 30, leaks=False)
    stats = {'cases': len(cases), 'by_kind': {}, 'nonzero_codes': {}, 'max_message_length': 0}
    for (kind, info, sc), r in zip(cases, res):
        stats['by_kind'][kind] = stats['by_kind'].get(kind, 0) + 1
        chk.note_case(sc, True, dict(info, kind=kind))
        rep = {'property': 'C12', 'kind': kind, 'script': sc if len(sc) < 20000 else sc[:20000], 'implementation': r if len(json.dumps(r)) < 30000 else {'abort': r.get('abort'), 'stderr': r.get('stderr')}}
        sig = 'C12:%%s:%s' % sc[:700]
        if 'abort' in r:
            what = 'watchdog timeout' if r['abort'] == 'signal 14' else r['abort']
            chk.violation(sig % 'abort', '%s: %s %s' % (kind, what, (r.get('stderr') or [''])[:3]), rep)
            continue
        for o in r['ops']:
            if 'emlen' in o:
                stats['max_message_length'] = max(stats['max_message_length'], o['emlen'])
                if o['emlen'] > 200:
                    chk.violation(sig % 'message', 'error message of %d characters does not fit its buffer' % o['emlen'], rep)
                    break
            if o.get('rc'):
                stats['nonzero_codes'][str(o['rc'])] = stats['nonzero_codes'].get(str(o['rc']), 0) + 1
                if not (1 <= o['rc'] <= 17):
                    chk.violation(sig % 'code', 'undocumented return code %d' % o['rc'], rep)
                    break
    chk.cov['rule'] = ('arbitrary byte strings and mutated descriptions (exact-size buffers); callback grammars with 199-1000 character names and injected defects (every '
                       'message site); 63-300 terminals with sparse / dense codes and token codes below, between, above the declared ones and INT_MAX; arbitrary values of all six '
                       'settings; all under ASan/UBSan with a 30 s watchdog')
    return chk.finish(extra_cov={'stream': stats})
