"""Common skeleton of a property check: Coq obligations, implementation build,
case streams, violations, known findings, evidence."""
import os, sys, time, json, re, random, subprocess, traceback
import yvlib
from yvlib import VERIF, COQ


class Violation(Exception):
    pass


class Check:
    def __init__(self, pid, tier, seed, replay=None):
        self.pid, self.tier, self.seed, self.replay = pid, tier, seed, replay
        self.rng = random.Random(seed * 1000003 + int(pid[1:]))
        self.t0 = time.time()
        self.viol = []          # (signature, description, replay object)
        self.known_hits = {}    # finding id -> count
        self.cov = {'evaluations': 0, 'distinct_nontrivial': 0, 'samples': [], 'rule': ''}
        self.assumptions = []
        self.kf = yvlib.load_known_findings()
        self.distinct = set()
        import glob
        for f in glob.glob(os.path.join(VERIF, 'replays', pid + '_*.json')):
            os.remove(f)
        self.obl = {'obligations': 0, 'discharged': 0, 'theorems': [], 'print_assumptions': [], 'broken': []}

    # ------------------------------------------------------------------
    def coq(self, extra_files=()):
        """(Re)build Properties_<pid>.vo (and what it depends on) from the current
        working tree's facts; collect Print Assumptions."""
        ok, log = yvlib.coq_build(targets=['theories/Properties_%s.vo' % self.pid] + ['theories/%s.vo' % f for f in extra_files])
        pf = os.path.join(COQ, 'theories', 'Properties_%s.v' % self.pid)
        src = open(pf).read()
        thms = re.findall(r'^\s*(?:Theorem|Lemma|Corollary)\s+(\w+)', src, re.M)
        self.obl['theorems'] = thms
        self.obl['obligations'] = len(thms)
        self.obl['build_ok'] = ok
        if not ok:
            self.obl['broken'].append('coq build failed: ' + log[-1500:])
        # always recompile the property file itself to capture Print Assumptions
        p = yvlib.sh(['coqc', '-Q', 'theories', 'YV', 'theories/Properties_%s.v' % self.pid], cwd=COQ, check=False, timeout=900)
        out = p.stdout
        blocks = re.findall(r'(Closed under the global context|Axioms:\n(?:.+\n?)+?)(?=\n\S|\Z)', out)
        n_pa = len(re.findall(r'Closed under the global context|Axioms:', out))
        if p.returncode == 0:
            self.obl['discharged'] = min(len(thms), n_pa) if n_pa else 0
            if n_pa < len(thms):
                self.obl['broken'].append('Print Assumptions printed %d blocks for %d theorems' % (n_pa, len(thms)))
        else:
            self.obl['discharged'] = 0
            self.obl['broken'].append('coqc Properties_%s.v failed: %s' % (self.pid, (p.stdout + p.stderr)[-1500:]))
        self.obl['print_assumptions'] = sorted(set(b.strip() for b in blocks))
        self.obl['checker_cmd'] = 'make -C coq theories/Properties_%s.vo && coqc -Q theories YV theories/Properties_%s.v' % (self.pid, self.pid)
        # thorough tier: the independent checker re-checks the compiled property module and everything it depends on
        if self.tier == 'thorough' and p.returncode == 0:
            c = yvlib.sh(['coqchk', '-o', '-silent', '-Q', 'theories', 'YV', 'YV.Properties_%s' % self.pid], cwd=COQ, check=False, timeout=3000)
            summ = c.stdout[c.stdout.find('CONTEXT SUMMARY'):] if 'CONTEXT SUMMARY' in c.stdout else (c.stdout + c.stderr)[-800:]
            self.obl['coqchk'] = ' '.join(summ.split())[:600]
            if c.returncode != 0 or 'Axioms: <none>' not in ' '.join(summ.split()):
                self.obl['broken'].append('coqchk: ' + self.obl['coqchk'])
            self.obl['checker_cmd'] += ' && coqchk -o -silent -Q theories YV YV.Properties_%s' % self.pid
        # hygiene grep
        bad = yvlib.sh(['grep', '-rnE', r'\b(Admitted|admit|Axiom|Parameter|Conjecture|Unset Guard|bypass_check)\b',
                        os.path.join(COQ, 'theories'), '--include=*.v'], check=False).stdout
        bad = '\n'.join(l for l in bad.splitlines() if '(*' not in l.split(':', 2)[-1][:3])
        if bad.strip():
            self.obl['broken'].append('forbidden vernacular: ' + bad[:500])
            self.obl['discharged'] = 0
        return not self.obl['broken']

    # ------------------------------------------------------------------
    def note_case(self, key, nontrivial, sample=None):
        self.cov['evaluations'] += 1
        if nontrivial and key not in self.distinct:
            self.distinct.add(key)
            if sample is not None and len(self.cov['samples']) < 6:
                self.cov['samples'].append(sample)

    def violation(self, signature, desc, replay):
        """signature: stable string identifying the failing input / cause."""
        for k in self.kf.get('known', []):
            if k['property'] == self.pid and self._match(k, signature, replay):
                self.known_hits.setdefault(k['id'], [0, k['what']])[0] += 1
                return False
        self.viol.append((signature, desc, replay))
        return True

    @staticmethod
    def _match(k, signature, replay):
        m = k.get('match', {})
        if 'signature' in m and m['signature'] == signature:
            return True
        if 'signature_prefix' in m and signature.startswith(m['signature_prefix']):
            return True
        return False

    # ------------------------------------------------------------------
    def finish(self, extra_cov=None, level='proof'):
        wall = time.time() - self.t0
        cov = dict(self.cov)
        cov['distinct_nontrivial'] = len(self.distinct)
        cov['obligations'] = self.obl['obligations']
        cov['discharged'] = self.obl['discharged']
        cov['checker_cmd'] = self.obl.get('checker_cmd', '')
        cov['theorems'] = self.obl['theorems']
        if self.obl.get('coqchk'):
            cov['coqchk'] = self.obl['coqchk']
        cov['trusted_base'] = TRUSTED_BASE + ['Print Assumptions: ' + b for b in self.obl['print_assumptions']]
        cov['known_findings_matched'] = {k: v[0] for k, v in self.known_hits.items()}
        if extra_cov:
            cov.update(extra_cov)
        rc = 0
        lines = []
        for kid, (n, what) in sorted(self.known_hits.items()):
            lines.append('KNOWN-FINDING: property=%s %s (%s; %d cases)' % (self.pid, what, kid, n))
        nviol = 0
        if self.viol:
            # group by signature, report the first of each
            seen = set()
            for sig, desc, rep in self.viol:
                if sig in seen:
                    continue
                seen.add(sig)
                nviol += 1
                if nviol <= 5:
                    fn = yvlib.write_replay(self.pid, '%d' % nviol, dict(rep, signature=sig, description=desc))
                    lines.append('VIOLATION property=%s replay=%s' % (self.pid, fn))
            rc = 1
        elif self.obl['broken']:
            fn = yvlib.write_replay(self.pid, 'obligation', {'property': self.pid, 'broken_obligations': self.obl['broken'],
                                                             'note': 'a proof obligation / fact extraction no longer checks and the directed search found no failing input'})
            lines.append('VIOLATION property=%s replay=%s no-failing-input-found' % (self.pid, fn))
            nviol = 1
            rc = 1
        cov['broken_obligations'] = self.obl['broken']
        cov['violation_kinds'] = summarize_violations(self)
        yvlib.write_evidence(self.pid, self.tier, self.seed, cov, self.assumptions, wall, nviol, level=level)
        for l in lines:
            print(l)
        print('%s %s: evaluations=%d distinct_nontrivial=%d obligations=%d/%d wall=%.1fs -> %s' % (
            self.pid, self.tier, cov['evaluations'], cov['distinct_nontrivial'], cov['discharged'], cov['obligations'], wall,
            'VIOLATED' if rc else 'ok'))
        yvlib.cleanup()
        return rc


TRUSTED_BASE = [
    'Coq 8.16.1 kernel (coqc); vm_compute used only in Example/GeneratedChecks lemmas; no native_compute',
    'no axioms declared in the development (grep-checked on every run); Print Assumptions output listed below',
    'extraction: Require Extraction, ExtrOcamlBasic only (bool, option, list, prod, unit, sumbool to OCaml natives); no Extract Constant / Extract Inductive of our own; nat, positive, Z stay inductive',
    'OCaml 4.13.1 compiler/runtime; ocaml/oracle_main.ml (parsing of queries and printing of answers only)',
    'tools/extract_facts.py (C fact translator) and the generated coq/theories/Generated.v',
    'harness/yv_driver.c, tools/*.py (generators, comparison glue), clang 14 ASan/UBSan, bison',
    'modelled, not verified: the C code itself; the model is tied to it by the correspondence run and the generated facts',
]


def summarize_violations(chk):
    import collections
    c = collections.Counter(sig.split(':')[1] for sig, d, r in chk.viol)
    return dict(c)
