#!/usr/bin/env python3
"""Prints the markdown table of the seeded changes (seeded/*/meta.json) for DESIGN.md."""
import json, glob, os
rows = []
for m in sorted(glob.glob(os.path.join(os.path.dirname(os.path.abspath(__file__)), '..', 'seeded', '*', 'meta.json'))):
    d = json.load(open(m))
    rows.append('| %s | %s | %s |' % (d['id'], (d.get('needs_to_manifest') or '').replace('|', '/').replace('\n', ' ')[:160], (d.get('detected_by') or '').replace('|', '/')))
print('| change | needs to manifest | detected by |\n|---|---|---|')
print('\n'.join(rows))
