#!/usr/bin/env python3
"""usage: seedtest.py <patch.diff> <pid> [<pid>...]
Applies a seeded change to /repo's working tree, runs the quick checks, and
always restores the tree (git checkout -- .)."""
import sys, subprocess, os
patch = os.path.abspath(sys.argv[1])
pids = sys.argv[2:]
st = subprocess.run(['git', '-C', '/repo', 'status', '--porcelain', '--untracked-files=no'], capture_output=True, text=True).stdout
if st.strip():
    print('REFUSING: /repo working tree is not clean:\n' + st); sys.exit(2)
r = subprocess.run(['git', '-C', '/repo', 'apply', patch], capture_output=True, text=True)
if r.returncode != 0:
    r = subprocess.run(['git', '-C', '/repo', 'apply', '--3way', patch], capture_output=True, text=True)
    if r.returncode != 0:
        print('PATCH DOES NOT APPLY', r.stderr[-500:]); subprocess.run(['git', '-C', '/repo', 'reset', '-q', '--hard', 'HEAD']); sys.exit(3)
    subprocess.run(['git', '-C', '/repo', 'reset', '-q'])
# the evidence files are rewritten by every run: keep those of the unchanged tree
import shutil, tempfile
_bak = tempfile.mkdtemp(prefix='yv_evid_')
for pid in pids:
    f = '/verif/evidence/%s.json' % pid
    if os.path.exists(f):
        shutil.copy(f, _bak)
try:
    for pid in pids:
        p = subprocess.run(['./check', pid, '--tier', 'quick'], cwd='/verif', capture_output=True, text=True, timeout=3000)
        lines = [l for l in p.stdout.splitlines() if not l.startswith('KNOWN-FINDING')]
        print('%s rc=%d :: %s' % (pid, p.returncode, ' | '.join(l[:160] for l in lines[-3:])))
finally:
    subprocess.run(['git', '-C', '/repo', 'reset', '-q', '--hard', 'HEAD'])
    for pid in pids:
        b = os.path.join(_bak, '%s.json' % pid)
        if os.path.exists(b):
            shutil.copy(b, '/verif/evidence/%s.json' % pid)
    shutil.rmtree(_bak, ignore_errors=True)
