#!/bin/bash
# usage: seed_confirm.sh <patch> <run_demo.sh>   -- confirm a seeded change in a scratch worktree of /repo HEAD
P=$(readlink -f "$1"); D=$(readlink -f "$2")
W=$(mktemp -d /tmp/seedwt_XXXXXX); rmdir $W
git -C /repo worktree add --detach $W HEAD >/dev/null 2>&1 || { echo "worktree failed"; exit 2; }
cleanup() { cd /; git -C /repo worktree remove --force "$W" >/dev/null 2>&1; rm -rf "$W"; }
trap cleanup EXIT
cd $W
bash $D $W/src >/tmp/seed_demo_clean.log 2>&1; c=$?
if ! git apply $P 2>/dev/null; then
  if ! git apply --3way $P >/dev/null 2>&1; then echo "RESULT patch-does-not-apply demo_clean=$c"; exit 3; fi
fi
cmake -G Ninja -B _build >/dev/null 2>&1; cmake --build _build -- -k 0 >/dev/null 2>&1; cmake --build _build -- -k 0 >/dev/null 2>&1
t=$(ctest --test-dir _build -j8 --timeout 900 -R '^yaep(\+\+)?-test' 2>&1 | grep -E "tests passed")
rm -rf _build
bash $D $W/src >/tmp/seed_demo_patched.log 2>&1; p=$?
echo "RESULT demo_clean=$c demo_patched=$p tests: $t"
