"""Generators of grammars, inputs and configurations (all random choices come
from one random.Random seeded from VERIF_SEED) and the encoding of python-side
grammars for the oracle."""
import random, itertools
from yvlib import NIL

TNAMES = ['a', 'b', 'c', 'd', 'e', 'f']
NNAMES = ['S', 'A', 'B', 'C', 'D', 'E', 'F', 'G']


class Gram:
    """python-side grammar: terminals [(name, code)], rules [(lhs, rhs, anode, cost, transl)];
    start = lhs of the first rule."""

    def __init__(self, terms, rules):
        self.terms = list(terms)
        self.rules = list(rules)
        self.tnum = {n: i for i, (n, c) in enumerate(self.terms)}
        self.nts = []
        for lhs, rhs, an, c, tr in self.rules:
            for s in [lhs] + list(rhs):
                if s not in self.tnum and s not in self.nts:
                    self.nts.append(s)
        self.nnum = {n: i for i, n in enumerate(self.nts)}

    def as_dict(self):
        return {'terms': self.terms, 'rules': self.rules}

    def start(self):
        return self.rules[0][0]

    # ---- analysis (generator side only; never used as an oracle) ----
    def nullable(self):
        nl = set()
        ch = True
        while ch:
            ch = False
            for lhs, rhs, *_ in self.rules:
                if lhs not in nl and all(s in nl for s in rhs):
                    nl.add(lhs); ch = True
        return nl

    def productive(self):
        pr = set(self.tnum) | {'error'}      # the reserved terminal, declared by the library itself
        ch = True
        while ch:
            ch = False
            for lhs, rhs, *_ in self.rules:
                if lhs not in pr and all(s in pr for s in rhs):
                    pr.add(lhs); ch = True
        return pr

    def reachable(self):
        re = {self.start()}
        ch = True
        while ch:
            ch = False
            for lhs, rhs, *_ in self.rules:
                if lhs in re:
                    for s in rhs:
                        if s not in re:
                            re.add(s); ch = True
        return re

    def has_loop(self):
        nl = self.nullable()
        edges = {}
        for lhs, rhs, *_ in self.rules:
            for i, s in enumerate(rhs):
                if s in self.nnum and all(x in nl for j, x in enumerate(rhs) if j != i):
                    edges.setdefault(lhs, set()).add(s)
        # cycle detection
        color = {}

        def dfs(u):
            color[u] = 1
            for v in edges.get(u, ()):
                if color.get(v) == 1:
                    return True
                if v not in color and dfs(v):
                    return True
            color[u] = 2
            return False
        return any(u not in color and dfs(u) for u in list(edges))

    def well_formed(self, strict):
        if not self.rules:
            return False
        pr = self.productive()
        if self.has_loop():
            return False
        lhss = {r[0] for r in self.rules}
        if strict:
            re = self.reachable()
            for n in self.nts:
                if n not in pr or n not in re:
                    return False
            return True
        return self.start() in pr

    # ---- oracle encoding ----
    def enc_sym(self, s):
        return 2 * self.tnum[s] if s in self.tnum else 2 * self.nnum[s] + 1

    def enc_rules(self, names, extra_rules=()):
        """names: dict anode-name -> id (extended in place)."""
        out = []
        rules = list(self.rules) + list(extra_rules)
        out.append(len(rules))
        for lhs, rhs, an, cost, tr in rules:
            out.append(self.nnum[lhs]); out.append(len(rhs))
            out += [self.enc_sym(s) for s in rhs]
            if an is None:
                out += [0, 0]
            else:
                out += [names.setdefault(an, len(names)) + 1, cost]
            tr = tr or []
            out.append(len(tr))
            out += [0 if x == NIL else x + 1 for x in tr]
        return out


def rand_transl(rng, nrhs, with_anode):
    if with_anode:
        k = rng.choice([0, 1, 1, 2, 2, 3, 4])
        idx = list(range(nrhs))
        rng.shuffle(idx)
        tr = []
        for _ in range(k):
            if idx and rng.random() < 0.75:
                tr.append(idx.pop())
            else:
                tr.append(NIL)
        if rng.random() < 0.1:
            return None
        return tr
    r = rng.random()
    if r < 0.3 or nrhs == 0 and r < 0.6:
        return None
    if r < 0.4:
        return []
    if r < 0.5:
        return [NIL]
    if nrhs == 0:
        return None
    return [rng.randrange(nrhs)]


def rand_grammar(rng, max_nt=4, max_t=3, max_rules_per=3, max_rhs=4, err_rules=0, p_anode=0.6,
                 costs=(0, 5), sparse_codes=False, p_empty=0.0, p_unit=0.0):
    nt = rng.randint(1, max_nt)
    t = rng.randint(1, max_t)
    tn = TNAMES[:t]
    if sparse_codes:
        codes = sorted(rng.sample(range(0, 400), t))
    else:
        base = rng.choice([97, 0, 256, 1])
        codes = [base + i for i in range(t)]
    terms = list(zip(tn, codes))
    nn = NNAMES[:nt]
    rules = []
    nid = [0]

    def mk_rule(lhs, allow_err=False):
        ln = rng.choice([0, 1, 1, 2, 2, 2, 3, 3, 4][:2 + max_rhs * 2])
        ln = min(ln, max_rhs)
        r0 = rng.random()
        if r0 < p_empty:
            ln = 0
        elif r0 < p_empty + p_unit and not allow_err:
            # unit rule passing its symbol through (or not translating it)
            sym = rng.choice(nn)
            return (lhs, [sym], None, 0, rng.choice([[0], [0], [0], None, [NIL]]))
        rhs = []
        for _ in range(ln):
            if rng.random() < 0.5:
                rhs.append(rng.choice(tn))
            else:
                rhs.append(rng.choice(nn))
        if allow_err:
            pos = rng.randrange(len(rhs) + 1)
            rhs.insert(pos, 'error')
        if rng.random() < p_anode:
            nid[0] += 1
            an = 'n%d' % nid[0]
            cost = rng.randint(*costs)
            tr = rand_transl(rng, len(rhs), True)
        else:
            an, cost = None, 0
            tr = rand_transl(rng, len(rhs), False)
        return (lhs, rhs, an, cost, tr)
    for n in nn:
        for _ in range(rng.randint(1, max_rules_per)):
            rules.append(mk_rule(n))
    for _ in range(err_rules):
        rules.append(mk_rule(rng.choice(nn), allow_err=True))
    # make sure the first rule's lhs is nn[0]
    return Gram(terms, rules)


def rand_wf_grammar(rng, strict, tries=200, **kw):
    for _ in range(tries):
        g = rand_grammar(rng, **kw)
        g2 = Gram(g.terms + [('error', -2)], g.rules) if kw.get('err_rules') else g
        if g2.well_formed(strict):
            return g
    return None


def rand_sentence(rng, g, maxlen=8, depth=12, allow_error=False):
    """Random derivation from the start symbol; returns list of terminal names or None."""
    pr = g.productive()
    by = {}
    for r in g.rules:
        by.setdefault(r[0], []).append(r)

    INF = 10 ** 6
    minh = {t: 0 for t in g.tnum}
    minh['error'] = 0
    ch = True
    while ch:
        ch = False
        for lhs, rhs, *_ in g.rules:
            h = 1 + max([minh.get(s, INF) for s in rhs] + [0])
            if h < minh.get(lhs, INF):
                minh[lhs] = h; ch = True

    def rule_h(r):
        return max([minh.get(s, INF) for s in r[1]] + [0])

    def expand(sym, d):
        if sym in g.tnum or sym == 'error':
            return [sym]
        rs = [r for r in by.get(sym, []) if rule_h(r) < INF]
        if not rs:
            return None
        if d <= 0:
            rs = sorted(rs, key=rule_h)[:1]
        r = rng.choice(rs)
        out = []
        for s in r[1]:
            e = expand(s, d - 1)
            if e is None:
                return None
            out += e
            if len(out) > maxlen:
                return None
        return out
    for _ in range(20):
        w = expand(g.start(), depth)
        if w is not None and len(w) <= maxlen and (allow_error or 'error' not in w):
            return w
    return None


def mutate(rng, g, w, n=1):
    w = list(w)
    tn = [t for t, c in g.terms]
    for _ in range(n):
        op = rng.choice(['ins', 'del', 'sub']) if w else 'ins'
        if op == 'ins':
            w.insert(rng.randrange(len(w) + 1), rng.choice(tn))
        elif op == 'del':
            del w[rng.randrange(len(w))]
        else:
            w[rng.randrange(len(w))] = rng.choice(tn)
    return w


def all_strings(g, maxlen):
    tn = [t for t, c in g.terms]
    for L in range(maxlen + 1):
        for tup in itertools.product(tn, repeat=L):
            yield list(tup)


def codes_of(g, w):
    m = dict(g.terms)
    return [m[t] for t in w]


def count_derivations(g, w, big=10 ** 6):
    """max over (nonterminal, span) of the number of derivation trees (capped at big).
    Untrusted estimate, used only to keep explosive cases away from the enumerating oracle."""
    n = len(w)
    rules = g.rules
    c = {}

    def sym(s, i, j):
        if s in g.tnum:
            return 1 if j == i + 1 and w[i] == s else 0
        return c.get((s, i, j), 0)

    def rhs(ss, i, j):
        if not ss:
            return 1 if i == j else 0
        if len(ss) == 1:
            return sym(ss[0], i, j)
        tot = 0
        for k in range(i, j + 1):
            a = sym(ss[0], i, k)
            if a:
                tot += a * rhs(ss[1:], k, j)
                if tot > big:
                    return big
        return tot
    mx = 0
    for L in range(n + 1):
        for i in range(n - L + 1):
            j = i + L
            for _ in range(len(g.nts) + 3):
                ch = False
                for x in g.nts:
                    v = 0
                    for lhs, r, *_ in rules:
                        if lhs == x:
                            v += rhs(list(r), i, j)
                    v = min(v, big)
                    if c.get((x, i, j), 0) != v:
                        c[(x, i, j)] = v
                        ch = True
                if not ch:
                    break
            for x in g.nts:
                mx = max(mx, c.get((x, i, j), 0))
    return mx


FAMILIES = ['split', 'shared', 'ops', 'nullable', 'chains', 'stmts', 'deepchains', 'errafter', 'nullprefix', 'nulltail', 'blocks']


def family_grammar(rng, costs=(0, 5), fam=None):
    """Hand-shaped ambiguous families with random translation specifications:
    split families (several nonterminals in one rule, each with several lengths),
    shared-subtree families, operator families, nullable families."""
    if fam is None:
        fam = rng.choice(['split', 'split', 'shared', 'ops', 'nullable', 'chains', 'chains', 'stmts', 'stmts', 'deepchains', 'deepchains', 'errafter'])
    nid = [0]

    def an():
        nid[0] += 1
        return 'f%d' % nid[0]

    def cst():
        return rng.randint(*costs)

    def perm_tr(n, k=None):
        idx = list(range(n))
        rng.shuffle(idx)
        k = rng.randint(1, n) if k is None else k
        tr = idx[:k]
        if rng.random() < 0.3:
            tr.insert(rng.randrange(len(tr) + 1), NIL)
        return tr
    rules = []
    if fam == 'split':
        k = rng.choice([2, 2, 3])
        xs = NNAMES[1:1 + k]
        tail = rng.choice([[], ['c'], ['c']])
        rhs = xs + tail
        rules.append(('S', rhs, an(), cst(), perm_tr(len(rhs), rng.choice([len(rhs), len(rhs), None]))))
        for x in xs:
            style = rng.choice(['anode', 'anode', 'plain', 'pass', 'twin'])
            if style == 'twin':
                # two rules over the same span that differ in cost (and name) only, plus the longer alternative
                body = rng.choice([['a'], ['a'], ['a', 'a']])
                rules.append((x, list(body), an(), cst(), rng.choice([[0], []])))
                rules.append((x, list(body), an(), cst(), rng.choice([[0], []])))
                if rng.random() < 0.5:
                    rules.append((x, ['a', 'a'] if body == ['a'] else ['a'], an(), cst(), []))
            elif style == 'anode':
                rules.append((x, ['a'], an(), cst(), rng.choice([[0], []])))
                rules.append((x, ['a', 'a'], an(), cst(), rng.choice([[0, 1], [1, 0], [1], []])))
            elif style == 'plain':
                rules.append((x, ['a'], None, 0, None))
                rules.append((x, ['a', 'a'], None, 0, None))
            else:
                rules.append((x, ['a'], None, 0, [0]))
                rules.append((x, ['a', 'a'], None, 0, [rng.randrange(2)]))
            if rng.random() < 0.3:
                rules.append((x, [], rng.choice([None, an()]), 0, None))
        terms = [('a', 97), ('c', 99)]
    elif fam == 'shared':
        rules.append(('S', ['P'], None, 0, [0]))
        rules.append(('S', ['Q'], None, 0, [0]))
        rules.append(('P', ['A'] + rng.choice([[], ['A']]), an(), cst(), [0]))
        rules.append(('Q', ['A'], an(), cst(), [0]))
        rules.append(('A', ['B', 'B'], an(), cst(), perm_tr(2, 2)))
        rules.append(('B', ['a'], an(), cst(), rng.choice([[], [0]])))
        rules.append(('B', ['a', 'a'], an(), cst(), rng.choice([[], [0, 1]])))
        terms = [('a', 97)]
    elif fam == 'ops':
        ops = rng.sample(['+', '*', '-'], rng.randint(1, 3))
        for o in ops:
            rules.append(('E', ['E', o, 'E'], an(), cst(), rng.choice([[0, 2], [2, 0], [0, 1, 2], [0]])))
        if rng.random() < 0.5:
            rules.append(('E', ['(', 'E', ')'], None, 0, [1]))
        rules.append(('E', ['a'], rng.choice([None, an()]), cst(), [0]))
        if rng.random() < 0.35:
            # an optional (nullable) tail after a recursive rule: the same dotted rule before the
            # nullable symbol is in one set with several origins
            o = rng.choice(ops)
            rules.insert(rng.randrange(len(rules)), ('E', ['E', o, 'E', 'O'], an(), cst(), rng.choice([[0, 2], [0, 2, 3], [2, 0]])))
            rules.append(('O', [], rng.choice([None, an()]), 0, None))
            rules.append(('O', ['b'], rng.choice([None, an()]), 0, [0]))
        terms = [('a', 97), ('+', 43), ('*', 42), ('-', 45), ('(', 40), (')', 41), ('b', 98)]
    elif fam == 'stmts':
        # statements with optional (nullable) trailing parts: what may follow a nonterminal
        # is decided by the context of the enclosing rule
        if rng.random() < 0.5:
            rules.append(('P', ['P', 'S'], an(), cst(), [0, 1]))
            rules.append(('P', ['S'], None, 0, [0]))
        else:
            rules.append(('P', ['S'], None, 0, [0]))
        rules.append(('S', ['l', 'C', ';'], an(), cst(), [1]))
        if rng.random() < 0.5:
            rules.append(('S', ['k', ';'], an(), cst(), []))
        if rng.random() < 0.4:
            rules.append(('S', ['error', ';'], an(), cst(), []))
        opt = rng.randint(1, 3)
        rules.append(('C', ['N'] + ['O%d' % j for j in range(opt)], an(), cst(), [0] + ([1] if rng.random() < 0.5 else [])))
        rules.append(('N', ['i'], None, 0, [0]))
        for j in range(opt):
            rules.append(('O%d' % j, [rng.choice(['a', 'b'])], an(), cst(), [0]))
            rules.append(('O%d' % j, [], None, 0, None))
        terms = [('l', 108), ('k', 107), (';', 59), ('i', 105), ('a', 97), ('b', 98)]
    elif fam == 'chains':
        # alternatives reaching one shared nonterminal through different unit chains,
        # told apart only by the terminal that follows (exercises lookahead contexts)
        k = rng.randint(2, 4)
        rules.append(('L', ['X'], None, 0, [0]))
        rules.append(('L', ['L', 'X'], an(), cst(), [0, 1]))
        heads = ['C', 'P', 'Q']
        sufs = ['a', 'b', 'c', 'd']
        order = list(range(k))
        rng.shuffle(order)
        for i in order:
            h = rng.choice(heads)
            rules.append(('X', [h, sufs[i]], an(), cst(), [0]))
        rules.append(('P', ['C'], None, 0, rng.choice([[0], None])))
        rules.append(('Q', [rng.choice(['P', 'C'])], None, 0, [0]))
        if rng.random() < 0.5:
            rules.append(('Q', ['C'], None, 0, [0]))
        rules.append(('C', ['t'], rng.choice([None, an()]), 0, [0]))
        if rng.random() < 0.4:
            rules.append(('C', ['t', 'u'], an(), cst(), [0, 1]))
        if rng.random() < 0.3:
            rules.append(('C', [], None, 0, None))
        rng.shuffle(rules)
        # keep L first (start symbol)
        rules.sort(key=lambda r: 0 if r[0] == 'L' and r[1] == ['X'] else 1)
        terms = [('t', 116), ('u', 117)] + [(x, ord(x)) for x in sufs]
    elif fam == 'errafter':
        # `error' expected directly after a nonterminal (the place is created by a reduction, not by a shift)
        rules.append(('S', ['A', 'B', 'e'], an(), cst(), [0, 1]))
        rules.append(('A', ['a'], rng.choice([None, an()]), 0, [0]))
        rules.append(('A', ['x', 'a'], an(), cst(), [1]))
        if rng.random() < 0.4:
            rules.append(('A', ['A', 'x'], an(), cst(), [0]))
        rules.append(('B', ['b'], rng.choice([None, an()]), 0, [0]))
        rules.append(('B', ['error'] + rng.choice([[], [], ['c']]), an(), cst(), []))
        if rng.random() < 0.4:
            rules = [('L', ['S'], None, 0, [0]), ('L', ['L', 'S'], an(), cst(), [0, 1])] + rules
        terms = [('a', 97), ('b', 98), ('c', 99), ('e', 101), ('x', 120)]
    elif fam == 'nullprefix':
        # a rule with two or three nullable leading symbols, reached in two ways: as a fresh prediction and
        # after one of its own optional leading tokens was consumed for an enclosing construct
        k = rng.choice([2, 2, 3])
        ps = ['P%d' % i for i in range(k)]
        pt = ['p', 'b', 'q'][:k]
        rules.append(('S', ['A'], None, 0, [0]))
        rules.append(('S', ['Y'], None, 0, [0]))
        rules.append(('Y', [rng.choice(pt), 'A', 'z'], an(), cst(), [1]))
        if rng.random() < 0.4:
            rules.append(('S', ['S', 'A'], an(), cst(), [0, 1]))
        rules.append(('A', ps + ['C'], an(), cst(), perm_tr(k + 1, k + 1)))
        for pn, t in zip(ps, pt):
            alts = [(pn, [], rng.choice([None, an()]), 0, None), (pn, [t], rng.choice([None, an()]), 0, [0])]
            rng.shuffle(alts)
            rules += alts
        rules.append(('C', ['c'], rng.choice([None, an()]), 0, [0]))
        if rng.random() < 0.3:
            rules.append(('C', ['c', 'c'], an(), cst(), [0]))
        first = rules[:2]
        rest = rules[2:]
        if rng.random() < 0.5:
            rng.shuffle(rest)
        rules = first + rest
        terms = [('p', 112), ('b', 98), ('q', 113), ('c', 99), ('z', 122)]
    elif fam == 'nulltail':
        # a nullable tail after a symbol with several spans, behind a prefix that is empty or not:
        # the same dotted rule before the nullable symbol is in one set with two origins
        if rng.random() < 0.4:
            # two contexts told apart by what follows: the derivation needs the origin that was added second
            rules.append(('S', ['X', 'c'], an(), cst(), [0, 1]))
            rules.append(('S', ['a', 'X', 'd'], an(), cst(), rng.choice([[0, 1, 2], [1]])))
        else:
            rules.append(('S', ['P', 'X'] + rng.choice([[], [], ['e']]), an(), cst(), [0, 1]))
            rules.append(('P', [], rng.choice([None, an()]), 0, None))
            rules.append(('P', ['a'], an(), cst(), [0]))
        # (the nullable symbol at the end, before another nullable one, or in the middle before a terminal)
        rules.append(('X', ['Y', 'N'] + rng.choice([[], ['M'], ['z'], ['z']]), an(), cst(), rng.choice([[0], [0, 1]])))
        if rng.random() < 0.35:
            rules.append(('Y', ['a', 'Y'], an(), cst(), rng.choice([[0, 1], [1]])))
            rules.append(('Y', ['a'], an(), cst(), [0]))
        else:
            rules.append(('Y', ['a'], an(), cst(), [0]))
            rules.append(('Y', ['a', 'a'], an(), cst(), rng.choice([[0, 1], [1]])))
        rules.append(('N', [], rng.choice([None, an()]), 0, None))
        if rng.random() < 0.5:
            rules.append(('N', ['b'], an(), cst(), [0]))
        rules.append(('M', [], None, 0, None))
        terms = [('a', 97), ('b', 98), ('e', 101), ('c', 99), ('d', 100), ('z', 122)]
    elif fam == 'deepchains':
        # one leaf reached through unit chains of different depth, the alternatives told apart by
        # the terminal that follows: FIRST/FOLLOW and dynamic contexts need several passes,
        # whatever the order in which the rules are written
        d = rng.randint(2, 5)
        ns = ['N%d' % i for i in range(d + 1)]
        sufs = ['a', 'b', 'c', 'd', 'e']
        lv = rng.sample(range(d + 1), rng.randint(2, min(d + 1, 4)))
        top = 'S'
        tops = [(top, [ns[i]] + [sufs[j]] * rng.choice([1, 1, 2]), rng.choice([None, an()]), cst(), [0]) for j, i in enumerate(lv)]
        if rng.random() < 0.3:
            tops.append((top, [rng.choice(['x', 'y']), ns[rng.randrange(d + 1)], 'x'], an(), cst(), [1]))
        chain = [(ns[i], [ns[i + 1]], None, 0, rng.choice([[0], [0], None])) for i in range(d)]
        leaf = [(ns[d], ['t'], rng.choice([None, an()]), 0, [0])]
        if rng.random() < 0.4:
            leaf.append((ns[rng.randrange(d + 1)], ['t', 'u'], an(), cst(), [0, 1]))
        rest = chain + leaf
        o = rng.choice(['topdown', 'bottomup', 'shuffle'])
        if o == 'bottomup':
            rest.reverse()
        elif o == 'shuffle':
            rng.shuffle(rest)
        rng.shuffle(tops)
        rules = tops[:1] + (tops[1:] + rest if rng.random() < 0.5 else rest + tops[1:])
        if rng.random() < 0.4:
            rules = [('L', ['S'], None, 0, [0]), ('L', ['L', 'S'], an(), cst(), [0, 1])] + rules
        terms = [('t', 116), ('u', 117), ('x', 120), ('y', 121)] + [(x, ord(x)) for x in sufs]
    elif fam == 'blocks':
        # the same construct several times in one input, so that the same set is followed by the same token (and the
        # same lookahead) at two places whose origin sets differ: a successor set cached at the first place must not
        # be re-used at the second one.  Two shapes.
        pieces, tails = [], [[]]
        shape = rng.choice(['list', 'twice', 'errblocks', 'errstart'])
        if shape == 'errblocks':
            # blocks of statements with an `error' alternative for the block: a recovery rewrites the parsing list, the
            # statements after it must not be parsed with successor sets saved before it
            rules.append(('G', ['G', 'K'], an(), cst(), [0, 1]))
            rules.append(('G', ['K'], None, 0, [0]))
            rules.append(('K', ['{', 'L', '}'], an(), cst(), [1]))
            rules.append(('K', ['{', 'error', '}'], an(), cst(), []))
            rules.append(('L', ['L', 'T'], an(), cst(), [0, 1]))
            rules.append(('L', ['T'], None, 0, [0]))
            rules.append(('T', ['s'], an(), cst(), []))
            rules.append(('T', ['p', 'M'], an(), cst(), [1]))
            rules.append(('T', ['q', 'N'], an(), cst(), [1]))
            long_tail = rng.random() < 0.5
            rules.append(('M', ['A', 'z'] + (['m'] if long_tail else []), an(), cst(), [0]))
            rules.append(('N', ['A', 'z', 'n'] if long_tail else ['A', 'y'], an(), cst(), [0]))
            rules.append(('A', ['a', ';'], an(), cst(), []))
            terms = [(x, ord(x)) for x in ['{', '}', 's', 'p', 'q', 'a', ';', 'z', 'y', 'm', 'n']]
            okp = ['p', 'a', ';', 'z'] + (['m'] if long_tail else [])
            okq = ['q', 'a', ';'] + (['z', 'n'] if long_tail else ['y'])
            stm = [['s'], ['s'], okp, okq, okp[:-1] + [okq[-1]], okq[:-1] + [okp[-1]], okp + [okq[-1]], ['a', ';']]
            for _ in range(14):
                blk = ['{']
                for _ in range(rng.randint(1, 5)):
                    blk += rng.choice(stm)
                pieces.append(blk + ['}'])
        elif shape == 'errstart':
            # an alternative that begins with `error', used twice in one rule
            rules.append(('S', ['I', 'w', 'I'], an(), cst(), [0, 2]))
            rules.append(('S', ['I'], rng.choice([None, an()]), cst(), [0]))
            rules.append(('I', ['x', 'B', 'y'], an(), cst(), [1]))
            rules.append(('I', ['error', 'B', 'z'], an(), cst(), [1]))
            rules.append(('B', ['b', 'c'], rng.choice([None, an()]), cst(), []))
            if rng.random() < 0.3:
                rules.append(('B', ['b'], an(), cst(), []))
            terms = [(x, ord(x)) for x in ['x', 'y', 'z', 'b', 'c', 'w']]
            pieces = [['x', 'b', 'c', 'y'], ['y'], ['b', 'c', 'y'], ['b', 'c', 'z'], ['w'], ['w', 'x', 'b', 'c', 'y'], ['y', 'b', 'c', 'y']]
        elif shape == 'list':
            # a list of blocks; what a block may end with depends on the marker it began with; a competing reading
            # starts its inner construct one token later
            k = rng.choice([2, 3, 3])
            m1, m2 = rng.sample(['u', 'v', 'w'], 2)
            s1, s2 = 'c', 'd'
            es = rng.sample(['e', 'f'], rng.choice([1, 2]))
            if rng.random() < 0.5:
                rules.append(('S', ['T', 'S'], an(), cst(), [0, 1]))
                rules.append(('S', ['T'], rng.choice([None, an()]), cst(), [0]))
            else:
                rules.append(('S', ['S', 'T'], an(), cst(), [0, 1]))
                rules.append(('S', ['T'], rng.choice([None, an()]), cst(), [0]))
            alts = [('T', [m1, 'X', s1], an(), cst(), [1]),
                    ('T', [m2, 'X', s2, 'E'], an(), cst(), rng.choice([[1, 3], [1]])),
                    ('T', ['W', 'a', 'Z', s2, 'F'], an(), cst(), rng.choice([[0, 2], [2, 4], [0, 2, 4]]))]
            if rng.random() < 0.3:
                alts.append(('T', [m1, 'X', s2, 'E'], an(), cst(), [1]))
            rng.shuffle(alts)
            rules += alts
            rules.append(('X', ['a'] * k, an(), cst(), rng.choice([[], [0]])))
            rules.append(('Z', ['a'] * (k - 1), an(), cst(), rng.choice([[], [0]])))
            ws = [('W', [m], an(), cst(), [0]) for m in rng.sample([m1, m2], rng.choice([1, 2, 2]))]
            rules += ws
            rules.append(('E', [es[0]], rng.choice([None, an()]), cst(), [0]))
            for e in rng.sample(['e', 'f'], rng.choice([1, 2])):
                rules.append(('F', [e], rng.choice([None, an()]), cst(), [0]))
            terms = [(x, ord(x)) for x in ['a', 'u', 'v', 'w', 'c', 'd', 'e', 'f']]
            for m in (m1, m2):
                pieces.append([m] + ['a'] * k + [s1])
                for e in ('e', 'f'):
                    pieces.append([m] + ['a'] * k + [s2, e])
        else:
            # two or three occurrences of one nonterminal in a rule, each followed by the same separator, which also
            # ends a construct nested in one of its alternatives
            n = rng.choice([2, 2, 3])
            rhs = []
            for _ in range(n):
                rhs += ['Z', 'm']
            rules.append(('S', rhs + ['q'], an(), cst(), perm_tr(len(rhs) + 1)))
            alts = [('Z', ['a', 't'], an(), cst(), rng.choice([[], [0, 1]])), ('Z', ['a', 'V', 'e'], an(), cst(), [1])]
            if rng.random() < 0.4:
                alts.append(('Z', ['a', 'V'], an(), cst(), [1]))
            rng.shuffle(alts)
            rules += alts
            rules.append(('V', ['P', 'm'], rng.choice([None, an()]), cst(), [0]))
            rules.append(('P', ['t'], rng.choice([None, an()]), cst(), [0]))
            if rng.random() < 0.3:
                rules.append(('P', ['t', 't'], an(), cst(), [0]))
            terms = [(x, ord(x)) for x in ['a', 't', 'm', 'e', 'q']]
            pieces = [['a', 't', 'm'], ['a', 't', 'm', 'e', 'm'], ['a', 't', 'm', 'm']]
            tails = [['q'], ['q', 'q'], [], ['e', 'q']]
        used = {s for r in rules for s in r[1]}
        gm = Gram([t for t in terms if t[0] in used], rules)
        gm.pieces = [p_ for p_ in pieces if all(x in gm.tnum for x in p_)]
        gm.tails = [t_ for t_ in tails if all(x in gm.tnum for x in t_)]
        gm.nblocks = 0 if 'T' in gm.nnum else sum(1 for x in rules[0][1] if x == 'Z')
        gm.shape = shape
        if shape == 'errblocks':
            gm.stm_ok = [okp, okq]
            gm.stm_bad = [okp[:-1] + [okq[-1]], okp + [okq[-1]], okq[:-1] + [okp[-1]], okq + [okp[-1]]]
        return gm
    else:
        rules.append(('S', ['a', 'O'] + rng.choice([[], ['O']]), an(), cst(), perm_tr(2 + 0, 2)))
        rules.append(('O', ['P'], None, 0, [0]))
        rules.append(('O', ['b'], an(), cst(), []))
        rules.append(('P', [], an(), cst(), []))
        rules.append(('P', ['Q'], None, 0, rng.choice([[0], None])))
        rules.append(('Q', [], rng.choice([an(), None]), cst(), []))
        terms = [('a', 97), ('b', 98)]
    used = {s for r in rules for s in r[1]}
    terms = [t for t in terms if t[0] in used]
    return Gram(terms, rules)


def block_inputs(rng, g, n=6, maxlen=22):
    """Inputs for the 'blocks' family: two to four of its pieces (whole constructs, some of them wrong for their place)
    and a tail; one in three gets a random edit."""
    out = []
    for _ in range(n * 4):
        w = []
        if getattr(g, 'shape', '') == 'errblocks' and rng.random() < 0.5:
            # a broken block (its sets are replaced by `{ error }': three places), then a block whose statement stands at
            # the place the same statement had in the broken block (or next to it)
            j = rng.randint(0, 3)
            k = j + 3 + rng.choice([-1, 0, 0, 0, 1])
            pre = [x for _ in range(rng.randint(0, 1)) for x in rng.choice(g.pieces)]
            w = pre + ['{'] + ['s'] * k + rng.choice(g.stm_bad) + ['}'] + ['{'] + ['s'] * j + rng.choice(g.stm_ok + g.stm_bad) + ['}']
            if len(w) <= maxlen and w not in out:
                out.append(w)
            if len(out) >= n:
                break
            continue
        cnt = g.nblocks if getattr(g, 'nblocks', 0) and rng.random() < 0.6 else rng.randint(2, 4)
        for _ in range(cnt):
            w += rng.choice(g.pieces)
        w += rng.choice(g.tails)
        if rng.random() < 0.3:
            w = mutate(rng, g, w, 1)
        if len(w) <= maxlen and w not in out:
            out.append(w)
        if len(out) >= n:
            break
    return out


def family_inputs(rng, g, n=6, block_maxlen=22):
    """Inputs for a family grammar: random derivations of several lengths."""
    if getattr(g, 'pieces', None):
        return block_inputs(rng, g, n, maxlen=block_maxlen)
    out = []
    for _ in range(n * 3):
        w = rand_sentence(rng, g, maxlen=8, depth=rng.choice([3, 5, 8]))
        if w is not None and w not in out:
            out.append(w)
        if len(out) >= n:
            break
    return out


def wide_grammar(rng):
    """Many nonterminals / alternatives over few tokens: large Earley sets with dozens of
    completed situations (many distinct reduce and transition vectors)."""
    k = rng.randint(15, 45)
    xs = ['X%d' % i for i in range(k)]
    rules = [('S', [x], None, 0, [0]) for x in xs]
    extra = rng.randint(1, 4)
    for j in range(extra):
        rules.append(('S', ['Y%d' % j], None, 0, [0]))
    rng.shuffle(rules)
    for i, x in enumerate(xs):
        rules.append((x, ['a'] if rng.random() < 0.8 else ['a', 'a'], 'x%d' % i, rng.randint(0, 3), []))
    for j in range(extra):
        for v in range(rng.randint(2, 3)):
            rules.append(('Y%d' % j, ['a'], 'y%d_%d' % (j, v), rng.randint(0, 3), [0] if rng.random() < 0.5 else []))
    return Gram([('a', 97)], rules)
