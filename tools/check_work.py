"""Check C18: parsing work grows near-linearly on deterministic grammars.
Machine-independent counters (bytes requested from the allocator - library
built with allocate.c routed through counting wrappers -, hash table searches
and collisions, unique set cores) for input lengths 1k..32k (quick) / 512k
(thorough) of three deterministic left-recursive grammar families at the three
lookahead levels."""
import json, os, sys
import yvlib, gen
from checklib import Check

LIST = {'terms': [('x', 120), (',', 44)], 'rules': [('S', ['L'], None, 0, [0]), ('L', ['L', ',', 'x'], 'l', 0, [0, 2]), ('L', ['x'], None, 0, [0])]}
EXPR_RULES = [('E', ['E', '+', 'T'], 'p', 0, [0, 2]), ('E', ['T'], None, 0, [0]), ('T', ['T', '*', 'F'], 'm', 0, [0, 2]), ('T', ['F'], None, 0, [0]),
              ('F', ['a'], None, 0, [0]), ('F', ['(', 'E', ')'], None, 0, [1])]
EXPR = {'terms': [('a', 97), ('+', 43), ('*', 42), ('(', 40), (')', 41)], 'rules': EXPR_RULES}
STMTS = {'terms': [('a', 97), ('+', 43), ('*', 42), ('(', 40), (')', 41), ('i', 105), ('=', 61), (';', 59)],
         'rules': [('P', ['SL'], None, 0, [0]), ('SL', ['SL', 'ST'], 'sl', 0, [0, 1]), ('SL', ['ST'], None, 0, [0]),
                   ('ST', ['i', '=', 'E', ';'], 'as', 0, [0, 2])] + EXPR_RULES}


def inp_list(n):
    return [120] + [44, 120] * (n // 2)


def inp_expr(n):
    w = []
    while len(w) < n:
        w += [97, 42, 40, 97, 43, 97, 41, 43]
    return w[:-1]


def inp_stmts(n):
    w = []
    while len(w) < n:
        w += [105, 61, 97, 43, 97, 42, 97, 59]
    return w


MIX = {'terms': [('a', 97), ('+', 43), ('*', 42), ('(', 40), (')', 41), ('i', 105), ('=', 61), (';', 59)],
       'rules': [('P', ['SL'], None, 0, [0]), ('SL', ['SL', 'ST'], 'sl', 0, [0, 1]), ('SL', ['ST'], None, 0, [0]),
                 ('ST', ['i', '=', 'E', ';'], 'as', 0, [0, 2])] + EXPR_RULES}
SHAPES = [[105, 61, 40, 97, 42, 97, 41, 59], [105, 61, 97, 43, 40, 97, 42, 97, 41, 59], [105, 61, 97, 42, 40, 97, 42, 97, 41, 59]]


def inp_mix_block(n):
    k = max(1, n // 28)
    w = []
    for sh in SHAPES:
        w += sh * k
    return w


def inp_mix_inter(n):
    k = max(1, n // 28)
    w = []
    for _ in range(k):
        for sh in SHAPES:
            w += sh
    return w


# many rules of which a longer input uses more: the number of distinct set cores grows with the input (as with a big
# grammar on real code); statement j begins with keyword j
NKEY = 2048
KEYWORDS = {'terms': [('x', 120), (';', 59)] + [('k%d' % j, 1000 + j) for j in range(NKEY)],
            'rules': [('P', ['SL'], None, 0, [0]), ('SL', ['SL', 'ST'], 'sl', 0, [0, 1]), ('SL', ['ST'], None, 0, [0])] +
                     [('ST', ['k%d' % j, 'x', ';'], 'st', 0, [0]) for j in range(NKEY)]}


def inp_keywords(n):
    w = []
    for j in range(max(1, n // 3)):
        w += [1000 + j % NKEY, 120, 59]
    return w


FAM = [('list', LIST, inp_list), ('expr', EXPR, inp_expr), ('stmts', STMTS, inp_stmts)]

# envelopes calibrated on the pinned tree (observed maxima: 392 bytes, 9.5 searches, 12.4 collisions per token at 64k)
ENV = {'bytes': (800, 2500000), 'searches': (25, 10000), 'collisions': (40, 10000)}
RATIO = {'bytes': 3.2, 'searches': 4.0}


def run(pid, tier, seed, replay=None):
    chk = Check(pid, tier, seed)
    chk.coq()
    try:
        exe = yvlib.build_impl('fault', sanitize=False)
    except yvlib.BuildError as e:
        chk.obl['broken'].append('implementation does not build: ' + str(e)[-800:])
        return chk.finish()
    quick = tier == 'quick'
    sizes = [1000, 2000, 4000, 8000, 16000, 32000] + ([] if quick else [64000, 128000, 256000, 512000])
    script, meta = [], []
    runs = [(name, g, mk, la, 1, sizes) for name, g, mk in FAM for la in (0, 1, 2)]
    # all parses requested (the table of parse states is in use): same inputs, shorter series
    runs += [(name + '/all', g, mk, la, 0, [s for s in sizes if s <= (16000 if quick else 64000)]) for name, g, mk in FAM for la in (0, 1, 2)]
    # the same statements block-wise and interleaved: identical sets must be found again, not rebuilt, whatever the order
    runs += [('mix/block', MIX, inp_mix_block, la, 1, [s for s in sizes if s <= 32000]) for la in (0, 1, 2)]
    runs += [('mix/inter', MIX, inp_mix_inter, la, 1, [s for s in sizes if s <= 32000]) for la in (0, 1, 2)]
    runs += [('keywords', KEYWORDS, inp_keywords, la, 1, [768, 1536, 3072, 6144]) for la in (0, 1, 2)]
    for name, g, mk, la, one, szs in runs:
            for n in szs:
                w = mk(n)
                cid = '%s_%d_%d' % (name, la, n)
                script.append('\n'.join(['CASE ' + cid, 'NEW 0', 'SET 0 0 %d' % la, 'SET 0 2 %d' % one] + yvlib.script_read(0, g, 1) +
                                        ['COUNTERS', 'PARSE 0 1 %d %s' % (len(w), ' '.join(map(str, w))), 'COUNTERS', 'FREEG 0', 'END']))
                meta.append((name, la, n, len(w)))
    res = yvlib.run_driver(exe, '\n'.join(script), timeout_case=600, batch=1)
    series = {}
    table = []
    for (name, la, n, ln), r in zip(meta, res):
        key = (name, la)
        chk.note_case((name, la, n), True, {'grammar': name, 'lookahead': la, 'tokens': ln})
        rep = {'property': 'C18', 'grammar': name, 'lookahead': la, 'tokens': ln, 'implementation': {k: v for k, v in r.items() if k != 'ops'},
               'counters': [o for o in r.get('ops', []) if o['op'] == 'counters']}
        sig = 'C18:%%s:%s:la=%d:n=%d' % (name, la, n)
        ops = r.get('ops', [])
        cs = [o for o in ops if o['op'] == 'counters']
        p = [o for o in ops if o['op'] == 'parse']
        if 'abort' in r or len(cs) < 2 or not p:
            chk.violation(sig % 'abort', 'aborted: %s' % r.get('abort'), rep)
            continue
        if p[0]['rc'] != 0 or p[0]['errs']:
            chk.violation(sig % 'parse', 'the deterministic input did not parse cleanly', rep)
            continue
        d = {k: cs[1][k] - cs[0][k] for k in ('bytes', 'allocs', 'searches', 'collisions')}
        d['cores'] = cs[1]['stat'][0]
        d['goto_successes'] = cs[1]['stat'][4]
        d['sets'] = cs[1]['stat'][2]
        table.append({'grammar': name, 'la': la, 'tokens': ln, **d})
        for k, (per, const) in ENV.items():
            # (the envelopes are those of the small grammars; the keyword grammar predicts 2048 rules at every statement)
            if name != 'keywords' and d[k] > per * ln + const:
                chk.violation(sig % ('envelope-' + k), '%s: %d for %d tokens exceeds the linear envelope %d*n+%d' % (k, d[k], ln, per, const), rep)
        # identical sets are found again rather than rebuilt: on these repetitive inputs a fixed share of the tokens
        # is served by the goto cache at every lookahead level (observed on the pinned tree: 0.5 n, 0.25 n for the
        # statement grammar at level 0; the plain list never re-uses a set because its distances keep growing)
        if name in ('expr', 'stmts', 'mix/block', 'mix/inter') and ln >= 4000 and d['goto_successes'] < (0.15 if name == 'stmts' else 0.35) * ln:
            chk.violation(sig % 'reuse', 'only %d of %d tokens were served by re-used sets (goto cache)' % (d['goto_successes'], ln), rep)
        prev = series.get(key)
        if prev is not None:
            pn, pd = prev
            if pd['cores'] != d['cores'] and name != 'keywords':
                chk.violation(sig % 'cores', 'number of unique set cores grows with the input (%d at %d tokens, %d at %d): identical sets are rebuilt, not found again' % (
                    pd['cores'], pn, d['cores'], ln), rep)
            if name == 'keywords':
                # the number of set cores grows with the input here: work per new core must not grow with their number
                for k, lim, frm in (('bytes', 2.6, 1500), ('searches', 2.6, 1500), ('collisions', 3.2, 3000)):
                    if pn >= frm and pd[k] > 0 and d[k] > lim * pd[k]:
                        chk.violation(sig % ('ratio-' + k), '%s grows by a factor %.2f when the input doubles (%d -> %d tokens, %d -> %d set cores)' % (
                            k, d[k] / pd[k], pn, ln, pd['cores'], d['cores']), rep)
            elif pn >= 8000:
                for k, lim in RATIO.items():
                    if pd[k] > 0 and d[k] > lim * pd[k]:
                        chk.violation(sig % ('ratio-' + k), '%s grows by a factor %.2f when the input doubles (%d -> %d tokens)' % (k, d[k] / pd[k], pn, ln), rep)
        series[key] = (ln, d)
        if name == 'mix/inter':
            blk = [t for t in table if t['grammar'] == 'mix/block' and t['la'] == la and t['tokens'] == ln]
            if blk and d['searches'] > 1.05 * blk[0]['searches'] + 50:
                chk.violation(sig % 'order', 'the same statements interleaved need %d hash searches, block-wise %d: identical sets are rebuilt instead of found again' % (
                    d['searches'], blk[0]['searches']), rep)
    if os.environ.get('YV_WORK_TABLE'):
        for t in table:
            print(t)
    chk.cov['rule'] = ('3 deterministic left-recursive grammars (list, E/T/F expressions, statement list) x lookahead 0,1,2 x input lengths %s, one parse and all parses requested; the same statements block-wise and interleaved (work must not depend on the order); linear envelopes and '
                       'doubling ratios calibrated on the pinned tree with margin; measurement, not a theorem' % sizes)
    return chk.finish(extra_cov={'stream': {'table': table, 'envelopes': ENV, 'ratios': RATIO}})
