#!/usr/bin/env python3
"""usage: seedrun.py [--round N] [--ids C01-g,C02-h] [--also C09,C11]   (round 1 = the changes without a round field)
Runs the quick check of the property each saved seeded change breaks (seeded/<id>/patch.diff applied to /repo's
working tree, always restored afterwards) and records the outcome in seeded/<id>/meta.json under "last_run":
{check id: {"verdict": "VIOLATED"|"VIOLATED no-failing-input-found"|"ok"|..., "wall_s": seconds}}.
/repo must be clean and no other check may run at the same time (the working tree is patched)."""
import sys, os, json, glob, subprocess, time, argparse, re, shutil, tempfile
V = os.path.dirname(os.path.dirname(os.path.abspath(__file__)))


def main():
    ap = argparse.ArgumentParser()
    ap.add_argument('--round', type=int)
    ap.add_argument('--ids')
    ap.add_argument('--also', default='')
    a = ap.parse_args()
    metas = sorted(glob.glob(os.path.join(V, 'seeded', '*', 'meta.json')))
    ids = set(a.ids.split(',')) if a.ids else None
    for m in metas:
        d = json.load(open(m))
        if a.round is not None and (d.get('round') or 1) != a.round:
            continue
        if ids is not None and d['id'] not in ids:
            continue
        patch = os.path.join(os.path.dirname(m), 'patch.diff')
        pids = [d['breaks_property']] + [x for x in a.also.split(',') if x]
        st = subprocess.run(['git', '-C', '/repo', 'status', '--porcelain', '--untracked-files=no'], capture_output=True, text=True).stdout
        if st.strip():
            print('REFUSING: /repo working tree is not clean'); return 2
        r = subprocess.run(['git', '-C', '/repo', 'apply', patch], capture_output=True, text=True)
        if r.returncode != 0:
            r = subprocess.run(['git', '-C', '/repo', 'apply', '--3way', patch], capture_output=True, text=True)
            subprocess.run(['git', '-C', '/repo', 'reset', '-q'])
            if r.returncode != 0:
                subprocess.run(['git', '-C', '/repo', 'reset', '-q', '--hard', 'HEAD'])
                print('%s: PATCH DOES NOT APPLY' % d['id'])
                d.setdefault('last_run', {})['apply'] = 'patch does not apply to the current tree'
                json.dump(d, open(m, 'w'), indent=1)
                continue
        bak = tempfile.mkdtemp(prefix='yv_evid_')
        out = {}
        try:
            for pid in pids:
                f = os.path.join(V, 'evidence', pid + '.json')
                if os.path.exists(f):
                    shutil.copy(f, bak)
                t = time.time()
                try:
                    p = subprocess.run(['./check', pid, '--tier', 'quick'], cwd=V, capture_output=True, text=True, timeout=3000)
                    lines = p.stdout.splitlines()
                    viol = [l for l in lines if l.startswith('VIOLATION')]
                    if p.returncode == 0 and not viol:
                        verdict = 'ok'
                    elif viol and all(l.rstrip().endswith('no-failing-input-found') for l in viol):
                        verdict = 'VIOLATED no-failing-input-found'
                    elif viol:
                        verdict = 'VIOLATED'
                    else:
                        verdict = 'check failed rc=%d' % p.returncode
                except subprocess.TimeoutExpired:
                    verdict = 'timeout'
                out[pid] = {'verdict': verdict, 'wall_s': round(time.time() - t)}
                print('%s %s %s %ds' % (d['id'], pid, verdict, out[pid]['wall_s']), flush=True)
        finally:
            subprocess.run(['git', '-C', '/repo', 'reset', '-q', '--hard', 'HEAD'])
            for pid in pids:
                b = os.path.join(bak, pid + '.json')
                if os.path.exists(b):
                    shutil.copy(b, os.path.join(V, 'evidence', pid + '.json'))
            shutil.rmtree(bak, ignore_errors=True)
        d.setdefault('last_run', {}).update(out)
        json.dump(d, open(m, 'w'), indent=1)
    return 0


if __name__ == '__main__':
    sys.exit(main())
