"""Checks C14 (objects independent of each other and of their past) and C15
(error state, token validation, setters): random API histories over up to 3
live grammar objects.  Expected results: setters / error state / parse codes
from the extracted Coq model (Api.v); definition codes and complete parse
results from the same call on a *fresh* object in a fresh process."""
import json, os, sys
import yvlib, gen
from yvlib import NIL, hx
from checklib import Check

# ---------------------------------------------------------------------------
# Pool of definitions: ('read', grammar dict, strict) or ('desc', text, strict)
E = 'error'


def pool():
    P = []
    g1 = {'terms': [('a', 97), ('+', 43), ('*', 42), ('(', 40), (')', 41)],
          'rules': [('E', ['E', '+', 'T'], 'plus', 1, [0, 2]), ('E', ['T'], None, 0, [0]),
                    ('T', ['T', '*', 'F'], 'mul', 1, [0, 2]), ('T', ['F'], None, 0, [0]),
                    ('F', ['a'], None, 0, [0]), ('F', ['(', 'E', ')'], None, 0, [1]), ('F', ['(', E, ')'], 'err', 0, [])]}
    P.append(dict(kind='read', g=g1, strict=1, inputs=[[97, 43, 97], [97, 42, 40, 97, 43, 97, 41], [97, 43], [40, 43, 41], [], [97, 97], [97, 44, 97], [97, 1000]]))
    g2 = {'terms': [('a', 1), ('b', 2)],
          'rules': [('S', ['A', 'S'], 's', 2, [0, 1]), ('S', [], None, 0, None), ('A', ['a'], 'a', 1, [0]), ('A', ['b'], None, 0, [0]), ('A', ['a', 'b'], 'ab', 0, [1, 0])]}
    P.append(dict(kind='read', g=g2, strict=0, inputs=[[1, 2, 1], [1, 2], [], [2, 2, 2, 1], [1, 3], [0]]))
    g3 = {'terms': [('x', 300), ('y', 5)], 'rules': [('L', ['L', 'y', 'x'], 'l', 0, [0, 2]), ('L', ['x'], None, 0, [0])]}
    P.append(dict(kind='read', g=g3, strict=1, inputs=[[300, 5, 300], [300], [5], [300, 5], [300, 6, 300], [300, 299]]))
    P.append(dict(kind='desc', text="TERM NUM=300;\nE : E '+' T # plus (0 2)\n  | T # 0\n  ;\nT : NUM # 0 | '(' E ')' # 1 ;\n", strict=1,
                  inputs=[[300, 43, 300], [40, 300, 41], [300, 43], [43], [300, 45, 300]]))
    P.append(dict(kind='desc', text="S : 'a' S 'b' # n (1) | # - ;", strict=0, inputs=[[97, 97, 98, 98], [], [97, 98, 98], [99]]))
    # names and codes that land in the first and in the last slot of the symbol tables (307 names, 211 codes): a definition
    # over an earlier one must find the tables empty in every slot
    g4 = {'terms': [('c', 0), ('d', 211), ('e', 210), ('f', 421), ('g', 422)],
          'rules': [('S', ['c', 'S', 'd'], 'p', 0, [1]), ('S', ['e'], None, 0, [0]), ('S', ['f', 'g'], 'q', 0, [0, 1])]}
    P.append(dict(kind='read', g=g4, strict=1, inputs=[[0, 210, 211], [421, 422], [0, 0, 210, 211, 211], [210, 210], [0, 211], [1]]))
    P.append(dict(kind='desc', text="TERM SEP=210 c=0;\nL : L ',' I # l (0 2) | I # 0 ;\nI : SEP # 0 | c # 0 | 'a' ;\n", strict=1, codes=[210, 0, 44, 97],
                  inputs=[[210, 44, 0], [0], [97, 44, 97, 44, 210], [44], [210, 210]]))
    # defective definitions (documented defects)
    bad = [
        {'terms': [('a', 1), ('a', 2)], 'rules': [('S', ['a'], None, 0, None)]},                       # 5 repeated term
        {'terms': [('a', 1), ('b', 1)], 'rules': [('S', ['a'], None, 0, None)]},                       # 7 repeated code
        {'terms': [('a', -3)], 'rules': [('S', ['a'], None, 0, None)]},                                # 6 negative code
        {'terms': [('a', 1)], 'rules': []},                                                            # 8 no rules
        {'terms': [('a', 1)], 'rules': [('a', ['a'], None, 0, None)]},                                 # 9 term in lhs
        {'terms': [('a', 1)], 'rules': [('S', ['a', 'a'], None, 0, [0, 1])]},                          # 10 incorrect translation
        {'terms': [('a', 1)], 'rules': [('S', ['a'], 'n', -1, [0])]},                                  # 11 negative cost
        {'terms': [('a', 1)], 'rules': [('S', ['a'], 'n', 0, [3])]},                                   # 12 symbol number
        {'terms': [('a', 1)], 'rules': [('S', ['a', 'a'], 'n', 0, [0, 0])]},                           # 13 repeated number
        {'terms': [('a', 1)], 'rules': [('S', ['a'], None, 0, None), ('U', ['a'], None, 0, None)]},    # 14 unaccessible (strict)
        {'terms': [('a', 1)], 'rules': [('S', ['a', 'N'], None, 0, None), ('N', ['N', 'a'], None, 0, None)]},  # 15 derivation
        {'terms': [('a', 1)], 'rules': [('S', ['A'], None, 0, None), ('A', ['S'], None, 0, None), ('A', ['a'], None, 0, None)]},  # 16 loop
        {'terms': [('error', 1)], 'rules': [('S', ['error'], None, 0, None)]},                         # 4 fixed name
    ]
    for b in bad:
        P.append(dict(kind='read', g=b, strict=1, inputs=[[1], []]))
    P.append(dict(kind='desc', text="S : 'a' ) ;", strict=1, inputs=[[97]]))                            # 3 syntax error
    P.append(dict(kind='desc', text="TERM A=1 A=2; S : A ;", strict=1, inputs=[[1]]))                     # repeated with different code
    # terminals described without a code: the implicit codes start at 256 in every definition
    P.append(dict(kind='desc', text="TERM NUM ID;\nL : L ',' I # l (0 2) | I # 0 ;\nI : NUM # 0 | ID # 0 ;\n", strict=1, codes=[256, 257, 44],
                  inputs=[[256, 44, 257], [257], [256, 44], [257, 44, 257, 44, 256]]))
    P.append(dict(kind='desc', text="TERM A B=300 C;\nS : A B C # s (0 1 2) | C # 0 ;\n", strict=1, codes=[256, 300, 257],
                  inputs=[[256, 300, 257], [257], [256], [300]]))
    return P


def define_lines(slot, d):
    if d['kind'] == 'read':
        return yvlib.script_read(slot, d['g'], d['strict'])
    return ['DESC %d %d %s' % (slot, d['strict'], hx(d['text']))]


def canon_parse(p):
    """What must be equal between a call in a history and the same call on a fresh object."""
    if p is None:
        return None
    d = {'rc': p['rc'], 'amb': p['amb'] if p['rc'] == 0 else None, 'errs': p['errs'],
         'root': ('untouched' if p.get('root_untouched') else None if p.get('root') is None else 'tree')}
    if p.get('nodes') is not None:
        d['nodes'] = [{k: v for k, v in n.items() if k not in ('term_in_block', 'name_block')} for n in p['nodes']]
    return json.dumps(d, sort_keys=True)


class Hist:
    """One random history; keeps the python mirror needed to build replays."""

    def __init__(self, rng, P, hid, maxops, only_c15=False):
        self.hid = hid
        self.lines = ['CASE h%d' % hid]
        self.ops = []      # (kind, info) aligned with driver ops
        ev = rng.choice([-1, -1, -2, -7, -2147483648, -3])
        if ev != -1:
            self.lines.append('EOFVAL %d' % ev); self.ops.append(('eofval', ev))
        live = {}
        nparse = 0
        trees = []
        nslots = rng.choice([1, 2, 2, 3])
        n = rng.randint(4, maxops)
        mirror = {}        # slot -> dict(settings raw list of (i,x) applied, def index or None)
        for step in range(n):
            k = rng.randrange(nslots)
            if k not in live:
                self.lines.append('NEW %d' % k); self.ops.append(('new', k))
                live[k] = True
                mirror[k] = {'sets': [], 'def': None}
                continue
            r = rng.random()
            if r < 0.25:
                i = rng.randrange(6)
                x = rng.choice([0, 1, 2, 3, -1, 7, 5, -100, 2 ** 31 - 1]) if i in (0, 1, 5) else rng.choice([0, 1, 1, 0, 2, -1, 256, 1000, -1000, 512, 65536])
                if i == 1:
                    x = rng.choice([0, 0, 0, 1, 2, 3, -1])    # debug levels (output goes to the discarded stderr)
                if i == 5:
                    x = rng.choice([1, 2, 3, 4, 5])
                self.lines.append('SET %d %d %d' % (k, i, x)); self.ops.append(('set', k, i, x))
                mirror[k]['sets'].append((i, x))
            elif r < 0.45:
                di = rng.randrange(len(P))
                self.lines += define_lines(k, P[di]); self.ops.append(('define', k, di))
                mirror[k]['def'] = di
            elif r < 0.8:
                di = mirror[k]['def']
                if di is None:
                    toks = [1]
                    dd = rng.randrange(len(P))
                    toks = rng.choice(P[dd]['inputs'])
                else:
                    toks = rng.choice(P[di]['inputs'])
                if di is not None and rng.random() < 0.3:
                    # a token code that is not declared, taken uniformly from the whole range of the dense code table
                    # (below the smallest, in every gap between declared codes) or just above the largest declared code
                    dc = declared_codes(P[di])
                    if dc:
                        cand = [c for c in range(0, max(dc) + 3) if c not in dc]
                        if cand:
                            toks = list(toks)
                            toks.insert(rng.randrange(len(toks) + 1), rng.choice(cand))
                am = rng.choice([0, 0, 1, 2]) if not only_c15 else rng.choice([0, 0, 0, 3])
                if nparse >= 12:
                    continue
                self.lines.append('PARSE %d %d %d %s' % (k, am, len(toks), ' '.join(map(str, toks))))
                self.ops.append(('parse', k, am, list(toks), list(mirror[k]['sets']), di))
                trees.append((nparse, am)); nparse += 1
            elif r < 0.9:
                self.lines.append('ERR %d' % k); self.ops.append(('err', k))
            else:
                self.lines.append('FREEG %d' % k); self.ops.append(('freeg', k))
                del live[k]
        for k in sorted(live):
            # read every setting back (the setters return the previous value)
            for i in range(6):
                self.lines.append('SET %d %d %d' % (k, i, 1)); self.ops.append(('set', k, i, 1))
        for k in sorted(live):
            self.lines.append('FREEG %d' % k); self.ops.append(('freeg', k))
        for (pi, am) in trees:
            if am in (0, 1):
                self.lines.append('FREET %d 1' % pi); self.ops.append(('freet', pi))
        self.lines.append('END')

    def script(self):
        return '\n'.join(self.lines)


def run(pid, tier, seed, replay=None):
    chk = Check(pid, tier, seed)
    chk.coq()
    try:
        exe = yvlib.build_impl('c')
    except yvlib.BuildError as e:
        chk.obl['broken'].append('implementation does not build: ' + str(e)[-800:])
        return chk.finish()
    quick = tier == 'quick'
    rng = chk.rng
    P = pool()
    # 1. every definition on a fresh object: its code
    sc = []
    for di, d in enumerate(P):
        sc.append('\n'.join(['CASE d%d' % di, 'NEW 0'] + define_lines(0, d) + ['ERR 0', 'FREEG 0', 'END']))
    dres = yvlib.run_driver(exe, '\n'.join(sc), leaks=True)
    dcode = []
    for di, r in enumerate(dres):
        ops = r.get('ops', [])
        if 'abort' in r or len(ops) < 2:
            chk.violation('%s:definition-abort:d%d' % (pid, di), 'definition %d on a fresh object aborted: %s' % (di, r.get('abort')),
                          {'property': pid, 'definition': P[di].get('text') or yvlib.grammar_text(P[di]['g']), 'implementation': r})
            dcode.append(None)
        else:
            dcode.append(ops[1]['rc'])
    stats = {'definitions': len(P), 'definition_codes': dcode}
    # 2. histories
    H = [Hist(rng, P, i, 14 if quick else 40, only_c15=(pid == 'C15')) for i in range(1200 if quick else 12000)]
    hres = yvlib.run_driver(exe, '\n'.join(h.script() for h in H), leaks=(pid == 'C14'))
    # 3. model expectations
    qs = []
    for h in H:
        enc = []
        n = 0
        for o in h.ops:
            if o[0] == 'set':
                enc += [o[1], 0, o[2], o[3]]; n += 1
            elif o[0] == 'define':
                c = dcode[o[2]]
                enc += [o[1], 1, o[2], c if c is not None else 99]; n += 1
            elif o[0] == 'parse':
                k, am, toks, sets, di = o[1:]
                inv = 0
                if di is not None and dcode[di] == 0:
                    declared = declared_codes(P[di])
                    for t in toks:
                        if t < 0:
                            break
                        if t not in declared:
                            inv = 1
                            break
                enc += [k, 2, 1 if am == 3 else 0, inv]; n += 1
            elif o[0] == 'err':
                enc += [o[1], 3]; n += 1
            elif o[0] in ('new', 'freeg'):
                # a fresh object in this slot: model it by a fresh slot id
                pass
        qs.append((n, enc))
    # slots are re-used after FREEG: rename (slot, generation) -> model object id
    qlines = []
    for h, (n, enc) in zip(H, qs):
        gen_of = {}
        out = []
        n2 = 0
        for o in h.ops:
            if o[0] == 'new':
                gen_of[o[1]] = gen_of.get(o[1], -1) + 1
        # second pass with renaming
        gen_of = {}
        for o in h.ops:
            if o[0] == 'new':
                gen_of[o[1]] = gen_of.get(o[1], -1) + 1
                continue
            if o[0] in ('freeg', 'freet', 'eofval'):
                continue
            k = o[1]
            oid = k * 100 + gen_of[k]
            if o[0] == 'set':
                out += [oid, 0, o[2], o[3]]
            elif o[0] == 'define':
                c = dcode[o[2]]
                out += [oid, 1, o[2], c if c is not None else 99]
            elif o[0] == 'parse':
                am, toks, sets, di = o[2:]
                inv = 0
                if di is not None and dcode[di] == 0:
                    declared = declared_codes(P[di])
                    for t in toks:
                        if t < 0:
                            break
                        if t not in declared:
                            inv = 1
                            break
                out += [oid, 2, 1 if am == 3 else 0, inv]
            elif o[0] == 'err':
                out += [oid, 3]
            n2 += 1
        qlines.append('API %d %s' % (n2, ' '.join(map(str, out))))
    model = [[int(x) for x in a.split()] if a.strip() else [] for a in yvlib.run_oracle(qlines)]
    # 4. fresh-object replays of the parses that are expected to succeed (rc 0)
    rsc, ridx = [], []
    for hi, h in enumerate(H):
        for oi, o in enumerate(h.ops):
            if o[0] == 'parse' and o[5] is not None and dcode[o[5]] == 0 and o[2] != 3:
                k, am, toks, sets, di = o[1:]
                L = ['CASE r%d_%d' % (hi, oi), 'NEW 0'] + ['SET 0 %d %d' % s for s in sets] + define_lines(0, P[di])
                L += ['PARSE 0 %d %d %s' % (am, len(toks), ' '.join(map(str, toks))), 'FREEG 0', 'END']
                rsc.append('\n'.join(L)); ridx.append((hi, oi))
    rres = dict(zip(ridx, yvlib.run_driver(exe, '\n'.join(rsc))))
    stats.update({'histories': len(H), 'replays': len(rsc), 'ops': sum(len(h.ops) for h in H)})
    # 5. compare
    nparse_cmp = 0
    for hi, (h, r) in enumerate(zip(H, hres)):
        ops = r.get('ops', [])
        rep = {'property': pid, 'history': h.lines, 'implementation': r}
        key = tuple(h.lines)
        nobj = len({o[1] for o in h.ops if o[0] == 'new'})
        chk.note_case(key, len(h.ops) > 4, {'history': h.lines[:14], 'objects': nobj})
        sigbase = '%s:%%s:%s' % (pid, ' ; '.join(h.lines[1:-1])[:1500])
        if 'abort' in r or 'exit_problem' in r:
            what = r.get('abort') or r['exit_problem'].get('abort')
            st = r.get('stderr') or r.get('exit_problem', {}).get('stderr')
            if pid == 'C14':
                chk.violation(sigbase % 'abort', 'history aborted / leaked: %s %s' % (what, (st or [''])[:2]), rep)
            elif 'abort' in r and len(ops) < len(h.ops):
                # C15: the call that did not return is a parse that had to return YAEP_INVALID_TOKEN_CODE, a setter or an error query
                o = h.ops[len(ops)]
                inv = False
                if o[0] == 'parse' and o[5] is not None and dcode[o[5]] == 0:
                    dc = declared_codes(P[o[5]])
                    for t in o[3]:
                        if t < 0:
                            break
                        if t not in dc:
                            inv = True
                            break
                if inv or o[0] in ('set', 'err'):
                    chk.violation(sigbase % 'abort', 'op %d (%s) did not return: %s %s' % (len(ops), 'parse of an input with an undeclared token code' if inv else o[0], what, (st or [''])[:2]), rep)
            continue
        mi = 0
        exp = model[hi]
        bad = None
        for oi, (o, res) in enumerate(zip(h.ops, ops)):
            if o[0] in ('new', 'freeg', 'freet', 'eofval'):
                if o[0] == 'new' and pid == 'C15':
                    if not (res.get('ok') == 1 and res.get('ec') == 0 and res.get('em') == ''):
                        bad = 'new object: error code %s message %r' % (res.get('ec'), res.get('em'))
                if o[0] == 'freet' and pid == 'C14' and res.get('live_blocks', 0) != 0:
                    bad = 'after yaep_free_tree %d blocks of the parse are still allocated' % res['live_blocks']
                if o[0] == 'freet' and pid == 'C14' and any(f < 0 for f in res.get('frees', [])):
                    bad = 'yaep_free_tree passed a block to parse_free twice or a pointer parse_alloc never returned (-1000000000: a null pointer): %s' % [f for f in res['frees'] if f < 0][:4]
                continue
            e = exp[mi] if mi < len(exp) else None
            mi += 1
            if o[0] == 'set':
                if res['old'] != e:
                    bad = 'op %d: setter %d returned %d, previous value was %d' % (oi, o[2], res['old'], e)
            elif o[0] == 'define':
                if res['rc'] != e:
                    bad = 'op %d: definition returned %d, on a fresh object it returns %d' % (oi, res['rc'], e)
                elif (res['rc'] != 0) and (res['ec'] != res['rc'] or res['emlen'] == 0):
                    bad = 'op %d: failing definition rc=%d but error_code=%d message length %d' % (oi, res['rc'], res['ec'], res['emlen'])
            elif o[0] == 'err':
                if res['ec'] != e:
                    bad = 'op %d: yaep_error_code = %d, the last failing call on the object returned %d' % (oi, res['ec'], e)
                elif e != 0 and res['emlen'] == 0:
                    bad = 'op %d: error code %d with an empty message' % (oi, e)
            elif o[0] == 'parse':
                if res['rc'] != e:
                    bad = 'op %d: yaep_parse returned %d, expected %d' % (oi, res['rc'], e)
                elif pid == 'C14' and any(f < 0 for f in res.get('frees', [])):
                    bad = 'op %d: yaep_parse passed a block to parse_free twice or a pointer parse_alloc never returned (-1000000000: a null pointer)' % oi
                elif pid == 'C14' and res.get('nodes') and any(n['k'] == 'anode' and 'name_block' in n and n['name_block'] < res['first_block'] for n in res['nodes']):
                    bad = 'op %d: a node name of the returned tree lies in a block allocated by an earlier parse' % oi
                elif res.get('reads_after_end', 0) != 0:
                    bad = 'op %d: read_token was called %d more time(s) after it had signalled the end of input' % (oi, res['reads_after_end'])
                elif res['rc'] != 0 and pid == 'C15' and (res['ec'] != res['rc'] or res['emlen'] == 0):
                    bad = 'op %d: yaep_parse returned %d but error_code=%d message length %d' % (oi, res['rc'], res['ec'], res['emlen'])
                elif (hi, oi) in rres and pid == 'C14':
                    fr = rres[(hi, oi)]
                    fp = [x for x in fr.get('ops', []) if x['op'] == 'parse']
                    nparse_cmp += 1
                    if 'abort' in fr or not fp:
                        pass    # the fresh replay itself failed: not this history's problem (reported by the parse checks)
                    elif canon_parse(fp[0]) != canon_parse(res):
                        bad = 'op %d: parse result differs from the same call on a fresh object' % oi
                        rep = dict(rep, fresh=fr)
            if bad:
                break
        if bad:
            chk.violation(sigbase % 'result', bad, rep)
    stats['parses_compared_with_fresh_object'] = nparse_cmp
    # 6. a parse that ends in its error handler because one memory request failed (fault build): afterwards the setters
    #    return the values that were set (C15) and the next parse returns what it returns without the failure (C14)
    try:
        exe_f = yvlib.build_impl('fault')
    except yvlib.BuildError as e:
        chk.obl['broken'].append('implementation (fault build) does not build: ' + str(e)[-800:])
        return chk.finish(extra_cov={'stream': stats})
    goodp = [d for di, d in enumerate(P) if dcode[di] == 0 and d['inputs'] and any(len(w) >= 3 for w in d['inputs'])]
    fsc = []
    for j in range(6 if quick else 30):
        d = goodp[j % len(goodp)] if j < len(goodp) else rng.choice(goodp)
        w = max(d['inputs'], key=len) if rng.random() < 0.7 else rng.choice(d['inputs'])
        sets = [(0, rng.choice([0, 1, 2])), (2, rng.choice([0, 1, 1])), (3, rng.choice([0, 1, 1])), (4, rng.choice([0, 1])), (5, rng.choice([1, 2, 3]))]
        fsc.append((d, w, sets))

    def fault_case(cid, d, w, sets, k):
        L = ['CASE %s' % cid, 'NEW 0'] + ['SET 0 %d %d' % s_ for s_ in sets] + define_lines(0, d) + ['COUNTERS', 'FAILAT %d' % k,
             'PARSE 0 0 %d %s' % (len(w), ' '.join(map(str, w))), 'FAILAT -1', 'COUNTERS']
        L += ['SET 0 %d %d' % s_ for s_ in sets]
        L += ['PARSE 0 0 %d %s' % (len(w), ' '.join(map(str, w))), 'ERR 0', 'FREEG 0', 'END']
        return '\n'.join(L)
    fbase = yvlib.run_driver(exe_f, '\n'.join(fault_case('fb%d' % j, d, w, sets, -1) for j, (d, w, sets) in enumerate(fsc)))
    fscript, fmeta = [], []
    for j, ((d, w, sets), r) in enumerate(zip(fsc, fbase)):
        cs = [o for o in r.get('ops', []) if o['op'] == 'counters']
        if 'abort' in r or len(cs) < 2:
            continue
        n = cs[1]['allocs'] - cs[0]['allocs']
        ks = list(range(1, n + 1))
        if quick and len(ks) > 40:
            ks = sorted(set(ks[-15:] + rng.sample(ks[:-15], 25)))
        for k in ks:
            fscript.append(fault_case('ff%d_%d' % (j, k), d, w, sets, k)); fmeta.append((j, k))
    fres = yvlib.run_driver(exe_f, '\n'.join(fscript), timeout_case=30) if fscript else []
    nfail = 0
    for (j, k), r in zip(fmeta, fres):
        d, w, sets = fsc[j]
        b = fbase[j]
        rep = {'property': pid, 'definition': d.get('text') or yvlib.grammar_text(d['g']), 'settings': sets, 'tokens': w, 'failing_request': k, 'implementation': r}
        sig = '%s:%%s:fault:%s|%s|%s|k=%d' % (pid, (d.get('text') or yvlib.grammar_text(d['g'])).replace('\n', ' ')[:300], sets, w, k)
        chk.note_case(('fault', j, k), True, {'history': ['settings %s' % sets, 'parse with request %d failing' % k, 'read settings', 'parse'], 'objects': 1})
        if 'abort' in r:
            continue        # a crash on a failing request is C17's
        ops, bops = r['ops'], b['ops']
        cs = [o for o in ops if o['op'] == 'counters']
        if len(cs) < 2 or cs[1]['fail_seen'] != 1:
            continue
        nfail += 1
        rs = [o['old'] for o in ops if o['op'] == 'set'][len(sets):]
        bs = [o['old'] for o in bops if o['op'] == 'set'][len(sets):]
        p2 = [o for o in ops if o['op'] == 'parse'][-1]
        b2 = [o for o in bops if o['op'] == 'parse'][-1]
        if pid == 'C15' and rs != bs:
            chk.violation(sig % 'settings', 'after a parse that returned %d (memory request %d failed) the setters return %s as previous values, %s were set' % (
                [o for o in ops if o['op'] == 'parse'][0]['rc'], k, rs, bs), rep)
        elif pid == 'C14' and canon_parse(p2) != canon_parse(b2):
            chk.violation(sig % 'parse', 'after a parse in which memory request %d failed the next parse differs from the same parse without the failure' % k, dict(rep, without_failure=b))
    # the histories once more on the counting build: when every object and every tree has been freed the library holds
    # as many blocks as before the first call (storage that is still reachable from its static variables is not a
    # leak for LeakSanitizer, so it is counted here)
    if pid == 'C14':
        sub = H[:(400 if quick else 4000)]
        ls = []
        for h in sub:
            L = list(h.lines)
            ls.append('\n'.join([L[0], 'COUNTERS'] + L[1:-1] + ['COUNTERS', L[-1]]))
        lres = yvlib.run_driver(exe_f, '\n'.join(ls)) if ls else []
        nheld = 0
        for h, r in zip(sub, lres):
            cs = [o for o in r.get('ops', []) if o['op'] == 'counters']
            if 'abort' in r or len(cs) < 2:
                continue
            nheld += 1
            if cs[-1]['live'] != cs[0]['live']:
                chk.violation('%s:held:%s' % (pid, ' ; '.join(h.lines[1:-1])[:1500]), 'after every object and tree of the history was freed the library holds %d block(s) more than before it' % (
                    cs[-1]['live'] - cs[0]['live']), {'property': pid, 'history': h.lines, 'implementation': r})
        stats['histories_checked_for_held_memory'] = nheld
    stats['fault_histories'] = len(fscript)
    stats['fault_histories_with_failure'] = nfail
    chk.cov['rule'] = ('random API histories (create/set/define by callbacks or text/parse/error code/free) over 1-3 live objects from a pool of %d good and defective '
                       'definitions; a history is non-trivial when it has more than 4 calls; distinct = distinct call sequence' % len(P))
    return chk.finish(extra_cov={'stream': stats})


def declared_codes(d):
    if d.get('codes') is not None:
        return set(d['codes'])
    if d['kind'] == 'read':
        return {c for n, c in d['g']['terms']}
    # description texts of the pool: explicit codes and character constants
    import re
    s = set()
    for m in re.finditer(r"'(.)'", d['text']):
        s.add(ord(m.group(1)))
    for m in re.finditer(r"=\s*(\d+)", d['text']):
        s.add(int(m.group(1)))
    return s
