#!/usr/bin/env python3
"""Fact translator: regenerates coq/theories/Generated.v from the C sources of
/repo's working tree.  Everything emitted here is a constant, a table or a
side-effect-free C expression; the Coq development proves its side conditions
about these (GeneratedChecks.v), so that an edit of the source which changes a
fact breaks a proof obligation.

usage: extract_facts.py <srcdir> <out.v>
Fails (exit 1) when a pattern no longer matches: that is a broken obligation,
not a silent skip."""
import re, sys, os


class Fail(Exception):
    pass


# ---------------------------------------------------------------------------
# A tokenizer and recursive-descent parser for side-effect-free C expressions
# ( ?: , || && , comparisons, + - * / %, unary - !, member access a->b / a.b,
# integer literals, identifiers, casts are dropped ) printing Gallina over Z.

TOK = re.compile(r'\s*(?:(\d+)[uUlL]*|([A-Za-z_]\w*(?:\s*(?:->|\.)\s*[A-Za-z_]\w*)*)|(<=|>=|==|!=|&&|\|\||<<|>>|[-+*/%<>!?:()]))')


def tokenize(s):
    out, i = [], 0
    s = s.strip()
    while i < len(s):
        m = TOK.match(s, i)
        if not m:
            raise Fail('cannot tokenize C expression at: ' + s[i:i + 30])
        if m.group(1) is not None:
            out.append(('num', int(m.group(1))))
        elif m.group(2) is not None:
            out.append(('id', re.sub(r'\s+', '', m.group(2))))
        else:
            out.append(('op', m.group(3)))
        i = m.end()
    return out


class P:
    def __init__(self, toks, ren):
        self.t, self.i, self.ren = toks, 0, ren

    def peek(self):
        return self.t[self.i] if self.i < len(self.t) else ('eof', None)

    def eat(self, v=None):
        k = self.peek()
        if v is not None and k[1] != v:
            raise Fail('expected %r, got %r' % (v, k))
        self.i += 1
        return k

    def expr(self):
        c = self.lor()
        if self.peek() == ('op', '?'):
            self.eat()
            a = self.expr()
            self.eat(':')
            b = self.expr()
            return '(if %s then %s else %s)' % (self.asbool(c), a, b)
        return c

    def asbool(self, c):
        if c.startswith('(B:'):
            return c[3:-1]
        return '(negb (Z.eqb %s 0))' % c

    def asint(self, c):
        if c.startswith('(B:'):
            return '(if %s then 1 else 0)' % c[3:-1]
        return c

    def lor(self):
        a = self.land()
        while self.peek() == ('op', '||'):
            self.eat()
            b = self.land()
            a = '(B:(orb %s %s))' % (self.asbool(a), self.asbool(b))
        return a

    def land(self):
        a = self.cmp()
        while self.peek() == ('op', '&&'):
            self.eat()
            b = self.cmp()
            a = '(B:(andb %s %s))' % (self.asbool(a), self.asbool(b))
        return a

    def cmp(self):
        a = self.add()
        while self.peek()[0] == 'op' and self.peek()[1] in ('<', '>', '<=', '>=', '==', '!='):
            op = self.eat()[1]
            b = self.add()
            a, b = self.asint(a), self.asint(b)
            f = {'<': 'Z.ltb %s %s', '>': 'Z.ltb %s %s', '<=': 'Z.leb %s %s', '>=': 'Z.leb %s %s',
                 '==': 'Z.eqb %s %s', '!=': 'negb (Z.eqb %s %s)'}[op]
            if op in ('>', '>='):
                a, b = b, a
            a = '(B:(%s))' % (f % (a, b))
        return a

    def add(self):
        a = self.mul()
        while self.peek()[0] == 'op' and self.peek()[1] in ('+', '-'):
            op = self.eat()[1]
            b = self.mul()
            a = '(%s %s %s)' % (self.asint(a), op, self.asint(b))
        return a

    def mul(self):
        a = self.unary()
        while self.peek()[0] == 'op' and self.peek()[1] in ('*', '/', '%'):
            op = self.eat()[1]
            b = self.unary()
            o = {'*': '*', '/': '/', '%': 'mod'}[op]     # operands are non-negative where this is used
            a = '(%s %s %s)' % (self.asint(a), o, self.asint(b))
        return a

    def unary(self):
        k = self.peek()
        if k == ('op', '-'):
            self.eat()
            return '(- %s)' % self.asint(self.unary())
        if k == ('op', '!'):
            self.eat()
            return '(B:(negb %s))' % self.asbool(self.unary())
        if k == ('op', '('):
            self.eat()
            e = self.expr()
            self.eat(')')
            return e
        if k[0] == 'num':
            self.eat()
            return str(k[1])
        if k[0] == 'id':
            self.eat()
            name = k[1]
            if name not in self.ren:
                raise Fail('unexpected identifier %s in C expression' % name)
            return self.ren[name]
        raise Fail('unexpected token %r' % (k,))


def c_expr_to_gallina(src, ren):
    p = P(tokenize(src), ren)
    e = p.expr()
    if p.peek()[0] != 'eof':
        raise Fail('trailing tokens in C expression: ' + src)
    return p.asint(e)


def c_cond_to_gallina(src, ren):
    p = P(tokenize(src), ren)
    e = p.expr()
    if p.peek()[0] != 'eof':
        raise Fail('trailing tokens in C expression: ' + src)
    return p.asbool(e)


# ---------------------------------------------------------------------------

def func_body(text, name, ret_hint=None):
    """Body (between the outermost braces) of the C function definition `name (`."""
    for m in re.finditer(r'^' + re.escape(name) + r'\s*\(', text, re.M):
        j = text.find(')', m.end())
        # find the opening brace after the parameter list (skip K&R-free prototypes ending in ;)
        depth, k = 0, m.end() - 1
        while k < len(text):
            if text[k] == '(':
                depth += 1
            elif text[k] == ')':
                depth -= 1
                if depth == 0:
                    break
            k += 1
        rest = text[k + 1:]
        mm = re.match(r'\s*\{', rest)
        if not mm:
            continue
        start = k + 1 + mm.end()
        depth, i = 1, start
        while i < len(text) and depth:
            if text[i] == '{':
                depth += 1
            elif text[i] == '}':
                depth -= 1
            i += 1
        return text[start:i - 1]
    raise Fail('function %s not found' % name)


def strip_comments(t):
    return re.sub(r'/\*.*?\*/', ' ', t, flags=re.S)


def define(text, name):
    m = re.search(r'^#define\s+' + re.escape(name) + r'\s+(.+?)\s*$', text, re.M)
    if not m:
        raise Fail('#define %s not found' % name)
    return m.group(1).strip()



def strip_preproc(body):
    """Take the C (not C++) branch of #ifndef __cplusplus / #ifdef __cplusplus blocks, drop the debug-print
    blocks (#ifndef NO_YAEP_DEBUG_PRINT) and the verification hooks (#ifdef YAEP_VERIF)."""
    out, stack = [], []     # stack of booleans: are we emitting
    for line in body.split('\n'):
        t = line.strip()
        if t.startswith('#ifndef __cplusplus'):
            stack.append(['c', True])
        elif t.startswith('#ifdef __cplusplus'):
            stack.append(['c', False])
        elif t.startswith('#ifndef NO_YAEP_DEBUG_PRINT') or t.startswith('#ifdef YAEP_VERIF'):
            stack.append(['d', False])
        elif t.startswith('#if'):
            stack.append(['o', True])
        elif t.startswith('#else'):
            if stack and stack[-1][0] in ('c', 'd'):
                stack[-1][1] = not stack[-1][1]
        elif t.startswith('#endif'):
            if stack:
                stack.pop()
        elif all(e[1] for e in stack):
            out.append(line)
    return '\n'.join(out)



def strip_preproc_abs(body):
    """Keep the branches compiled by default: ABSOLUTE_DISTANCES and TRANSITIVE_TRANSITION are not defined."""
    out, stack = [], []
    for line in body.split('\n'):
        t = line.strip()
        if t.startswith('#ifndef ABSOLUTE_DISTANCES'):
            stack.append(True)
        elif t.startswith('#ifdef ABSOLUTE_DISTANCES') or t.startswith('#ifdef TRANSITIVE_TRANSITION') or t.startswith('#ifdef YAEP_VERIF'):
            stack.append(False)
        elif t.startswith('#ifndef TRANSITIVE_TRANSITION'):
            stack.append(True)
        elif t.startswith('#if'):
            stack.append(True)
        elif t.startswith('#else'):
            if stack:
                stack[-1] = not stack[-1]
        elif t.startswith('#endif'):
            if stack:
                stack.pop()
        elif all(stack):
            out.append(line)
    return '\n'.join(out)


def block_after(text, pos):
    """text[pos] is '{' : returns (inside, index after the closing brace)."""
    assert text[pos] == '{'
    depth, i = 1, pos + 1
    while i < len(text) and depth:
        if text[i] == '{':
            depth += 1
        elif text[i] == '}':
            depth -= 1
        i += 1
    return text[pos + 1:i - 1], i


def parse_protocol(yaep_c):
    """The init / fin / flag protocol of yaep_parse around its setjmp: the calls and flag assignments before the
    handler is installed, the handler, and the calls and flag assignments after it up to `return 0'."""
    body = strip_preproc(func_body(yaep_c, 'yaep_parse'))
    m = re.search(r'if\s*\(\s*\(\s*code\s*=\s*setjmp\s*\(\s*error_longjump_buff\s*\)\s*\)\s*!=\s*0\s*\)\s*\{', body)
    if not m:
        raise Fail('yaep_parse: setjmp handler not found')
    handler_src, after = block_after(body, m.end() - 1)
    pre_src = body[:m.start()]
    # the protocol part of the prologue starts after the last assignment of the callbacks/outputs
    k = pre_src.rfind('*ambiguous_p')
    if k < 0:
        raise Fail('yaep_parse: prologue anchor not found')
    pre_src = pre_src[pre_src.index(';', k) + 1:]
    post_src = body[after:]
    r = post_src.find('return 0')
    if r < 0:
        raise Fail('yaep_parse: final return not found')
    post_src = post_src[:r]
    decl = re.search(r'(volatile\s+)?int\s+tok_init_p\s*,\s*parse_init_p\s*;', body)
    if not decl:
        raise Fail('yaep_parse: declaration of the flags not found')
    flags = ['tok_init_p', 'parse_init_p']
    saves, restores = [], []

    def steps(src, where):
        out = []
        # drop an `if (cond) yaep_error (...);' statement (a call that only fails) but keep it as a failing call
        src = re.sub(r'if\s*\([^;{}]*\)\s*yaep_error\s*\([^;]*\)\s*;', ' yaep_error_if (); ', src)
        for st in [x.strip() for x in src.split(';')]:
            if not st:
                continue
            st = re.sub(r'\s+', ' ', st)
            mm = re.fullmatch(r'((?:\w+ = )+)(TRUE|FALSE)', st)
            if mm:
                for f in re.findall(r'(\w+) =', mm.group(1)):
                    if f not in flags:
                        raise Fail('yaep_parse (%s): assignment to unknown flag %s' % (where, f))
                    out.append('PSet "%s" %s' % (f, 'true' if mm.group(2) == 'TRUE' else 'false'))
                continue
            mm = re.fullmatch(r'(?:[*\w]+ = )?(\w+) \(([^()]*)\)(?: - \w+)?', st)
            if mm:
                if mm.group(1) in ('get_all_collisions', 'get_all_searches'):
                    continue
                out.append('PCall "%s"' % mm.group(1))
                continue
            if re.fullmatch(r'n_goto_successes = 0', st):
                continue
            mm = re.fullmatch(r'(\w+) = grammar->(\w+)', st)
            if mm and mm.group(1) == mm.group(2) and where == 'prologue':
                # a setting of the grammar saved in a local before the handler is installed
                saves.append(mm.group(1))
                continue
            raise Fail('yaep_parse (%s): statement not understood: %s' % (where, st[:60]))
        return out

    def hsteps(src):
        out = []
        src = re.sub(r'\s+', ' ', src)
        for st in [x.strip() for x in src.split(';')]:
            if not st or st.startswith('return'):
                continue
            mm = re.fullmatch(r'if \((\w+)\) (\w+) \(\)', st)
            if mm:
                out.append('HIf "%s" "%s"' % (mm.group(1), mm.group(2)))
                continue
            mm = re.fullmatch(r'(\w+) \(\)', st)
            if mm:
                out.append('HCall "%s"' % mm.group(1))
                continue
            mm = re.fullmatch(r'grammar->(\w+) = (\w+)', st)
            if mm and mm.group(1) == mm.group(2):
                restores.append(mm.group(1))
                continue
            raise Fail('yaep_parse (handler): statement not understood: %s' % st[:60])
        return out
    pre, post, hnd = steps(pre_src, 'prologue'), steps(post_src, 'body'), hsteps(handler_src)
    # which prologue calls allocate (they run before the handler is installed, so they must not)
    allocs = []
    for c in pre:
        mm = re.match(r'PCall "(\w+)"', c)
        if mm:
            fb = func_body(yaep_c, mm.group(1))
            if re.search(r'\b(yaep_malloc|yaep_calloc|yaep_realloc|OS_CREATE|VLO_CREATE|OS_TOP_EXPAND|VLO_EXPAND|create_hash_table)\b', fb):
                allocs.append(mm.group(1))
    # a saved local must not be assigned again after the handler is installed (it would be indeterminate after longjmp)
    reassigned = [v for v in saves if re.search(r'(?<![\w>.])%s\s*(=[^=]|\+\+|--|[-+|&]=)' % v, body[after:])]
    # settings of the grammar that the library itself assigns outside the setters and yaep_create_grammar
    SET = ['lookahead_level', 'debug_level', 'one_parse_p', 'cost_p', 'error_recovery_p', 'recovery_token_matches']
    changed = []
    for fm in re.finditer(r'^(\w+) \(([^;{}()]*)\)\s*\{', yaep_c, re.M):
        fn = fm.group(1)
        if fn.startswith('yaep_set_') or fn in ('yaep_create_grammar', 'main'):
            continue
        try:
            fb = func_body(yaep_c, fn)
        except Exception:
            continue
        for f in SET:
            if re.search(r'grammar\s*->\s*%s\s*=[^=]' % f, fb) and f not in changed:
                if fn == 'yaep_parse' and f in restores:
                    # the restoring assignment of the handler itself
                    if len(re.findall(r'grammar\s*->\s*%s\s*=[^=]' % f, fb)) == 1:
                        continue
                changed.append(f)
    return pre, hnd, post, bool(decl.group(1)), allocs, saves, restores, reassigned, changed


def zlit(v):
    v = int(v)
    return '(%d)' % v if v < 0 else str(v)


def main():
    src, out = sys.argv[1], sys.argv[2]
    rd = lambda f: open(os.path.join(src, f)).read()
    yaep_c = strip_comments(rd('yaep.c'))
    yaep_h = strip_comments(rd('yaep.h'))
    sgramm = strip_comments(rd('sgramm.y'))
    L = ['(* generated by tools/extract_facts.py from the C sources - do not edit *)',
         'From YV Require Import Prelude.', 'From Coq Require Import String.', 'Local Open Scope Z_scope.', '']

    # error codes
    codes = re.findall(r'^#define\s+(YAEP_[A-Z_]+)\s+(\d+)\s*$', yaep_h, re.M)
    if len(codes) < 17:
        raise Fail('error code macros of yaep.h not found')
    L.append('Definition err_codes : list (string * Z) := [')
    L.append(';\n'.join('  ("%s"%%string, %s)' % (n, v) for n, v in codes))
    L.append('].')
    for n, v in codes:
        L.append('Definition %s : Z := %s.' % (n, v))
    L.append('')

    # defaults of yaep_create_grammar
    body = func_body(yaep_c, 'yaep_create_grammar')
    dflt = {}
    for f in ('debug_level', 'lookahead_level', 'one_parse_p', 'cost_p', 'error_recovery_p', 'recovery_token_matches',
              'undefined_p', 'error_code'):
        m = re.search(r'grammar->' + f + r'\s*=\s*([^;]+);', body)
        if not m:
            raise Fail('default of %s not found in yaep_create_grammar' % f)
        v = m.group(1).strip()
        v = {'TRUE': '1', 'FALSE': '0'}.get(v, v)
        if not re.fullmatch(r'-?\d+', v):
            v = define(yaep_c, v)
        dflt[f] = int(v)
    L.append('(* la, debug, one_parse, cost, recovery, match : the order of the setters *)')
    L.append('Definition defaults : list Z := [%s].' % '; '.join(zlit(dflt[k]) for k in
             ('lookahead_level', 'debug_level', 'one_parse_p', 'cost_p', 'error_recovery_p', 'recovery_token_matches')))
    L.append('Definition default_undefined : Z := %s.' % zlit(dflt['undefined_p']))
    L.append('Definition default_error_code : Z := %s.' % zlit(dflt['error_code']))
    m = re.search(r'\*\s*grammar->error_message\s*=\s*\'\\0\'', body)
    L.append('Definition default_message_empty : bool := %s.' % ('true' if m else 'false'))
    L.append('')

    # setters: old = g->f; g->f = <expr>; return old;
    setters = [('yaep_set_lookahead_level', 'lookahead_level', 'level'), ('yaep_set_debug_level', 'debug_level', 'level'),
               ('yaep_set_one_parse_flag', 'one_parse_p', 'flag'), ('yaep_set_cost_flag', 'cost_p', 'flag'),
               ('yaep_set_error_recovery_flag', 'error_recovery_p', 'flag'), ('yaep_set_recovery_match', 'recovery_token_matches', 'n_toks')]
    L.append('(* for each setter: the value stored for an argument, and whether it returns the previous value of the same field *)')
    shapes = []
    for i, (fn, field, arg) in enumerate(setters):
        b = func_body(yaep_c, fn)
        m_old = re.search(r'old\s*=\s*grammar->(\w+)\s*;', b)
        m_set = re.search(r'grammar->(\w+)\s*=\s*([^;]+);', b)
        m_ret = re.search(r'return\s+(\w+)\s*;', b)
        if not (m_old and m_set and m_ret):
            raise Fail('setter %s does not have the shape old = g->f; g->f = e; return old' % fn)
        good = (m_old.group(1) == field and m_set.group(1) == field and m_ret.group(1) == 'old'
                and b.index(m_old.group(0)) < b.index(m_set.group(0)))
        shapes.append(good)
        e = c_expr_to_gallina(m_set.group(2), {arg: 'x'})
        L.append('Definition setter_store_%d (x : Z) : Z := %s.   (* %s *)' % (i, e, fn))
    L.append('Definition setter_store (i : nat) (x : Z) : Z :=')
    L.append('  match i with ' + ' | '.join('%d%%nat => setter_store_%d x' % (i, i) for i in range(6)) + ' | _ => x end.')
    L.append('Definition setter_returns_old : list bool := [%s].' % '; '.join('true' if g else 'false' for g in shapes))
    L.append('')

    # reserved names / codes
    for nm in ('AXIOM_NAME', 'END_MARKER_NAME', 'TERM_ERROR_NAME'):
        L.append('Definition %s : string := %s%%string.' % (nm, define(yaep_c, nm)))
    for nm in ('END_MARKER_CODE', 'TERM_ERROR_CODE'):
        L.append('Definition %s : Z := %s.' % (nm, zlit(define(yaep_c, nm))))
    L.append('Definition SYMB_CODE_TRANS_VECT_SIZE : Z := %s.' % define(yaep_c, 'SYMB_CODE_TRANS_VECT_SIZE'))
    nil = define(yaep_h, 'YAEP_NIL_TRANSLATION_NUMBER')
    L.append('Definition NIL_TRANSLATION_NUMBER_is_INT_MAX : bool := %s.' % ('true' if nil == 'INT_MAX' else 'false'))
    L.append('')

    # goto cache
    L.append('Definition MAX_CACHED_GOTO_RESULTS : Z := %s.' % define(yaep_c, 'MAX_CACHED_GOTO_RESULTS'))
    b = func_body(yaep_c, 'check_cached_transition_set')
    m = re.search(r'if\s*\(\s*\(\s*dist\s*=\s*dists\s*\[\s*i\s*\]\s*\)\s*<=\s*(\d+)\s*\)\s*continue\s*;', b)
    m2 = re.search(r'pl\s*\[\s*pl_curr\s*\+\s*1\s*-\s*dist\s*\]\s*!=\s*pl\s*\[\s*place\s*\+\s*1\s*-\s*dist\s*\]', b)
    if not m or not m2:
        raise Fail('check_cached_transition_set: distance threshold / origin comparison not in the expected shape')
    L.append('Definition cache_thr : Z := %s.   (* start situations with distance <= cache_thr are not compared *)' % m.group(1))
    # the loop of the validity test visits every start situation of the cached set
    mh = re.search(r'for\s*\(([^;]*);([^;]*);([^)]*)\)', b)
    if not mh:
        raise Fail('check_cached_transition_set: loop not found')
    hdr = [re.sub(r'\s+', '', x) for x in mh.groups()]
    covers = (hdr == ['i=set->core->n_start_sits-1', 'i>=0', 'i--'] or hdr == ['i=0', 'i<set->core->n_start_sits', 'i++'])
    L.append('Definition cache_check_visits_all_start_sits : bool := %s.   (* loop header: %s *)' % ('true' if covers else 'false', '; '.join(hdr)))
    # an error recovery rewrites the parsing list: goto sets saved before it must not be used after it
    bp = strip_preproc(func_body(yaep_c, 'build_pl'))
    ok = (re.search(r'->\s*n_recoveries\s*\[\s*i\s*\]\s*=\s*n_recoveries\s*;', bp) and
          re.search(r'->\s*n_recoveries\s*\[\s*i\s*\]\s*==\s*n_recoveries\s*&&\s*check_cached_transition_set', bp) and
          re.search(r'error_recovery\s*\(\s*&start\s*,\s*&stop\s*\)\s*;\s*n_recoveries\s*\+\+\s*;', bp) and
          re.search(r'n_recoveries\s*=\s*0\s*;', bp) and
          len(re.findall(r'\berror_recovery\s*\(', bp)) == 1)
    L.append('Definition cache_entries_carry_recovery_number : bool := %s.' % ('true' if ok else 'false'))
    # the two places whose sets the validity test compares, and the place the completer of build_new_set looks at
    m3 = re.search(r'pl\s*\[([^\]]+)\]\s*!=\s*pl\s*\[([^\]]+)\]', b)
    ren = {'pl_curr': 'k', 'place': 'p', 'dist': 'd'}
    L.append('Definition cache_index_now (k p d : Z) : Z := %s.' % c_expr_to_gallina(m3.group(1), ren))
    L.append('Definition cache_index_then (k p d : Z) : Z := %s.' % c_expr_to_gallina(m3.group(2), ren))
    bn = strip_preproc_abs(func_body(yaep_c, 'build_new_set'))
    m4 = re.search(r'\bplace\s*=\s*([^;]+);\s*prev_set\s*=\s*pl\s*\[\s*place\s*\]', bn)
    if not m4:
        raise Fail('build_new_set: place of the completed rule not found')
    L.append('Definition completion_place (k d : Z) : Z := %s.' % c_expr_to_gallina(m4.group(1), {'pl_curr': 'k', 'new_dist': 'd'}))
    # the lookahead filters of build_new_set (scan loop, completion loop): the same clauses, among them the `error' exemption
    filt = re.findall(r'if\s*\(\s*local_lookahead_level\s*!=\s*0((?:\s*&&\s*!\s*term_set_test\s*\([^()]*\))+)\s*\)\s*continue\s*;', bn)
    if len(filt) != 2:
        raise Fail('build_new_set: expected two lookahead filters, found %d' % len(filt))
    def clauses(f):
        return sorted(re.sub(r'\s+', '', c) for c in re.findall(r'term_set_test\s*\(\s*new_sit->lookahead\s*,\s*([^()]*?)\s*\)', f))
    L.append('Definition la_filter_scan : list string := [%s]%%string.' % '; '.join('"%s"' % c for c in clauses(filt[0])))
    L.append('Definition la_filter_complete : list string := [%s]%%string.' % '; '.join('"%s"' % c for c in clauses(filt[1])))
    L.append('')

    # message buffer and formatting primitive
    m = re.search(r'#define\s+YAEP_MAX_ERROR_MESSAGE_LENGTH\s+(\d+)', yaep_c)
    if not m:
        raise Fail('YAEP_MAX_ERROR_MESSAGE_LENGTH not found')
    L.append('Definition MAX_ERROR_MESSAGE_LENGTH : Z := %s.' % m.group(1))
    b = func_body(yaep_c, 'yaep_error')
    if re.search(r'\bvsnprintf\s*\(\s*grammar->error_message\s*,\s*([^,]+),', b):
        bound = re.search(r'\bvsnprintf\s*\(\s*grammar->error_message\s*,\s*([^,]+),', b).group(1)
        be = c_expr_to_gallina(bound.replace('sizeof (grammar->error_message)', 'SZ').replace('sizeof(grammar->error_message)', 'SZ'),
                               {'YAEP_MAX_ERROR_MESSAGE_LENGTH': 'MAX_ERROR_MESSAGE_LENGTH', 'SZ': '(MAX_ERROR_MESSAGE_LENGTH + 1)'})
        L.append('Definition msg_bounded_by : option Z := Some %s.   (* vsnprintf bound *)' % be)
    elif re.search(r'\bvsprintf\s*\(', b):
        L.append('Definition msg_bounded_by : option Z := None.   (* vsprintf: unbounded *)')
    else:
        raise Fail('yaep_error: formatting primitive not recognised')
    L.append('')

    # implicit code counter of set_sgrammar
    b = func_body(sgramm, 'set_sgrammar')
    m = re.search(r'\bint\s+code\s*=\s*(\d+)\s*;', b)
    if not m:
        raise Fail('set_sgrammar: initial implicit code not found')
    L.append('Definition implicit_code_start : Z := %s.' % m.group(1))
    first_use = re.search(r'code\s*\+\+', b)
    clob = re.search(r'\(\s*code\s*=\s*setjmp', b) or re.search(r'[^=!<>]\bcode\s*=\s*[^=]', b[m.end():first_use.start() if first_use else None])
    L.append('Definition implicit_code_clobbered : bool := %s.' % ('true' if clob else 'false'))
    # the code of a character constant: the byte between the quotes, read as unsigned char or as plain (signed) char
    m = re.search(r'term\.code\s*=\s*(\(\s*unsigned\s+char\s*\)\s*)?term\.repr\s*\[\s*1\s*\]\s*;', sgramm)
    if not m:
        raise Fail('sgramm.y: the assignment of the code of a character constant was not found')
    L.append('Definition char_const_code_unsigned : bool := %s.' % ('true' if m.group(1) else 'false'))
    L.append('')

    # robustness facts of yaep.c (each one states how the source avoids a defect that was found and repaired)
    b = func_body(yaep_c, 'term_set_insert')
    ie, iv = b.find('*entry ='), b.find('VLO_ADD_MEMORY')
    if ie < 0 or iv < 0:
        raise Fail('term_set_insert: entry assignment / vector addition not found')
    L.append('(* the new terminal set is entered into the hash table after it has been added to the vector (the addition can fail) *)')
    L.append('Definition term_set_entered_after_vector_add : bool := %s.' % ('true' if ie > iv else 'false'))
    m = re.search(r'struct\s+sit\s*\{[^}]*?\b(short|int|long|char)\s+pos\s*;', yaep_c)
    if not m:
        raise Fail('struct sit: member pos not found')
    L.append('(* the type of the dot position of a situation *)')
    L.append('Definition sit_pos_is_int : bool := %s.' % ('true' if m.group(1) in ('int', 'long') else 'false'))
    b = func_body(yaep_c, 'prune_to_minimal')
    sat = re.search(r'if\s*\(\s*node->val\.anode\.cost\s*>\s*INT_MAX\s*-\s*\*cost\s*\)\s*node->val\.anode\.cost\s*=\s*INT_MAX\s*;\s*else\s*node->val\.anode\.cost\s*\+=\s*\*cost\s*;', b)
    plain = re.findall(r'node->val\.anode\.cost\s*\+=', b)
    L.append('(* minimal cost pruning: the sum of costs is kept in the range of int; the visit mark is the complement *)')
    L.append('Definition prune_sum_saturates : bool := %s.' % ('true' if sat and len(plain) == 1 else 'false'))
    neg = re.findall(r'-\s*node->val\.anode\.cost\s*-\s*1', yaep_c)
    cpl = re.findall(r'~\s*node->val\.anode\.cost', yaep_c)
    L.append('Definition visit_mark_is_complement : bool := %s.' % ('true' if not neg and len(cpl) >= 3 else 'false'))
    # the hashes kept in set cores and sets have the width of the hash functions' results (unsigned int)
    hf = re.findall(r'\b(unsigned(?:\s+(?:int|short|char|long))?)\s+(hash|dists_hash)\s*;', yaep_c)
    L.append('(* declared types of the hash members of struct set_core and struct set *)')
    L.append('Definition set_hash_members_are_unsigned_int : bool := %s.' % (
        'true' if sorted(n for t, n in hf) == ['dists_hash', 'hash'] and all(re.sub(r'\s+', ' ', t) in ('unsigned', 'unsigned int') for t, n in hf) else 'false'))
    L.append('')

    # hash table expressions (C and C++)
    for tag, fn, f in (('c', 'hashtab.c', None), ('cpp', 'hashtab.cpp', None)):
        t = strip_comments(rd(fn))
        m = re.search(r'if\s*\(\s*((?:htab->)?_?size\s*/\s*\d+\s*<=\s*(?:htab->)?_?number_of_elements\s*/\s*\d+)\s*\)\s*(?:this->)?expand', t)
        if not m:
            raise Fail('%s: expansion test not found' % fn)
        ren = {'htab->size': 'size', 'htab->number_of_elements': 'n', '_size': 'size', '_number_of_elements': 'n', 'size': 'size', 'number_of_elements': 'n'}
        L.append('Definition ht_need_expand_%s (size n : Z) : bool := %s.' % (tag, c_cond_to_gallina(m.group(1), ren)))
        m = re.search(r'secondary_hash_value\s*=\s*([^;]+);', t)
        if not m:
            raise Fail('%s: secondary hash not found' % fn)
        ren2 = dict(ren); ren2['hash_value'] = 'h'
        L.append('Definition ht_step_%s (size h : Z) : Z := %s.' % (tag, c_expr_to_gallina(m.group(1), ren2)))
        m = re.search(r'(?:create_hash_table|new hash_table)\s*\(\s*(?:htab->alloc|alloc|_alloc)\s*,\s*([^,]+),', t[t.index('expand'):])
        if not m:
            raise Fail('%s: new size in expansion not found' % fn)
        L.append('Definition ht_new_size_%s (n : Z) : Z := %s.' % (tag, c_expr_to_gallina(m.group(1), ren)))
    L.append('')

    # growth of the variable length object and of the object stack segment (C and C++)
    for tag, fv, fo in (('c', 'vlobject.c', 'objstack.c'), ('cpp', 'vlobject.cpp', 'objstack.cpp')):
        t = strip_comments(rd(fv))
        b = t[t.index('_VLO_expand_memory (size_t' if tag == 'cpp' else '_VLO_expand_memory (vlo_t'):]
        m1 = re.search(r'vlo_length\s*=\s*([^;]+);', b)
        m2 = re.search(r'vlo_length\s*\+=\s*([^;]+);', b)
        if not (m1 and m2):
            raise Fail('%s: growth of the variable length object not found' % fv)
        ren = {'VLO_LENGTH (*vlo)': 'len', 'length ()': 'len', 'additional_length': 'add', 'vlo_length': 'l'}
        e1 = m1.group(1).replace('VLO_LENGTH (*vlo)', 'len').replace('length ()', 'len')
        L.append('Definition vlo_new_len_%s (len add : Z) : Z := let l := %s in l + (%s).' % (
            tag, c_expr_to_gallina(e1, {'len': 'len', 'additional_length': 'add'}), c_expr_to_gallina(m2.group(1), {'vlo_length': 'l'})))
        t = strip_comments(rd(fo))
        b = t[t.index('_OS_expand_memory (size_t' if tag == 'cpp' else '_OS_expand_memory (os_t'):]
        m1 = re.search(r'segment_length\s*=\s*([^;]+);', b)
        m2 = re.search(r'segment_length\s*\+=\s*([^;]+);', b)
        m3 = re.search(r'if\s*\(\s*segment_length\s*<\s*OS_DEFAULT_SEGMENT_LENGTH\s*\)\s*segment_length\s*=\s*OS_DEFAULT_SEGMENT_LENGTH\s*;', b)
        if not (m1 and m2 and m3):
            raise Fail('%s: growth of the object stack segment not found' % fo)
        L.append('Definition os_new_seg_%s (len add dflt : Z) : Z := let l := %s in let l := l + (%s) in if l <? dflt then dflt else l.' % (
            tag, c_expr_to_gallina(m1.group(1), {'os_top_object_length': 'len', 'additional_length': 'add'}), c_expr_to_gallina(m2.group(1), {'segment_length': 'l'})))
    L.append('')

    pre, hnd, post, vol, allocs, saves, restores, reassigned, changed = parse_protocol(yaep_c)
    L.append('(* init / fin / flag protocol of yaep_parse around its setjmp (C branch, debug printing dropped) *)')
    L.append('Inductive pstep := PCall (f : string) | PSet (flag : string) (v : bool).')
    L.append('Inductive hstep := HCall (f : string) | HIf (flag : string) (f : string).')
    L.append('Definition parse_prologue : list pstep := [%s]%%string.' % '; '.join(pre))
    L.append('Definition parse_handler : list hstep := [%s]%%string.' % '; '.join(hnd))
    L.append('Definition parse_body : list pstep := [%s]%%string.' % '; '.join(post))
    L.append('Definition parse_flags_volatile : bool := %s.' % ('true' if vol else 'false'))
    L.append('Definition parse_prologue_allocating_calls : list string := [%s]%%string.' % '; '.join('"%s"' % a for a in allocs))
    L.append('(* settings of the grammar assigned by the library outside the setters; those saved before setjmp, restored by the handler *)')
    L.append('Definition settings_changed_during_parse : list string := [%s]%%string.' % '; '.join('"%s"' % a for a in changed))
    L.append('Definition settings_saved_before_setjmp : list string := [%s]%%string.' % '; '.join('"%s"' % a for a in saves))
    L.append('Definition settings_restored_by_handler : list string := [%s]%%string.' % '; '.join('"%s"' % a for a in restores))
    L.append('Definition saved_settings_reassigned_later : list string := [%s]%%string.' % '; '.join('"%s"' % a for a in reassigned))
    L.append('')

    open(out, 'w').write('\n'.join(L) + '\n')


if __name__ == '__main__':
    try:
        main()
    except Fail as e:
        sys.stderr.write('extract_facts: ' + str(e) + '\n')
        sys.exit(1)
