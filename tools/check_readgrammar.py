"""Check C10: grammar definition succeeds iff the grammar is well-formed; a
nonzero code names a defect that is really present; the object then refuses
to parse.  Raw grammars (well-formed ones with 0-3 injected defects of all the
documented kinds) go through yaep_read_grammar; the verdicts come from the
extracted Coq deciders (ReadGrammar.v)."""
import json, os, sys
import yvlib, gen
from yvlib import NIL
from checklib import Check

RES = {'$S': 0, '$eof': 1, 'error': 2}


def inject(rng, terms, rules, kind):
    terms, rules = list(terms), [list(r) for r in rules]
    if kind == 0:
        # not a defect: the cost of a rule without abstract node is ignored, whatever its sign
        for r in rules:
            if r[2] is None and rng.random() < 0.6:
                r[3] = -rng.randint(1, 9)
        return terms, [tuple(r) for r in rules]
    tn = [t for t, c in terms]
    nts = sorted({r[0] for r in rules})

    def some_rule(pred=lambda r: True):
        c = [i for i, r in enumerate(rules) if pred(r)]
        return rng.choice(c) if c else None
    if kind == 4:
        how = rng.choice(['term', 'term', 'rhs', 'lhs', 'lhs_first'])
        if how == 'term' and terms:
            i = rng.randrange(len(terms))
            terms[i] = (rng.choice(['error', '$S', '$eof']), terms[i][1])
        elif how == 'rhs' and rules:
            i = rng.randrange(len(rules))
            rules[i][1] = list(rules[i][1]); rules[i][1].insert(rng.randrange(len(rules[i][1]) + 1), rng.choice(['$S', '$eof']))
        elif how == 'lhs' and len(rules) > 1:
            i = rng.randrange(1, len(rules)); rules[i][0] = '$S'
        elif rules:
            rules[0][0] = rng.choice(['$S', '$eof'])
    elif kind == 5 and terms:
        t = rng.choice(terms); terms.insert(rng.randrange(len(terms) + 1), (t[0], max(c for _, c in terms) + 7))
    elif kind == 6 and terms:
        i = rng.randrange(len(terms)); terms[i] = (terms[i][0], -rng.randint(1, 5))
    elif kind == 7 and terms:
        t = rng.choice(terms); terms.insert(rng.randrange(len(terms) + 1), ('z%d' % rng.randrange(100), t[1]))
    elif kind == 8:
        rules = []
    elif kind == 9 and rules and tn:
        i = rng.randrange(len(rules)); rules[i][0] = rng.choice(tn + ['error'])
    elif kind == 10:
        i = some_rule(lambda r: len(r[1]) >= 2)
        if i is not None:
            rules[i][2] = None; rules[i][3] = 0; rules[i][4] = rng.choice([[0, 1], [1, 0], [NIL, 0], [0, NIL, 1]])
    elif kind == 11 and rules:
        i = rng.randrange(len(rules)); rules[i][2] = rules[i][2] or 'neg'; rules[i][3] = -rng.randint(1, 9)
        rules[i][4] = rules[i][4] if rules[i][4] is not None else []
    elif kind == 12 and rules:
        i = rng.randrange(len(rules)); n = len(rules[i][1])
        rules[i][2] = rules[i][2] or 'oor'
        rules[i][4] = rng.choice([[n], [n + 3], [NIL - 1], list(range(n)) + [n]])
    elif kind == 13:
        i = some_rule(lambda r: len(r[1]) >= 1)
        if i is not None:
            rules[i][2] = rules[i][2] or 'rep'; k = rng.randrange(len(rules[i][1]))
            rules[i][4] = rng.choice([[k, k], [k, NIL, k]])
    elif kind == 14 and tn:
        rules.append(['U', [rng.choice(tn)], None, 0, None])
        if rng.random() < 0.4:
            rules.append(['V', ['U'], None, 0, [0]])
    elif kind == 15 and tn:
        how = rng.choice(['used', 'unused', 'start', 'hides', 'hides'])
        if how == 'hides' and rules:
            # a nonterminal whose only occurrence stands to the right of an unproductive, non-nullable one
            # (it is reachable all the same), its rule written before the unproductive one's
            s = rules[0][0]
            t = rng.choice(tn)
            rules.insert(rng.randrange(1, len(rules) + 1), ['XH', [t], None, 0, None])
            if rng.random() < 0.5:
                rules.append([s, ['W', 'XH'], None, 0, None])
                rules.append(['W', ['W', t], None, 0, None])
            else:
                rules.append(['W', ['W', t], None, 0, None])
                rules.insert(rng.randrange(1, len(rules) + 1), [s, [t, 'W', 'XH'], None, 0, None])
        elif how == 'start' and rules:
            s = rules[0][0]
            rules = [r for r in rules if r[0] != s]
            rules.insert(0, [s, [s, rng.choice(tn)], None, 0, None])
        else:
            rules.append(['W', ['W', rng.choice(tn)], None, 0, None])
            if how == 'used' and rules:
                i = rng.randrange(len(rules) - 1) if len(rules) > 1 else 0
                rules[i][1] = list(rules[i][1]) + ['W']
                if rules[i][4] is not None and rules[i][2] is None:
                    pass
    elif kind == 16 and nts:
        a = rng.choice(nts)
        how = rng.choice(['self', 'pair', 'nullable', 'chain', 'chain'])
        if how == 'self':
            rules.append([a, [a], None, 0, rng.choice([None, [0]])])
        elif how == 'pair':
            rules.append([a, ['LP'], None, 0, None]); rules.append(['LP', [a], None, 0, None])
            if tn:
                rules.append(['LP', [rng.choice(tn)], None, 0, None])
        elif how == 'chain' and tn:
            # a cycle that exists only because a chain of nonterminals is nullable, the chain written top-down
            # and every member also productive through a terminal alternative
            d = rng.randint(2, 5)
            rules.append([a, [a, 'K0'] if rng.random() < 0.5 else ['K0', a], None, 0, None])
            for j in range(d):
                rules.append(['K%d' % j, ['K%d' % (j + 1)], None, 0, None])
                rules.append(['K%d' % j, [rng.choice(tn)], None, 0, None])
            rules.append(['K%d' % d, [], None, 0, None])
            rules.append(['K%d' % d, [rng.choice(tn)], None, 0, None])
        else:
            rules.append(['NN', [], None, 0, None])
            rules.append([a, ['NN', a, 'NN'], None, 0, None])
    return terms, [tuple(r) for r in rules]


def encode(terms, rules, strict):
    ids = dict(RES)

    def nid(n):
        if n not in ids:
            ids[n] = len(ids)
        return ids[n]
    q = ['RG', 1 if strict else 0, len(terms)]
    for n, c in terms:
        q += [nid(n), c]
    q.append(len(rules))
    for lhs, rhs, an, cost, tr in rules:
        q += [nid(lhs), len(rhs)] + [nid(s) for s in rhs] + [0 if an is None else 1, cost]
        t = []
        for x in (tr or []):
            if x < 0:
                break
            t.append(x)
        q += [len(t)] + t
    return ' '.join(map(str, q))


def run(pid, tier, seed, replay=None):
    chk = Check(pid, tier, seed)
    chk.coq(extra_files=['ReadGrammar'])
    try:
        exe = yvlib.build_impl('c')
    except yvlib.BuildError as e:
        chk.obl['broken'].append('implementation does not build: ' + str(e)[-800:])
        return chk.finish()
    quick = tier == 'quick'
    rng = chk.rng
    cases = []
    N = 3000 if quick else 40000
    stats = {'cases': N, 'by_injection': {}, 'impl_codes': {}, 'model_code_equal': 0, 'well_formed': 0}
    for i in range(N):
        strict = rng.random() < 0.5
        g = gen.rand_wf_grammar(rng, strict, max_nt=rng.choice([1, 2, 3, 4]), max_t=rng.choice([1, 2, 3]), max_rhs=3,
                                err_rules=rng.choice([0, 0, 1]), p_empty=rng.choice([0, 0.2]), p_unit=rng.choice([0, 0.2]))
        if g is None:
            continue
        terms, rules = g.terms, g.rules
        kinds = []
        if rng.random() < 0.15:
            kinds.append(0)
            terms, rules = inject(rng, terms, rules, 0)
        for _ in range(rng.choice([0, 1, 1, 1, 2, 3])):
            k = rng.randint(4, 16)
            kinds.append(k)
            terms, rules = inject(rng, terms, rules, k)
        for k in kinds:
            stats['by_injection'][str(k)] = stats['by_injection'].get(str(k), 0) + 1
        cases.append((terms, rules, strict, kinds))
    script = []
    earlier = set()
    for i, (terms, rules, strict, kinds) in enumerate(cases):
        gd = {'terms': terms, 'rules': rules}
        tok = [terms[0][1]] if terms and terms[0][1] >= 0 else [0]
        # a fifth of the definitions is made on an object that has just been given another grammar (accepted or not):
        # the verdict must not depend on that
        before = []
        if i > 0 and rng.random() < 0.2:
            pt, pr, ps_, _ = cases[i - 1]
            before = yvlib.script_read(0, {'terms': pt, 'rules': pr}, 1 if ps_ else 0)
            earlier.add(i)
        script.append('\n'.join(['CASE g%d' % i, 'NEW 0', 'SET 0 4 0'] + before + yvlib.script_read(0, gd, 1 if strict else 0) +
                                ['ERR 0', 'PARSE 0 0 %d %s' % (len(tok), ' '.join(map(str, tok))), 'FREEG 0', 'FREET 0 0', 'END']))
    res = yvlib.run_driver(exe, '\n'.join(script))
    for i in earlier:
        ops_ = res[i].get('ops', [])
        k = [j for j, o in enumerate(ops_) if o.get('op') == 'read']
        if len(k) >= 2:
            res[i]['earlier_definition'] = ops_.pop(k[0])
    stats['after_another_definition'] = len(earlier)
    model = yvlib.run_oracle([encode(t, r, s) for (t, r, s, k) in cases])
    for (terms, rules, strict, kinds), r, m in zip(cases, res, model):
        gd = {'terms': terms, 'rules': rules}
        txt = yvlib.grammar_text(gd)
        key = (txt, strict)
        chk.note_case(key, True, {'grammar': txt, 'strict': strict, 'injected': kinds})
        rep = {'property': 'C10', 'grammar': txt, 'grammar_struct': gd, 'strict': strict, 'injected_defects': kinds, 'model': m, 'implementation': r}
        sig = 'C10:%%s:%s|strict=%d' % (txt.replace('\n', ' '), strict)
        ops = r.get('ops', [])
        if 'abort' in r or len(ops) < 5:
            chk.violation(sig % 'abort', 'aborted: %s %s' % (r.get('abort'), (r.get('stderr') or [''])[:2]), rep)
            continue
        mc, wf, ds = m.split()
        mc, wf = int(mc), wf == '1'
        rc = ops[2]['rc']
        stats['impl_codes'][str(rc)] = stats['impl_codes'].get(str(rc), 0) + 1
        if rc == mc:
            stats['model_code_equal'] += 1
        if wf:
            stats['well_formed'] += 1
        prc = ops[4]['rc']
        if rc != mc:
            stats['model_code_differs'] = stats.get('model_code_differs', 0) + 1
        if (rc == 0) != wf:
            chk.violation(sig % 'iff', 'yaep_read_grammar returned %d but the grammar is %swell-formed (defects present: %s)' % (
                rc, '' if wf else 'not ', [c for c, b in zip(range(4, 17), ds) if b == '1']), rep)
        elif rc != 0 and not (4 <= rc <= 16 and ds[rc - 4] == '1'):
            chk.violation(sig % 'code', 'returned code %d but the defect documented for it is not present (present: %s)' % (
                rc, [c for c, b in zip(range(4, 17), ds) if b == '1']), rep)
        elif rc != 0 and (ops[2]['ec'] != rc or ops[2]['emlen'] == 0):
            chk.violation(sig % 'errstate', 'returned %d but error_code=%d, message length %d' % (rc, ops[2]['ec'], ops[2]['emlen']), rep)
        elif rc != 0 and prc != 2:
            chk.violation(sig % 'usable', 'definition failed with %d but a following yaep_parse returned %d, not YAEP_UNDEFINED_OR_BAD_GRAMMAR' % (rc, prc), rep)
        elif rc == 0 and prc == 2:
            chk.violation(sig % 'unusable', 'definition succeeded but yaep_parse says the grammar is undefined', rep)
    chk.cov['rule'] = ('random well-formed grammars (strict and not) with 0-3 injected defects drawn from the 13 documented kinds (reserved names in terminals / '
                       'first rule / later rules / right hand sides, cycles through nullable siblings, unproductive or unreachable symbols, translation defects); '
                       'distinct = distinct (grammar text, strict)')
    return chk.finish(extra_cov={'stream': stats})
