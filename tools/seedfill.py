#!/usr/bin/env python3
"""Fills the detected_by field of seeded/*/meta.json from the last_run record written by tools/seedrun.py
(only where detected_by is empty or was filled by this script before)."""
import json, glob, os
V = os.path.dirname(os.path.dirname(os.path.abspath(__file__)))
MARK = '[seedrun] '
for m in sorted(glob.glob(os.path.join(V, 'seeded', '*', 'meta.json'))):
    d = json.load(open(m))
    lr = d.get('last_run')
    if not lr or (d.get('detected_by') and not d['detected_by'].startswith(MARK)):
        continue
    parts = []
    if lr.get('apply'):
        parts.append(lr['apply'])
    for pid, r in sorted(lr.items()):
        if pid == 'apply':
            continue
        v = r['verdict']
        if v == 'VIOLATED':
            parts.append('%s quick: failing input found (%d s)' % (pid, r['wall_s']))
        elif v.startswith('VIOLATED no-failing'):
            parts.append('%s quick: a proof obligation / regenerated fact no longer checks, no failing input found (%d s)' % (pid, r['wall_s']))
        elif v == 'ok':
            parts.append('%s quick: NOT detected' % pid)
        else:
            parts.append('%s quick: %s' % (pid, v))
    d['detected_by'] = MARK + '; '.join(parts)
    json.dump(d, open(m, 'w'), indent=1)
    print(d['id'], d['detected_by'])
