#!/bin/sh
# usage: coqshow.sh File.v LINE  -- compile a copy with "Show." inserted before LINE and abort there
f=$1; n=$2
d=$(mktemp -d)
awk -v n=$n 'NR==n{print "Show. Abort All."} {print}' $f > $d/Dbg.v
cd /verif/coq && timeout 120 coqc -Q theories YV $d/Dbg.v 2>&1 | head -${3:-60}
rm -rf $d
