#!/usr/bin/env python3
"""Regenerates the generated tables inside DESIGN.md (between the markers
<!-- BEGIN:<name> --> and <!-- END:<name> -->): the seeded-change table and the
list of repaired defects."""
import json, os, re, subprocess, sys
V = os.path.join(os.path.dirname(os.path.abspath(__file__)), '..')


def seeds():
    return subprocess.run([sys.executable, os.path.join(V, 'tools', 'seedtable.py')], capture_output=True, text=True).stdout.strip()


def fixes():
    k = json.load(open(os.path.join(V, 'known_findings.json')))
    out = ['| property | commit | what failed |', '|---|---|---|']
    for e in k['fixed']:
        w = e['what']
        m = re.match(r'fixed: property=(\S+) (\S+) (.*)', w, re.S)
        out.append('| %s | %s | %s |' % (m.group(1), m.group(2), m.group(3).replace('|', '/').replace('\n', ' ')))
    return '\n'.join(out)


def known():
    k = json.load(open(os.path.join(V, 'known_findings.json')))
    out = []
    for e in k['known']:
        out.append('* **%s** (%s): %s' % (e['id'], e['property'], e['what'].replace('\n', ' ')))
    return '\n'.join(out)


p = os.path.join(V, 'DESIGN.md')
s = open(p).read()
for name, fn in (('seeds', seeds), ('fixes', fixes), ('known', known)):
    s = re.sub(r'(<!-- BEGIN:%s -->\n).*?(<!-- END:%s -->)' % (name, name), lambda m: m.group(1) + fn() + '\n' + m.group(2), s, flags=re.S)
open(p, 'w').write(s)
print('tables regenerated')
