#!/usr/bin/env python3
"""Regenerates MANIFEST.json from the table below."""
import json, os, subprocess
V = os.path.dirname(os.path.dirname(os.path.abspath(__file__)))
props = [json.loads(l) for l in open(os.path.join(V, 'properties.jsonl'))]
hook_commits = subprocess.run(['git', '-C', '/repo', 'log', '--format=%h %s', '--grep=verification hooks'], capture_output=True, text=True).stdout.strip().splitlines()

TB = ('Coq 8.16.1 kernel; no axioms (Print Assumptions: Closed under the global context for every property theorem); '
      'extraction with ExtrOcamlBasic only + OCaml 4.13; the hand-written model/deciders are tied to the C code by the correspondence run '
      '(driver built from /repo working tree with ASan/UBSan and -DYAEP_VERIF) - the C code itself is modelled, not verified; '
      'generators, comparison glue (python) and the driver are trusted')

CHECKS = {
 'C01': dict(technique='Coq proof of a certificate-checking Earley recogniser (recognize_correct: Some b -> (b=true <-> sentence)) and of lookahead pruning (filtered items accept exactly the sentences) + differential run of the implementation against the extracted decider over generated grammars x inputs x 24 configurations',
             text='Theorems: Item <-> valid (declarative Earley items are exactly the valid items of the consumed prefix) and exactness of the extracted recogniser, for all grammars and inputs (induction on derivations, no bound); C01_verdict_under_lookahead: an item system filtered by one token of lookahead on scan/complete accepts exactly the sentences for every filter that keeps the items lying on a derivation of the input (Lookahead.v). The implementation is tied by correspondence: its verdict (rc, root, number of syntax_error calls) must equal what the verified decider prescribes, in every lookahead/one-parse/cost/recovery setting.',
             design='6 C01'),
 'C02': dict(technique='Coq proof that the table-based enumerator of translations is exact (pre-fixpoint certificate, no height bound) and that DAG denotation is exact; the single tree of the implementation must be a member',
             text='Theorems: all_translations_spec (In t L <-> translation g w t for derivations of every height) and denote_spec. Correspondence: with one parse requested the returned tree (serialised from the real yaep_tree_node graph) has no ALT, is a member of the verified set of translations (codes and attribute=position of every TERM included), NIL/ERROR in one exemplar, child arrays NULL-terminated inside their block.',
             design='6 C02'),
 'C03': dict(technique='Coq-verified enumerators on both sides (all translations of the input; all trees denoted by the DAG) + verified acyclicity decider; set equality on the implementation DAG',
             text='Theorems: all_translations_spec, denote_spec, acyclic_b_spec. Correspondence: set(denote(impl DAG)) = set(all translations), DAG acyclic and alt-flat, at the three lookahead levels. One recorded finding (re-use of a copied abstract node) is matched by call-site hook events.',
             design='6 C03'),
 'C04': dict(technique='Coq-verified conversion between cumulative cost fields and own costs (uncum_spec) + verified enumerators; minimality and field sums checked on the implementation DAG',
             text='Theorems: uncum_spec (cum t\' = t and tcost t\' = field t), all_translations_spec, denote_spec. Correspondence: with the cost flag every denoted tree has consistent cumulative fields, its own-cost tree is a translation of minimal cost; all minimal ones (all parses) / exactly one (one parse); without the flag fields are rule costs.',
             design='6 C04'),
 'C05': dict(technique='Coq-verified enumerator used twice (translations of the grammar, and of its full-information variant = derivation trees); both implications checked on the flag',
             text='Theorem: all_translations_spec. Correspondence: flag set => at least two derivation trees; two different translations => flag set; both one_parse values, all lookahead levels and cost settings.',
             design='6 C05'),
 'C06': dict(technique='Coq proof of shift_count (how many leading tokens can be shifted, in terms of declarative Earley items = valid items of the prefix, independent of lookahead) + differential run: first syntax_error token and all callback arguments',
             text='Theorems: C06_first_unshiftable_token (every token before k has an item of its prefix, token k has none; acceptance iff sentence) and Item <-> valid. Correspondence: first reported error token and its attribute equal the decider\'s for strict (reduced) grammars at all lookahead levels; recovery-off arguments (-1, NULL, -1, NULL); recovery-on ranges, attributes and strictly increasing error tokens. C06_viable_prefix / C06_first_offending_token: in a grammar whose nonterminals are productive an item of the prefix exists iff some sentence starts with it, so the decider\'s count is the property\'s first offending token; C06_error_token_under_lookahead: the same token for every lookahead filter that keeps useful items and every family of sets between filtered and unfiltered items.',
             design='6 C06'),
 'C07': dict(technique='Coq-verified enumerators (translations of a token sequence with explicit attributes over the grammar with `error\' as terminal; DAG denotation; sentence decider) + search over repairs of the reported size',
             text='Theorems: C07_translations_of_a_repair, C07_denotation_exact, C07_sentence_decider. Correspondence: rc 0 and a non-NULL well-formed tree for every input with recovery on; callbacks iff non-sentence; some repair (disjoint segments replaced by `error\', total length = tokens reported ignored) has the returned tree among its translations; the uniqueness clause for single-segment repairs.',
             design='6 C07'),
 'C08': dict(technique='Coq proof of shift_count used on prefix_b ++ [error] ++ rest for every (b, f) + comparison with the first callback',
             text='Theorems: C08_shiftable_decider, C08_shiftable_means_viable. Correspondence: for every non-sentence, every back position b and forward skip f such that `error\' and the next recovery_match tokens (or all remaining ones up to acceptance) can be shifted, the first callback ignores at most (e-b)+f tokens; recovery_match 1..5, lookahead 0..2; nested-error family for several back-frontier advances.',
             design='6 C08'),
 'C09': dict(technique='Coq theorems: lookahead pruning keeps verdict and error token (Lookahead.v; the level-1 FIRST/FOLLOW filter is an instance), re-use of a cached successor set is sound in the model of build_new_set under the threshold regenerated from yaep.c (CacheModel.v), clamp expression = max 0 (min 2 l); differential run of the implementation against itself across lookahead x debug levels with the guarded goto-cache self-check',
             text='Theorems: C09_level_clamped and C09_cache_threshold are proved about expressions re-extracted from the source on every run (an edit of the clamp or of the threshold breaks the obligation); C09_verdict_determined: the prescribed verdict is a function of grammar and input only; C09_verdict_under_lookahead, C09_static_filter_keeps_useful_items, C09_useful_items_survive (pruning by lookahead cannot change the verdict); C09_cache_reuse_is_sound (when the validity test of the cache succeeds and the parse list below the place of caching is unchanged a fresh computation returns the cached start situations). Correspondence: all observables identical for la in {-3,0,1,2,7} x debug levels, and every goto-cache hit recomputed and compared (hook H1).',
             design='6 C09'),
 'C16': dict(technique='Coq lemmas that the behaviour-deciding container expressions regenerated from hashtab.c and hashtab.cpp are equal + the C19 refinement theorems for the shared container model; differential run of identical scripts through libyaep and class yaep',
             text='Theorems: C16_same_expansion_test / C16_same_probe_step / C16_same_new_size (about expressions re-extracted from both sources on every run). Correspondence: parse stream in random configurations and allocation modes, API histories, long inputs, large ambiguous inputs and 600 wide grammars (tables expand, probe collisions) through the C and the C++ driver; every observable of every call compared. Partial: identity of two binaries is differential testing.',
             design='6 C16'),
 'C19': dict(technique='Coq refinement proofs for the object stack (finished objects never move or change; top object = bytes appended; writes inside the segment) and the VLO (contents = appended minus shortened; length <= allocation), refinement proof of the hash table model (expressions regenerated from the sources) to a finite set incl. termination of the probe loop; differential run of random operation sequences on the real C and C++ containers against the extracted models',
             text='Theorems: C19_objstack (all operation sequences, by induction, via the invariant oinv and the abstraction oabs), C19_objstack_in_bounds, C19_vlo. C19_hashtab / C19_hashtab_step (any operation sequence on a created table observes what a finite set would: invariant = prime size, every element reachable from its first probe through non-empty slots, counters), C19_hashtab_total (the probe loop terminates: prime size, step strictly between 0 and the size, an unexpanded table has an empty slot), C19_hashtab_prime_size, C19_hashtab_cpp_same_model. All three models are tied by correspondence on 750 sequences per run each (colliding hash functions, unaligned segment lengths, byte-wise appends) through the C and the C++ containers.',
             design='6 C19'),
 'C10': dict(technique='Coq proof that the order-faithful model of yaep_read_grammar returns 0 iff no documented defect is present and that a nonzero code names a present defect (ok_iff_well_formed, code_names_defect); differential run of the implementation against the extracted deciders on grammars with injected defects',
             text='Theorems: C10_ok_iff and C10_code_names_defect for all terminal lists, rule lists and strictness values (case analysis along the checks, induction over the lists). Correspondence: impl = 0 <-> well_formed_b; impl = c -> defect_b c; error code and message recorded; a following parse is refused after a failure. C10_productive_flag_meaning / C10_nullable_flag_meaning: the flags computed by the repeated passes hold exactly for the nonterminals that have a derivation to terminals / to the empty string (the fixed number of passes reaches the fixpoint). Partial: reachability and loop flags are modelled as the C loops compute them; their semantic characterisation is future work.',
             design='6 C10'),
 'C11': dict(technique='executable Coq model of the description language (byte-level lexer following yylex, recursive-descent parser for the conflict-free LALR grammar of sgramm.y, duplicate elimination and implicit codes with the start value regenerated from sgramm.y) + differential run: yaep_parse_grammar on the text vs yaep_read_grammar of the same binary on the grammar the model denotes',
             text='Theorems: C11_implicit_codes_start (facts re-extracted from set_sgrammar: first implicit code 256, counter not overwritten before use), C11_codes_assigned and C11_implicit_codes_fresh (explicit codes kept; implicit codes not below the start value, free, strictly increasing in order of appearance, different from every other code), C11_duplicates_eliminated. The lexer/parser part of the model is tied by correspondence on printed grammars in all lexical variations and on byte-level mutations: same return code as the callback-defined twin, same parse results on sampled inputs, code 3 with a line number inside the text for texts outside the syntax, code 7 for a terminal described with two codes. Partial: the round-trip theorem print/parse for the model is future work.',
             design='6 C11'),
 'C12': dict(technique='Coq theorem that the error message fits its buffer for any text (formatting primitive and bound regenerated from yaep_error) + sanitizer-instrumented dedicated stream',
             text='Theorems: C12_message_fits, C12_source_uses_bounded_formatting (facts of the source), C12_unbounded_would_overflow (the refutation that applied to the pinned tree). Correspondence: arbitrary byte strings and mutated descriptions, 199-1000 character names at every message site, 63-300 terminals with sparse/dense codes, undeclared and huge token codes, arbitrary setting values, cyclic grammars with all parses - no sanitizer report, no timeout, only documented return codes, message length <= 200. Partial: memory safety of the C code is observed, not proved.',
             design='6 C12'),
 'C13': dict(technique='Coq theorem about the model of yaep_free_tree (every reachable node, name and TERM callback exactly once) whose extracted counts are compared with the free log of the implementation + verified acyclicity decider + event-log relations on the tracked allocator (ASan, LeakSanitizer)',
             text='Theorems: C13_free_tree (free_tree_reduce + free_tree_sweep on any DAG: the nodes passed to parse_free are exactly the nodes reachable from the root, each once; one terminal callback per reachable TERM node; every name of a reachable abstract node once), C13_acyclic_paths_bounded. Correspondence on 1-3 parses per object with tracking parse_alloc/parse_free: every block freed during a parse was allocated by that parse and is freed once; every node and name of the result lies in a live block of that parse; trees walked after yaep_free_grammar; yaep_free_tree frees every block once, leaves no block of the parse, calls the terminal callback once per TERM node; default allocator under LeakSanitizer. the numbers of blocks and callbacks equal those of the extracted model on the returned DAG. Partial: ownership of blocks during yaep_parse (pruning, unused NIL/ERROR) is observed, not modelled.',
             design='6 C13'),
 'C17': dict(technique='Coq theorem about the unwinding protocol of yaep_parse regenerated from the source (finite check of all raising points lifted to every raising point) + enumeration of every failing allocation request of the fault-free run for a corpus of scenarios (library built with counting/failing wrappers around allocate.c, no source hook)',
             text='Correspondence: for create / define (callbacks, text, redefinition) / parse (several configurations, long inputs, big grammar) scenarios and every request k: the call returns NULL resp. YAEP_NO_MEMORY with error code 1, no sanitizer report, the object can be freed, a second object parses as before. Theorems: C17_parse_unwinding (whichever call of yaep_parse raises, the handler releases exactly the working storage acquired: nothing unacquired, nothing twice, nothing left), C17_parse_handler_preconditions (flags volatile, nothing allocating before setjmp), C17_protocol_check_is_exhaustive, C17_no_memory_code. Partial: yaep_create_grammar, the definition functions and the memory safety below the protocol level are covered by the enumeration only.',
             design='6 C17'),
 'C18': dict(technique='Coq lemmas about the hash table growth policy regenerated from hashtab.c/.cpp (geometric growth, room in an unexpanded table) + measurement of machine-independent counters on deterministic grammar families',
             text='Theorems: C18_expansion_geometric(_cpp), C18_new_size_doubles, C18_unexpanded_table_has_room (re-proved against the current source expressions on every run). Measurement: bytes requested, hash searches, collisions and unique set cores for 1k..32k (thorough 512k) tokens of list / expression / statement grammars at lookahead 0,1,2 inside linear envelopes and doubling ratios calibrated on the pinned tree. Partial: the envelopes are empirical.',
             design='6 C18'),
 'C14': dict(technique='Coq refinement theorem for the API object model (objects_independent: the results seen on one object are those of its own sub-history) + differential run of random multi-object histories against the extracted model and against fresh-object replays',
             text='Theorems: C14_objects_independent, C14_error_state over all histories (induction on the call list), C14_parse_leaves_no_working_storage (protocol of yaep_parse regenerated from the source: a refused or interrupted parse leaves no working storage acquired). Correspondence: every setter / definition / error-code / parse call of a random history over 1-3 live objects returns what the model prescribes; every successful parse equals the same parse on a fresh object in a fresh process; no sanitizer report, no leak after everything is freed (LeakSanitizer), no double free in the tracked tree memory.',
             design='6 C14'),
 'C15': dict(technique='Coq theorems about the setter/defaults/clamp facts regenerated from yaep.c and the object model (setter_contract, error_state_contract, parse codes) + differential run of histories against the extracted model',
             text='Theorems: C15_setters, C15_source_setters_return_previous, C15_source_stored_values, C15_new_object, C15_error_state, C15_parse_codes; the generated facts (setter shapes, stored expressions, defaults) are re-extracted on every run. Correspondence: returned old values, error codes/messages, INVALID_TOKEN/UNDEFINED/NO_MEMORY codes, any negative end-of-input value, undeclared codes between declared ones.',
             design='6 C15'),
}

m = {
 'version': 1,
 'setup_cmd': './setup.sh',
 'hooks': {'guard': 'YAEP_VERIF',
           'enable': '-DYAEP_VERIF on the compile line of the scratch build of /repo/src (tools/yvlib.py build_impl); never defined by the repository build',
           'baseline_off_cmd': './baseline_off.sh',
           'source_commits': [l.split()[0] for l in hook_commits],
           'add_only': True},
 'engines': [
   {'name': 'coq', 'path': 'coq/', 'serves_properties': sorted(CHECKS), 'kind_free_text': 'Coq 8.16 development: specifications, executable deciders, proofs; Properties_Cnn.v hold the statements'},
   {'name': 'oracle', 'path': 'ocaml/', 'serves_properties': sorted(CHECKS), 'kind_free_text': 'OCaml program extracted from the Coq deciders (ExtrOcamlBasic)'},
   {'name': 'driver', 'path': 'harness/yv_driver.c', 'serves_properties': sorted(CHECKS), 'kind_free_text': 'interpreter of API histories linked against /repo/src built with ASan/UBSan (C and C++)'},
 ],
 'checks': [],
 'notes': 'see DESIGN.md; known findings in known_findings.json',
 'not_applicable': [],
}
for p in props:
    pid = p['id']
    if pid in CHECKS:
        c = CHECKS[pid]
        m['checks'].append({
            'property_id': pid,
            'quick_cmd': './check %s --tier quick' % pid,
            'thorough_cmd': './check %s --tier thorough' % pid,
            'evidence_file': 'evidence/%s.json' % pid,
            'replay_cmd_template': './check %s --replay {path}' % pid,
            'engine': 'coq+oracle+driver',
            'level_claimed': {'category': 'proof', 'text': c['text'], 'design_ref': c['design']},
            'level_note': TB,
            'technique': c['technique'],
        })
    else:
        m['not_applicable'].append({'property_id': pid, 'reason': 'check not built yet (work in progress; see DESIGN.md section 13)'})
json.dump(m, open(os.path.join(V, 'MANIFEST.json'), 'w'), indent=1)
print('checks:', [c['property_id'] for c in m['checks']])
