#!/usr/bin/env python3
"""usage: saveseed.py <round> <property id> <dir with patch.diff demo.* run_demo.sh notes.md> [origin text]
Confirms a seeded change in a scratch worktree of /repo's HEAD (tools/seed_confirm.sh: the patch applies, the test
suite passes 120/120 with it, the demo exits 0 on the clean and non-zero on the patched sources) and, when all of that
holds, saves it as seeded/<id>-<next letter>/ with a meta.json (detected_by is filled in by tools/seedrun.py)."""
import sys, os, re, json, glob, shutil, subprocess
V = os.path.dirname(os.path.dirname(os.path.abspath(__file__)))


def main():
    rnd, pid, src = int(sys.argv[1]), sys.argv[2], os.path.abspath(sys.argv[3])
    origin = sys.argv[4] if len(sys.argv) > 4 else ('written by an independent sub-agent that saw only the property text and a scratch '
                                                    'worktree (round %d, told which mechanisms the earlier rounds had used)' % rnd)
    patch = os.path.join(src, 'patch.diff')
    demo = os.path.join(src, 'run_demo.sh')
    if not (os.path.exists(patch) and os.path.exists(demo)):
        print('%s: patch.diff or run_demo.sh missing' % src); return 2
    for d in glob.glob(os.path.join(V, 'seeded', pid + '-*')):
        if not os.path.isdir(d):
            continue
        if open(os.path.join(d, 'patch.diff')).read() == open(patch).read():
            print('%s: already saved as %s' % (src, os.path.basename(d))); return 0
    p = subprocess.run(['bash', os.path.join(V, 'tools', 'seed_confirm.sh'), patch, demo], capture_output=True, text=True, timeout=3000)
    res = [l for l in p.stdout.splitlines() if l.startswith('RESULT')]
    line = res[-1] if res else 'RESULT none'
    print(pid, os.path.basename(src), line)
    m = re.search(r'demo_clean=(\d+) demo_patched=(\d+) tests: 100% tests passed, 0 tests failed out of 120', line)
    if not m or int(m.group(1)) != 0 or int(m.group(2)) == 0:
        print('  NOT CONFIRMED - not saved'); return 1
    letters = sorted(os.path.basename(d).split('-')[1] for d in glob.glob(os.path.join(V, 'seeded', pid + '-*')) if os.path.isdir(d))
    nxt = chr(ord(letters[-1]) + 1) if letters else 'a'
    sid = '%s-%s' % (pid, nxt)
    dst = os.path.join(V, 'seeded', sid)
    os.makedirs(dst)
    for f in os.listdir(src):
        if os.path.isfile(os.path.join(src, f)) and os.path.getsize(os.path.join(src, f)) < 200000:
            shutil.copy(os.path.join(src, f), dst)
    notes = open(os.path.join(src, 'notes.md')).read() if os.path.exists(os.path.join(src, 'notes.md')) else ''
    mm = re.search(r'(?is)needs?\s+to\s+manifest\W*(.*)', notes)
    need = (mm.group(1) if mm else notes).strip().replace('\n', ' ')
    need = re.sub(r'^[\*\s:.\-]+', '', need)[:600]
    meta = {'id': sid, 'breaks_property': pid, 'round': rnd, 'needs_to_manifest': need,
            'what_i_ran': 'tools/seed_confirm.sh in a scratch worktree of HEAD: %s; then tools/seedrun.py on the current tree' % line[7:],
            'detected_by': '', 'adapted_to_current_tree': False, 'origin': origin}
    json.dump(meta, open(os.path.join(dst, 'meta.json'), 'w'), indent=1)
    print('  saved as', sid)
    return 0


if __name__ == '__main__':
    sys.exit(main())
