"""Check C16: the C++ class interface behaves identically to the C interface.
The same scripts (parse cases in many configurations, API histories, inputs
large enough to make every table expand) run through the C driver and the C++
driver (class yaep over the C++ containers); every observable of every
operation must be equal."""
import json, os, sys
import yvlib, gen
from checklib import Check
import check_parse as cp
import check_api as ca
import check_config as cc


def strip(r):
    """observables of a case result (no addresses in there by construction)"""
    ops = [{k: v for k, v in o.items() if k not in ('searches', 'collisions', 'allocs', 'bytes')} for o in (r.get('ops') or [])]
    d = {'abort': r.get('abort'), 'ops': ops}
    if 'exit_problem' in r:
        d['exit_problem'] = r['exit_problem'].get('abort')
    return json.dumps(d, sort_keys=True)


def run(pid, tier, seed, replay=None):
    chk = Check(pid, tier, seed)
    chk.coq()
    quick = tier == 'quick'
    rng = chk.rng
    try:
        exe_c = yvlib.build_impl('c')
        exe_x = yvlib.build_impl('cxx')
    except yvlib.BuildError as e:
        chk.obl['broken'].append('implementation does not build: ' + str(e)[-800:])
        return chk.finish()
    scripts = []      # (kind, id, text)
    ps = cp.ParseStream(chk, None, 50 if quick else 500, 3, 4, max_trees=150, n_families=30 if quick else 300)
    cfgs = [{'la': la, 'one': o, 'cost': c, 'rec': r, 'match': m} for la in (0, 1, 2) for o in (0, 1) for c in (0, 1) for r in (0, 1) for m in (1, 3)]
    for i, (g, strict, w) in enumerate(ps.pairs):
        if rng.random() < 0.08:
            # abstract nodes with an empty name (possible through the callback interface)
            g = gen.Gram(g.terms, [(l, r, ('' if (a is not None and rng.random() < 0.6) else a), c, t) for (l, r, a, c, t) in g.rules])
        for ci, cfg in enumerate(rng.sample(cfgs, 3)):
            am = rng.choice([0, 0, 1, 2])
            v = yvlib.vary((seed, i, ci), g.as_dict(), gen.codes_of(g, w))
            scripts.append(('parse', 'p%d_%d' % (i, ci), yvlib.simple_case('p%d_%d' % (i, ci), g.as_dict(), 1 if strict else 0, cfg, gen.codes_of(g, w), allocmode=am, variation=v),
                            {'grammar': yvlib.grammar_text(g.as_dict()), 'tokens': ' '.join(w), 'cfg': cfg, 'variation': sorted(v)}))
    # the smallest tables: empty input, all parses, chains of rules with abstract nodes over the empty string
    for k in range(20 if quick else 200):
        d = rng.randint(3, 10)
        rules = [('N%d' % j, ['N%d' % (j + 1)], 'n%d' % j, rng.randint(0, 2), [0]) for j in range(d)]
        rules.append(('N%d' % d, [], rng.choice([None, 'e']), 0, None))
        rules.append(('N%d' % d, ['x'], None, 0, [0]))
        gch = gen.Gram([('x', 120)], rules)
        for w in ([], ['x']):
            cfg = {'one': rng.choice([0, 0, 1]), 'cost': rng.choice([0, 1]), 'la': rng.choice([0, 1, 2])}
            cid = 'tiny%d_%d' % (k, len(w))
            scripts.append(('tiny', cid, yvlib.simple_case(cid, gch.as_dict(), 0, cfg, gen.codes_of(gch, w)),
                            {'grammar': yvlib.grammar_text(gch.as_dict())[:300], 'tokens': ' '.join(w), 'cfg': cfg}))
    P = ca.pool()
    # every definition of the pool twice (and once over every other one) on the same object: emptied tables, slot by slot
    for di, d in enumerate(P):
        for dj in ([di] + ([rng.randrange(len(P))] if quick else list(range(len(P))))):
            L = ['CASE twice%d_%d' % (dj, di), 'NEW 0'] + ca.define_lines(0, P[dj]) + ['ERR 0'] + ca.define_lines(0, d) + ['ERR 0']
            for w in d['inputs'][:2]:
                L.append('PARSE 0 0 %d %s' % (len(w), ' '.join(map(str, w))))
            L += ['ERR 0', 'FREEG 0', 'END']
            scripts.append(('twice', 'twice%d_%d' % (dj, di), '\n'.join(L), {'history': L[:8]}))
    for hi in range(150 if quick else 1500):
        h = ca.Hist(rng, P, hi, 14)
        scripts.append(('history', 'h%d' % hi, h.script(), {'history': h.lines[:12]}))
    for li, (g, w) in enumerate(cc.long_grammars(rng)):
        cfg = {'la': rng.choice([0, 1, 2]), 'one': 1, 'cost': 0, 'rec': 1}
        scripts.append(('long', 'l%d' % li, yvlib.simple_case('l%d' % li, g.as_dict(), 0, cfg, gen.codes_of(g, w)), {'grammar': yvlib.grammar_text(g.as_dict()), 'ntokens': len(w), 'cfg': cfg}))
    # all parses of a+a+...+a: large ambiguous DAG, every table expands
    ge = gen.Gram([('a', 97), ('+', 43)], [('E', ['E', '+', 'E'], 'plus', 1, [0, 2]), ('E', ['a'], None, 0, [0])])
    for n in (8, 12, 14) if quick else (8, 12, 14, 16, 18):
        w = ['a'] + ['+', 'a'] * (n - 1)
        for cost in (0, 1):
            cid = 'amb%d_%d' % (n, cost)
            scripts.append(('ambiguous', cid, yvlib.simple_case(cid, ge.as_dict(), 1, {'one': 0, 'cost': cost, 'la': 1}, gen.codes_of(ge, w), walk=False),
                            {'grammar': 'E : E + E | a', 'operands': n, 'cost': cost}))
    for wi in range(600 if quick else 6000):
        g = gen.wide_grammar(rng)
        for w in (['a'], ['a', 'a']):
            cfg = {'one': 0, 'cost': rng.choice([0, 1]), 'la': rng.choice([0, 1, 2])}
            cid = 'w%d_%d' % (wi, len(w))
            scripts.append(('wide', cid, yvlib.simple_case(cid, g.as_dict(), 0, cfg, gen.codes_of(g, w)),
                            {'grammar': yvlib.grammar_text(g.as_dict())[:600], 'tokens': ' '.join(w), 'cfg': cfg}))
    text = '\n'.join(s[2] for s in scripts)
    rc = yvlib.run_driver(exe_c, text, timeout_case=120)
    rx = yvlib.run_driver(exe_x, text, timeout_case=120)
    stats = {'scripts': len(scripts), 'by_kind': {}, 'c_aborts': 0, 'cxx_aborts': 0}
    for (kind, cid, txt, info), a, b in zip(scripts, rc, rx):
        stats['by_kind'][kind] = stats['by_kind'].get(kind, 0) + 1
        chk.note_case((kind, txt), True, dict(info, kind=kind))
        if 'abort' in a:
            stats['c_aborts'] += 1
        if 'abort' in b:
            stats['cxx_aborts'] += 1
        sa, sb = strip(a), strip(b)
        if sa != sb:
            big = len(sa) > 60000
            rep = {'property': 'C16', 'kind': kind, 'script': txt if len(txt) < 20000 else txt[:20000], 'info': info,
                   'c': a if not big else {'abort': a.get('abort'), 'stderr': a.get('stderr')},
                   'cxx': b if not big else {'abort': b.get('abort'), 'stderr': b.get('stderr')}}
            what = 'C++ aborted: %s %s' % (b.get('abort'), (b.get('stderr') or [''])[:2]) if ('abort' in b and 'abort' not in a) else \
                   'C aborted but C++ did not' if 'abort' in a and 'abort' not in b else 'results differ'
            chk.violation('C16:%s:%s' % (kind, txt[:800]), '%s (%s)' % (what, kind), rep)
    chk.cov['rule'] = ('the parse stream of C01-C05 in random configurations and allocation modes, API histories of C14/C15, long inputs and large ambiguous inputs '
                       '(tables expand, object stacks chain segments), each run through libyaep (C) and class yaep (C++ containers); all observables compared')
    return chk.finish(extra_cov={'stream': stats})
