"""Checks C06 (first error token, callback arguments), C07 (recovery always
completes, the tree is a translation of a repaired input) and C08 (the first
recovery ignores no more tokens than any simple recovery).  Verified deciders:
shift_count (how many leading tokens of a sequence can be shifted - Earley
items, Recognizer.v) and all_translations_a (Translate.v) over the grammar in
which `error' is an ordinary terminal."""
import json, os, sys, itertools
import yvlib, gen
from yvlib import NIL
from checklib import Check
import check_parse as cp

FUEL = 60


def augmented(g):
    """(Gram over terminals + error + $eof with the rule $S : S $eof (and $S : error $eof as yaep adds it), names)"""
    terms = list(g.terms) + [('error', -2), ('$eof', -1)]
    start = g.start()
    rules = [('$S', [start, '$eof'], None, 0, [0])] + list(g.rules)
    if not any(r[0] == start and list(r[1]) == ['error'] for r in g.rules):
        rules.append(('$S', ['error', '$eof'], None, 0, []))
    return gen.Gram(terms, rules)


def shift_query(ga, names, toks):
    enc = ga.enc_rules(names)
    t = [ga.tnum[x] for x in toks]
    return 'SHIFT ' + ' '.join(map(str, enc + [ga.nnum['$S'], len(t)] + t))


def run(pid, tier, seed, replay=None):
    chk = Check(pid, tier, seed)
    chk.coq()
    try:
        exe = yvlib.build_impl('c')
    except yvlib.BuildError as e:
        chk.obl['broken'].append('implementation does not build: ' + str(e)[-800:])
        return chk.finish()
    quick = tier == 'quick'
    rng = chk.rng
    # ---- stream: grammars with error rules, inputs = sentences with 1-3 edits ----
    pairs = []
    stats = {'grammars': 0, 'pairs': 0, 'sentences': 0, 'nonsentences': 0, 'with_error_rules': 0}
    ngr = (60 if quick else 500) if pid == 'C07' else (300 if quick else 2500)
    corpus = [
        # statement / expression grammar of the test suite with error rules
        (gen.Gram([('i', 105), (';', 59), ('(', 40), (')', 41), ('+', 43)],
                  [('P', ['P', 'S'], 'seq', 0, [0, 1]), ('P', ['S'], None, 0, [0]),
                   ('S', ['E', ';'], 'st', 0, [0]), ('S', ['error', ';'], 'errst', 0, []),
                   ('E', ['E', '+', 'T'], 'plus', 0, [0, 2]), ('E', ['T'], None, 0, [0]),
                   ('T', ['i'], None, 0, [0]), ('T', ['(', 'E', ')'], None, 0, [1]), ('T', ['(', 'error', ')'], 'errpar', 0, [])]), True),
    ]
    for gi in range(ngr):
        strict = True if pid == 'C06' else rng.random() < 0.6
        nerr = rng.choice([0, 1, 1, 2, 3]) if pid != 'C08' else rng.choice([1, 1, 2, 3])
        g = gen.rand_wf_grammar(rng, strict, max_nt=rng.choice([1, 2, 3, 4]), max_t=rng.choice([2, 3, 4]), max_rhs=rng.choice([2, 3, 4]),
                                err_rules=nerr, p_anode=0.7, p_empty=rng.choice([0, 0.15, 0.3]), p_unit=rng.choice([0, 0, 0.25]))
        if g is None:
            continue
        corpus.append((g, strict))
    # every family has its quota (the unit-chain families, whose grammars are often not reduced, a double one); a draw that
    # is not a reduced grammar is repeated
    fams = gen.FAMILIES + ['deepchains', 'chains']
    for gi in range(max(ngr // 3, 2 * len(fams))):
        for _ in range(5):
            g = gen.family_grammar(rng, fam=fams[gi % len(fams)])
            if g.well_formed(True):
                corpus.append((g, True))
                break
    nested = []
    for _ in range(25 if quick else 250):
        # nested constructs, each with its own `error' alternative (several places expecting error on the path to the error)
        d = rng.randint(2, 4)
        opens = ['a', 'b', 'c', 'd'][:d]
        closes = ['z', 'y', 'x', 'w'][:d]
        inner = [rng.choice(['p', 'q']) for _ in range(rng.randint(1, 3))]
        rules = []
        for j in range(d):
            body = ['N%d' % (j + 1)] if j + 1 < d else inner
            rules.append(('N%d' % j, [opens[j]] + body + [closes[j]], 'n%d' % j, 0, [1] if j + 1 < d else []))
            rules.append(('N%d' % j, ['error', closes[j]], 'e%d' % j, 0, []))
        terms = [(t, ord(t)) for t in opens + closes + ['p', 'q']]
        g = gen.Gram(terms, rules)
        good = opens + inner + closes[::-1]
        for _ in range(6):
            w = list(good)
            # corrupt the inner part, possibly followed by a second (good or bad) copy
            i0 = len(opens) + rng.randrange(len(inner) + 1)
            op = rng.choice(['del', 'sub', 'ins'])
            if op == 'del' and i0 < len(w):
                del w[i0]
            elif op == 'sub' and i0 < len(w):
                w[i0] = rng.choice(closes + opens)
            else:
                w.insert(i0, rng.choice(closes + ['p']))
            if rng.random() < 0.6:
                # drop the closers of the innermost constructs: only an outer construct can recover
                drop = rng.randint(1, d - 1)
                gone = set(closes[d - drop:])
                w = [t for t in w if t not in gone]
            if rng.random() < 0.5:
                w = w[:rng.randint(len(opens), len(w))] + good
            if len(w) <= 18:
                nested.append((g, True, w))
    # statement lists in which several consecutive statements are broken (many recovery alternatives with tails)
    errlists = []
    for _ in range(6 if quick else 60):
        tail = rng.choice([['b', ';'], [';'], ['b', 'c', ';']])
        gl = gen.Gram([('a', 97), ('b', 98), ('c', 99), (';', 59), ('q', 113)],
                      [('P', ['L'], None, 0, [0]), ('L', ['L', 'I'], 'l', 0, [0, 1]), ('L', ['I'], None, 0, [0]),
                       ('I', ['a'] + tail, 'st', 0, [0]), ('I', ['error', ';'], 'bad', 0, [])])
        for k in (3, 4, 5, 6):
            w = []
            for j in range(k):
                w += rng.choice([['a', ';'], ['a', 'q', ';'], ['q', ';']]) if tail != [';'] else rng.choice([['q', ';'], ['a', 'a', ';']])
            if rng.random() < 0.5:
                w += ['a'] + tail
            errlists.append((gl, True, w))
    for g, strict in corpus:
        stats['grammars'] += 1
        if any('error' in r[1] for r in g.rules):
            stats['with_error_rules'] += 1
        seen = set()
        for _ in range(8):
            w = gen.rand_sentence(rng, g, maxlen=8)
            if w is None:
                continue
            cands = [w, gen.mutate(rng, g, w, 1), gen.mutate(rng, g, w, 2), gen.mutate(rng, g, w, rng.choice([1, 3]))]
            # errors at token 0 and at the end of input
            tn = [t for t, c in g.terms]
            cands.append([rng.choice(tn)] + w)
            cands.append(w[:max(0, len(w) - 1)])
            for c in cands:
                if len(c) <= 9 and tuple(c) not in seen:
                    seen.add(tuple(c))
                    pairs.append((g, strict, c))
        if getattr(g, 'pieces', None):
            # the 'blocks' family: the same construct several times in one input (long inputs)
            for c in gen.block_inputs(rng, g, 10):
                if (pid != 'C07' or len(c) <= 9) and tuple(c) not in seen:
                    seen.add(tuple(c))
                    pairs.append((g, strict, c))
                    stats['block_inputs'] = stats.get('block_inputs', 0) + 1
    # a rule with several translated terminals behind a construct that has an `error' alternative: after the repair the
    # nodes of the following tokens must be the nodes of *their* tokens (all parses requested: terminal nodes are re-used)
    errmid = []
    for _ in range(10 if quick else 100):
        pre = rng.sample(['a', 'b', 'f'], rng.randint(1, 2))
        post = rng.sample(['c', 'd', 'e', 'g'], rng.randint(2, 3))
        rhs = pre + ['T'] + post
        tr = list(range(len(rhs)))
        if rng.random() < 0.3:
            rng.shuffle(tr)
        gm = gen.Gram([(t, ord(t)) for t in ['a', 'b', 'f', 'c', 'd', 'e', 'g', 'x', 'y']],
                      [('P', rhs, 'p', 0, tr), ('T', ['x'], rng.choice([None, 't']), 0, [0]), ('T', ['x', 'y'], 'u', 0, [0, 1]), ('T', ['error'], 'bad', 0, [])])
        for mid in (['y', 'y'], ['y'], ['x', 'x'], [], ['x', 'y', 'y'], ['x']):
            w = pre + mid + post
            if len(w) <= 9:
                errmid.append((gm, True, w))
    pairs += errmid
    stats['error_mid_inputs'] = len(errmid)
    pairs += errlists
    stats['error_list_inputs'] = len(errlists)
    if pid in ('C06', 'C08'):
        pairs += nested
    else:
        # C07 enumerates repairs: only the short ones
        nested = [n for n in nested if len(n[2]) <= 7][:40 if quick else 400]
        pairs += nested
    stats['nested_error_inputs'] = len(nested)
    stats['pairs'] = len(pairs)
    # ---- oracle: sentence? first bad token ----
    augs = [augmented(g) for g, s, w in pairs]
    names = [dict() for _ in pairs]
    ans = yvlib.run_oracle([shift_query(ga, nm, w + ['$eof']) for ga, nm, (g, s, w) in zip(augs, names, pairs)])
    first_bad, sentence = [], []
    for a in ans:
        if a == 'none':
            first_bad.append(None); sentence.append(None)
        else:
            k, acc = a.split()
            first_bad.append(int(k)); sentence.append(acc == '1')
    stats['sentences'] = sum(1 for s in sentence if s)
    stats['nonsentences'] = sum(1 for s in sentence if s is False)
    # ---- implementation ----
    script, index = [], []
    for i, (g, strict, w) in enumerate(pairs):
        if sentence[i] is None:
            continue
        if pid == 'C06':
            cfgs = [{'la': la, 'rec': r, 'match': m, 'one': 1} for la in (0, 1, 2) for (r, m) in ((0, 3), (1, rng.choice([1, 2, 3, 4, 5])))]
        elif pid == 'C07':
            cfgs = [{'la': la, 'rec': 1, 'match': rng.choice([1, 2, 3, 4, 5]), 'one': rng.choice([0, 1])} for la in (0, 1, 2)]
        else:
            cfgs = [{'la': la, 'rec': 1, 'match': m, 'one': 1} for la in (0, 1, 2) for m in rng.sample([1, 2, 3, 4, 5], 2)]
        if sentence[i] and pid == 'C08':
            continue
        for ci, cfg in enumerate(cfgs):
            cid = 'e%d_%d' % (i, ci)
            script.append(yvlib.simple_case(cid, g.as_dict(), 1 if strict else 0, cfg, gen.codes_of(g, w), allocmode=0))
            index.append((i, ci, cfg))
    res = yvlib.run_driver(exe, '\n'.join(script))
    # ---- second oracle round ----
    extra_q, extra_idx = [], []
    later = {}
    for (i, ci, cfg), r in zip(index, res):
        g, strict, w = pairs[i]
        ops = cp.get_ops(r)
        if 'abort' in r or 'parse' not in ops:
            continue
        p = ops['parse'][0]
        if pid == 'C08' and p['errs'] and sentence[i] is False:
            e = first_bad[i]
            n = len(w)
            toks = w + ['$eof']
            m = cfg['match']
            ga = augs[i]
            enc = ga.enc_rules(names[i])
            tt = [ga.tnum[x] for x in toks]
            extra_q.append('SIMPLEMIN ' + ' '.join(map(str, enc + [ga.nnum['$S'], ga.tnum['error'], e, m, len(tt)] + tt)))
            extra_idx.append(('simplemin', i, ci))
        if pid == 'C07' and p.get('root') is not None and p['rc'] == 0 and len(p['errs']) <= 3 and not p.get('truncated'):
            # candidate repairs: one segment per callback, total replaced = reported ignored
            total = sum(max(0, x[4] - x[2]) for x in p['errs'])
            k = len(p['errs'])
            n = len(w)
            if cp.count_denoted(p) <= 200:
                extra_q.append(cp.dag_query(p, names[i])); extra_idx.append(('denote', i, ci))
            cands = []
            for kk in range(1, k + 4):
                cands += list(repairs(n, kk, total))
                if len(cands) > 2500:
                    break
            if len(cands) <= 2500:
                # first the likely candidates (the reported segments themselves, every single segment, a few more); the rest
                # is asked for only when none of those explains the tree
                reported = [(x[2], x[4]) for x in p['errs']]
                first = [c_ for c_ in cands if len(c_) == 1 or [tuple(sg) for sg in c_] == reported]
                first += [c_ for c_ in cands if c_ not in first][:25]
                for segs in first:
                    extra_q.append(repair_query(augs[i], names[i], w, segs)); extra_idx.append(('repair', i, ci, segs))
                later[(i, ci)] = [c_ for c_ in cands if c_ not in first]
    import time as _t
    _t0 = _t.time()
    extra = yvlib.run_oracle(extra_q, qtimeout=(1 if pid == 'C07' else None)) if extra_q else []
    if pid == 'C07' and later:
        # second stage: the remaining candidates of the cases no first-stage candidate explains
        den1, rep1 = {}, {}
        for key, a in zip(extra_idx, extra):
            if key[0] == 'denote':
                den1[(key[1], key[2])] = cp.parse_denote(a)
            elif key[0] == 'repair':
                rep1.setdefault((key[1], key[2]), []).append(cp.parse_trans(a))
        q2, i2 = [], []
        for (i, ci), rest in later.items():
            d1 = den1.get((i, ci))
            if not rest or d1 is None or d1['status'] != 'ok':
                continue
            trees = set(d1['trees'])
            if any(T is not None and trees & set(T) for T in rep1.get((i, ci), [])):
                continue
            for segs in rest:
                q2.append(repair_query(augs[i], names[i], pairs[i][2], segs)); i2.append(('repair', i, ci, segs))
        if q2:
            extra += yvlib.run_oracle(q2, qtimeout=1)
            extra_q += q2
            extra_idx += i2
        stats['repair_candidates_second_stage'] = len(q2)
    stats['deep_results_skipped'] = {'count': len(cp.DEEP), 'node_counts': sorted(set(cp.DEEP))[:10]}
    stats['second_oracle_round'] = {'queries': len(extra_q), 'seconds': round(_t.time() - _t0, 1),
                                    'by_kind': {k: sum(1 for x in extra_idx if x[0] == k) for k in set(x[0] for x in extra_idx)},
                                    'unanswered': sum(1 for a in extra if a == 'none')}
    simple, denote, repair = {}, {}, {}
    for key, a in zip(extra_idx, extra):
        if key[0] == 'simplemin':
            _, i, ci = key
            if a not in ('none', 'inf') and not a.startswith('error'):
                simple[(i, ci)] = int(a)
        elif key[0] == 'denote':
            denote[(key[1], key[2])] = cp.parse_denote(a)
        else:
            _, i, ci, segs = key
            repair.setdefault((i, ci), []).append((segs, cp.parse_trans(a)))
    # ---- relations ----
    for (i, ci, cfg), r in zip(index, res):
        g, strict, w = pairs[i]
        n = len(w)
        ops = cp.get_ops(r)
        rd = (ops.get('read') or [{}])[0]
        if rd.get('rc') != 0 and 'abort' not in r:
            continue
        key = (i, ci)
        chk.note_case(key, sentence[i] is False, {'grammar': yvlib.grammar_text(g.as_dict()), 'tokens': ' '.join(w), 'cfg': cfg,
                                                    'sentence': sentence[i], 'first_bad': first_bad[i]})
        expect = {'sentence': sentence[i], 'first_bad_token': first_bad[i]}
        rep = cp.replay_obj(pid, g, strict, w, cfg, 0, r, expect)

        def V(rel, desc):
            chk.violation(cp.sig_of(pid, rel, g, w, cfg), desc, rep)
        if 'abort' in r or 'parse' not in ops:
            V('abort', 'implementation aborted: %s %s' % (r.get('abort'), (r.get('stderr') or [''])[:2]))
            continue
        p = ops['parse'][0]
        errs = p['errs']
        if p['rc'] != 0:
            V('rc', 'rc=%d for declared tokens' % p['rc']); continue
        if pid == 'C06':
            if sentence[i]:
                continue
            if not errs:
                V('noerror', 'non-sentence without a syntax_error call'); continue
            e = errs[0]
            fb = first_bad[i]
            if e[0] != fb:
                V('first', 'first error reported at token %d, the first token no sentence can continue with is %d' % (e[0], fb)); continue
            if e[1] != (fb if fb < n else -1):
                V('attr', 'attribute of the error token is that of token %d, expected %d' % (e[1], fb if fb < n else -1)); continue
            if cfg['rec'] == 0:
                if len(errs) != 1 or e[2:] != [-1, -1, -1, -1]:
                    V('norecovery_args', 'recovery off: calls %s' % errs); continue
            else:
                prev = -1
                bad = None
                for x in errs:
                    tok, at, st, sat, sp, eat = x
                    if not (0 <= st <= sp <= n):
                        bad = 'range: first ignored %d, first recovered %d, token count %d' % (st, sp, n)
                    elif not (0 <= tok <= n):
                        bad = 'error token %d outside the input' % tok
                    elif at != (tok if tok < n else -1) or sat != (st if st < n else -1) or eat != (sp if sp < n else -1):
                        bad = 'attributes (%d,%d,%d) do not belong to the reported indices (%d,%d,%d)' % (at, sat, eat, tok, st, sp)
                    elif tok <= prev:
                        bad = 'error tokens do not strictly increase: %d after %d' % (tok, prev)
                    prev = tok
                    if bad:
                        break
                if bad:
                    V('recovery_args', bad); continue
        elif pid == 'C07':
            if (len(errs) > 0) != (sentence[i] is False):
                V('iff', '%d syntax_error calls for a %s' % (len(errs), 'sentence' if sentence[i] else 'non-sentence')); continue
            if p.get('root') is None:
                V('nullroot', 'NULL root with error recovery on'); continue
            d = denote.get(key)
            if d is None:
                continue
            if d['status'] != 'ok':
                V('malformed', 'result tree is not well-formed (%s) nodes=%s' % (d['status'], json.dumps(p.get('nodes'))[:300])); continue
            if sentence[i]:
                continue
            cands = repair.get(key)
            if not cands:
                continue
            trees = set(d['trees'])
            expl = [segs for segs, T in cands if T is not None and trees & set(T)]
            if not expl and any(T is None for segs, T in cands):
                # a candidate was not answered within the time limit of the oracle: nothing is known about this case
                stats['repair_undecided_cases'] = stats.get('repair_undecided_cases', 0) + 1
                continue
            if not expl:
                V('repair', 'no repair replacing %d token(s) in %d segment(s) explains the returned tree %s' % (
                    sum(max(0, x[4] - x[2]) for x in errs), len(errs), sorted(trees)[:2])); continue
            expl1 = [sg for sg in expl if len(sg) == 1]
            if len(errs) == 1 and len(expl1) == 1:
                seg = expl1[0][0]
                if [errs[0][2], errs[0][4]] != list(seg):
                    V('unique', 'the unique single-segment repair is %s but the callback reported (%d, %d)' % (list(seg), errs[0][2], errs[0][4])); continue
        elif pid == 'C08':
            if not errs:
                continue
            e = first_bad[i]
            m = cfg['match']
            best = simple.get(key)      # least cost of a successful simple recovery (SimpleRecovery.min_simple_cost)
            reported = errs[0][4] - errs[0][2]
            if best is not None and reported > best:
                V('notminimal', 'first recovery ignores %d tokens; a simple recovery (back to an earlier position expecting `error\', skip forward) ignoring %d exists' % (
                    reported, best)); continue
    chk.cov['rule'] = ('random grammars with 0-3 `error\' rules (strict for C06) x (random derivations with 1-3 token edits, an extra first token, a dropped last token) '
                       'x lookahead levels x recovery_match 1..5; non-trivial = the input is not a sentence')
    return chk.finish(extra_cov={'stream': stats})


def repair_query(ga, names_i, w, segs):
    """TRANSA query: the translations of w with the segments replaced by `error' (attributes = token positions)."""
    n = len(w)
    codes = [c for nm, c in ga.terms]
    enc = ga.enc_rules(names_i)
    toks2, attrs2 = [], []
    pos = 0
    for (s, t) in segs:
        toks2 += w[pos:s]; attrs2 += list(range(pos, s))
        toks2.append('error'); attrs2.append(0)
        pos = t
    toks2 += w[pos:]; attrs2 += list(range(pos, n))
    toks2.append('$eof'); attrs2.append(n)
    t = [ga.tnum[x] for x in toks2]
    return 'TRANSA ' + ' '.join(map(str, [FUEL] + enc + [len(codes)] + codes + [ga.tnum['error'], ga.nnum['$S'], len(t)] + t + attrs2))


def repairs(n, k, total):
    """all lists of k disjoint sorted segments (s, t), s <= t <= n, possibly empty/adjacent, with total length = total"""
    def rec(start, k, left):
        if k == 0:
            if left == 0:
                yield []
            return
        for s in range(start, n + 1):
            for ln in range(0, left + 1):
                t = s + ln
                if t > n:
                    break
                for rest in rec(t, k - 1, left - ln):
                    yield [(s, t)] + rest
    return rec(0, k, total)
