"""Check C17: a single failing memory request inside yaep_create_grammar, a
grammar definition or yaep_parse is reported as NULL / YAEP_NO_MEMORY without
touching invalid memory; the object can still be freed; other objects are
unaffected.  The library is built with allocate.c routed through counting /
failing wrappers (no hook in the source); for every scenario every k up to the
number of requests of the fault-free run is tried in a fresh process."""
import json, os, sys
import yvlib, gen
from yvlib import hx
from checklib import Check
import check_api as ca


def scenarios(rng, quick):
    P = ca.pool()
    good = [d for d in P[:5]]
    S = []
    # target kinds: new | define (read/desc) | parse with a configuration
    S.append(dict(name='create', pre=[], target=['NEW 0'], post_free=True, kind='new'))
    for di, d in enumerate(good):
        S.append(dict(name='define%d' % di, pre=['NEW 0'], target=ca.define_lines(0, d), post_free=True, kind='define'))
        S.append(dict(name='redefine%d' % di, pre=['NEW 0'] + ca.define_lines(0, good[(di + 1) % len(good)]), target=ca.define_lines(0, d), post_free=True, kind='define'))
    cfgs = [{'la': 1}, {'la': 0, 'one': 0}, {'la': 2, 'cost': 1}, {'la': 1, 'rec': 0}, {'la': 2, 'one': 0, 'cost': 1, 'match': 1}]
    for di, d in enumerate(good):
        for ci, cfg in enumerate(cfgs if not quick else cfgs[:3]):
            for ii, inp in enumerate(d['inputs'][:4]):
                if any(t not in ca.declared_codes(d) for t in inp if t >= 0):
                    continue
                S.append(dict(name='parse%d_%d_%d' % (di, ci, ii), pre=['NEW 0'] + yvlib.script_cfg(0, cfg) + ca.define_lines(0, d),
                              target=['PARSE 0 %d %d %s' % (rng.choice([0, 1]), len(inp), ' '.join(map(str, inp)))], post_free=True, kind='parse'))
    # a parse after a successful parse on the same object, and a definition after a failed one
    d = good[0]
    S.append(dict(name='second_parse', pre=['NEW 0'] + ca.define_lines(0, d) + ['PARSE 0 0 3 97 43 97'], target=['PARSE 0 0 3 97 42 97'], post_free=True, kind='parse'))
    S.append(dict(name='desc_after_desc', pre=['NEW 0'] + ca.define_lines(0, good[3]), target=ca.define_lines(0, good[4]), post_free=True, kind='define'))
    # scenarios in which containers outgrow their initial size (re-allocations can fail too)
    big = {'terms': [('t%d' % i, 300 + i) for i in range(75)],
           'rules': [('S', ['N%d' % i], None, 0, [0]) for i in range(0, 75, 5)] +
                    [('N%d' % i, ['t%d' % i] + (['N%d' % (i + 1)] if i % 5 != 4 else []), 'n%d' % i, 0, [0]) for i in range(75)]}
    bigd = dict(kind='read', g=big, strict=0, inputs=[[300, 301, 302, 303, 304]])
    S.append(dict(name='define_big', pre=['NEW 0'], target=ca.define_lines(0, bigd), post_free=True, kind='define'))
    lst = good[2]
    longin = [300] + [5, 300] * 30
    S.append(dict(name='parse_long', pre=['NEW 0'] + ca.define_lines(0, lst), target=['PARSE 0 0 %d %s' % (len(longin), ' '.join(map(str, longin)))], post_free=True, kind='parse'))
    S.append(dict(name='parse_long_all', pre=['NEW 0', 'SET 0 2 0', 'SET 0 0 2'] + ca.define_lines(0, lst), target=['PARSE 0 1 %d %s' % (len(longin), ' '.join(map(str, longin)))], post_free=True, kind='parse'))
    # a rule with a hundred alternatives (the stacks of the description parser outgrow their initial size)
    many = "S : " + " | ".join("'a' " * (k % 3 + 1) + "'b'" + (" 'c'" * (k // 3)) for k in range(100)) + " ;\n"
    S.append(dict(name='desc_many_alternatives', pre=['NEW 0'], target=['DESC 0 0 %s' % hx(many)], post_free=True, kind='define'))
    # a set core with a hundred different symbols after the dot (the array of work vectors of the set construction grows)
    wide = {'terms': [('t%d' % i, 300 + i) for i in range(100)], 'rules': [('S', ['t%d' % i, 't%d' % ((i * 7) % 100)], None, 0, None) for i in range(100)]}
    wided = dict(kind='read', g=wide, strict=0, inputs=[[305, 335]])
    S.append(dict(name='parse_wide', pre=['NEW 0', 'SET 0 0 %d' % rng.choice([0, 1, 2])] + ca.define_lines(0, wided), target=['PARSE 0 0 2 305 335'], post_free=True, kind='parse'))
    # twins of the definition scenarios in which the previous call was made on another object
    for sc in [x for x in S if x['kind'] in ('define', 'new')]:
        S.append(dict(sc, name=sc['name'] + '_after_other', touch=True))
    return S, good


def case_lines(cid, sc, witness, k):
    L = ['CASE %s' % cid, 'NEW 1'] + ca.define_lines(1, witness) + sc['pre']
    if sc.get('touch'):
        # the last library call before the failing one is made on the other object
        w0 = witness['inputs'][0]
        L.append('PARSE 1 0 %d %s' % (len(w0), ' '.join(map(str, w0))))
    L.append('ERR 1')
    L.append('COUNTERS')
    L.append('FAILAT %d' % k)
    L += sc['target']
    L.append('FAILAT -1')
    L.append('COUNTERS')
    if sc['kind'] != 'new':
        L.append('ERR 0')
    L.append('ERR 1')
    w = witness['inputs'][0]
    L.append('PARSE 1 0 %d %s' % (len(w), ' '.join(map(str, w))))
    L.append('FREEG0IFANY')
    L.append('FREEG 1')
    L.append('END')
    return '\n'.join(L)


def run(pid, tier, seed, replay=None):
    chk = Check(pid, tier, seed)
    chk.coq()
    try:
        exe = yvlib.build_impl('fault')
    except yvlib.BuildError as e:
        chk.obl['broken'].append('implementation does not build: ' + str(e)[-800:])
        return chk.finish()
    quick = tier == 'quick'
    rng = chk.rng
    S, good = scenarios(rng, quick)
    witness = good[1]
    # pass 1: fault-free run of every scenario: how many requests does the target make, what does it return
    base = yvlib.run_driver(exe, '\n'.join(case_lines('b%d' % i, sc, witness, -1) for i, sc in enumerate(S)))
    counts, baseline = [], []
    for sc, r in zip(S, base):
        cs = [o for o in r.get('ops', []) if o['op'] == 'counters']
        if 'abort' in r or len(cs) < 2:
            chk.violation('C17:baseline:%s' % sc['name'], 'fault-free scenario aborted: %s' % r.get('abort'), {'property': 'C17', 'scenario': sc, 'implementation': r})
            counts.append(0); baseline.append(None)
            continue
        counts.append(cs[1]['allocs'] - cs[0]['allocs'])
        baseline.append(r)
    stats = {'scenarios': len(S), 'requests_per_scenario': dict(zip([s['name'] for s in S], counts)), 'fault_points': 0, 'not_reached': 0}
    script, meta = [], []
    for i, (sc, n) in enumerate(zip(S, counts)):
        ks = list(range(1, n + 1))
        if quick and len(ks) > 60 and not sc['name'].startswith(('define_big', 'parse_long', 'desc_many', 'parse_wide')):
            ks = sorted(set(ks[:25] + rng.sample(ks[25:], 35)))
        for k in ks:
            script.append(case_lines('f%d_%d' % (i, k), sc, witness, k)); meta.append((i, k))
    stats['fault_points'] = len(script)
    res = yvlib.run_driver(exe, '\n'.join(script), timeout_case=30)
    wit_expect = None
    for (i, k), r in zip(meta, res):
        sc = S[i]
        chk.note_case((sc['name'], k), True, {'scenario': sc['name'], 'failing_request': k, 'target': sc['target'][0][:80]})
        rep = {'property': 'C17', 'scenario': sc['name'], 'pre': sc['pre'], 'target': sc['target'], 'failing_request': k, 'implementation': r}
        sig = 'C17:%%s:%s:k=%d' % (sc['name'], k)
        if 'abort' in r:
            chk.violation(sig % 'abort', 'request %d of %s fails: process aborted: %s %s' % (k, sc['name'], r.get('abort'), (r.get('stderr') or [''])[:3]), rep)
            continue
        ops = r['ops']
        cs = [o for o in ops if o['op'] == 'counters']
        if cs[1]['fail_seen'] != 1:
            stats['not_reached'] += 1
            continue
        # the target op is the one after 'failat'
        ti = [j for j, o in enumerate(ops) if o['op'] == 'failat'][0] + 1
        t = ops[ti]
        bad = None
        if sc['kind'] == 'new':
            if t.get('ok') != 0:
                bad = 'yaep_create_grammar did not return NULL'
        else:
            if t.get('rc') != 1:
                bad = '%s returned %s, not YAEP_NO_MEMORY' % (t['op'], t.get('rc'))
            elif t.get('ec') != 1:
                bad = '%s returned YAEP_NO_MEMORY but yaep_error_code is %s' % (t['op'], t.get('ec'))
        wp = [o for o in ops if o['op'] == 'parse'][-1]
        bw = [o for o in baseline[i]['ops'] if o['op'] == 'parse'][-1] if baseline[i] else None
        if not bad and bw is not None:
            strip = lambda ns: [{k: v for k, v in n.items() if k != 'name_block'} for n in (ns or [])]
            if (wp['rc'], wp['errs'], wp['amb'], strip(wp.get('nodes'))) != (bw['rc'], bw['errs'], bw['amb'], strip(bw.get('nodes'))):
                bad = 'another grammar object parses differently after the failure'
        if not bad:
            errs = [o for o in ops if o['op'] == 'err']
            # ERR ops in script order: witness before, [object 0], witness after
            wb, wa = errs[0], errs[-1]
            if {k: v for k, v in wb.items() if k != 'op'} != {k: v for k, v in wa.items() if k != 'op'}:
                bad = 'the error state of another grammar object changed (%s -> %s)' % ({k: v for k, v in wb.items() if k != 'op'}, {k: v for k, v in wa.items() if k != 'op'})
        if bad:
            chk.violation(sig % 'result', 'request %d of %s fails: %s' % (k, sc['name'], bad), rep)
    chk.cov['rule'] = ('scenarios (create; define by callbacks / text, fresh and over an existing definition; parse in several configurations incl. all parses, cost, recovery; '
                       'second parse) x every allocation request k of the fault-free run (quick: the first 25 and 35 random later ones); a second object is defined before and '
                       'parsed after the failure')
    chk.cov['exhaustive'] = not quick
    return chk.finish(extra_cov={'stream': stats}, level='proof')
