/* yv_driver: interpreter of API histories for libyaep / libyaep++.

   Compiles as C (against the C API) and as C++ (against class yaep).
   Reads a script (see DESIGN.md section 5.2) from the file given as
   argv[1]; every CASE is run in a forked child so that a crash, a
   sanitizer report or a hang of the library is a *result* of that case
   and leaks no state (yaep keeps its working state in file-scope
   variables) into the next one.  One JSON object per case is written
   to stdout.

   Script grammar (tokens separated by white space; strings are
   hex-encoded with a leading 'x', so "x" is the empty string):

     CASE <id>
       NEW <slot>
       SET <slot> <which 0..5: la debug one cost rec match> <int>
       READ <slot> <strict> <nterms> <nrules>
          t <xname> <code>                               (nterms times)
          r <xlhs> <nrhs> <xsym>... <xanode|-> <cost> <ntr|-1> <int>...   (nrules times)
       DESC <slot> <strict> <xtext>
       PARSE <slot> <allocmode> <ntoks> <code>...
            allocmode 0: tracking alloc + tracking free   1: NULL, NULL
                      2: tracking alloc, NULL free        3: NULL alloc, tracking free
       WALK <parse#>          touch every byte reachable from the root
       FREET <parse#> <termcb 0|1>
       FREEG <slot>
       ERR <slot>
       SETS <s>               (C build with hooks) nullable flags and FIRST / FOLLOW sets of the grammar of slot s
       FAILAT <k>             (fault build only) fail the k-th allocation from now on
       FAILBIG <k> <minsize>  (fault build only) count the requests of at least minsize bytes from now on; the k-th fails (k < 0: none)
       COUNTERS               print allocator / hash counters
     END
*/
#include <stdio.h>
#include <stdlib.h>
#include <string.h>
#include <stdint.h>
#include <signal.h>
#include <unistd.h>
#include <errno.h>
#include <sys/types.h>
#include <sys/wait.h>
#include <fcntl.h>

#include "yaep.h"
#ifndef __cplusplus
#include "hashtab.h"
#endif

#ifdef YAEP_VERIF
#ifdef __cplusplus
extern "C" {
#endif
extern long yaep_verif_get (int what);
extern void yaep_verif_set (int what, long value);
extern long yaep_verif_stat (int what);
#ifndef __cplusplus
extern int yaep_verif_sets (struct grammar *g, int n, const char **name, int *buf, int size);
#endif
#ifdef __cplusplus
}
#endif
#endif

/* ------------------------------------------------------------------ */
/* Allocation wrappers used by the fault / counting build
   (allocate.c compiled with -Dmalloc=yv_malloc ...).                   */
static long yv_n_allocs, yv_bytes, yv_fail_at = -1, yv_fail_seen;
/* FAILBIG: requests of at least yv_big_min bytes are counted; the yv_big_fail-th of them fails */
static long yv_big_min, yv_n_big, yv_big_fail = -1;
/* blocks the library holds: successful requests minus releases */
static long yv_live;
static int yv_big (size_t n)
{
  if (yv_big_min <= 0 || (long) n < yv_big_min) return 0;
  yv_n_big++;
  if (yv_big_fail >= 0 && yv_n_big == yv_big_fail) { yv_fail_seen = 1; return 1; }
  return 0;
}
#ifdef __cplusplus
extern "C" {
#endif
void *yv_malloc (size_t n)
{
  yv_n_allocs++; yv_bytes += (long) n;
  if (yv_fail_at >= 0 && yv_n_allocs == yv_fail_at) { yv_fail_seen = 1; return NULL; }
  if (yv_big (n)) return NULL;
  { void *r_ = malloc (n); if (r_ != NULL) yv_live++; return r_; }
}
void *yv_calloc (size_t a, size_t b)
{
  yv_n_allocs++; yv_bytes += (long) (a * b);
  if (yv_fail_at >= 0 && yv_n_allocs == yv_fail_at) { yv_fail_seen = 1; return NULL; }
  if (yv_big (a * b)) return NULL;
  { void *r_ = calloc (a, b); if (r_ != NULL) yv_live++; return r_; }
}
void *yv_realloc (void *p, size_t n)
{
  yv_n_allocs++; yv_bytes += (long) n;
  if (yv_fail_at >= 0 && yv_n_allocs == yv_fail_at) { yv_fail_seen = 1; return NULL; }
  if (yv_big (n)) return NULL;
  { void *r_ = realloc (p, n); if (p == NULL && r_ != NULL) yv_live++; return r_; }
}
void yv_free (void *p) { if (p != NULL) yv_live--; free (p); }
#ifdef __cplusplus
}
#endif

/* ------------------------------------------------------------------ */
/* Script reader.                                                       */
static char *script; static size_t spos, slen;

static int is_sep (char c) { return c == ' ' || c == '\n' || c == '\t' || c == '\r' || c == '\0'; }
static char *next_tok (void)
{
  char *s;
  while (spos < slen && is_sep (script[spos]))
    spos++;
  if (spos >= slen) return NULL;
  s = script + spos;
  while (spos < slen && !is_sep (script[spos]))
    spos++;
  if (spos < slen) script[spos++] = '\0';
  return s;
}
static long next_int (void)
{
  char *t = next_tok ();
  if (t == NULL) { fprintf (stderr, "yv_driver: unexpected end of script\n"); exit (3); }
  return strtol (t, NULL, 10);
}
static int hexval (int c) { return c <= '9' ? c - '0' : (c | 32) - 'a' + 10; }
/* Decode "x6162" into a fresh exact-size heap string.  */
static char *unhex (const char *t, size_t *len_out)
{
  size_t n, i; char *r;
  if (t[0] != 'x') { fprintf (stderr, "yv_driver: bad string %s\n", t); exit (3); }
  n = strlen (t + 1) / 2;
  r = (char *) malloc (n + 1);
  for (i = 0; i < n; i++) r[i] = (char) (hexval (t[1 + 2 * i]) * 16 + hexval (t[2 + 2 * i]));
  r[n] = '\0';
  if (len_out) *len_out = n;
  return r;
}

/* ------------------------------------------------------------------ */
/* JSON output helpers.                                                 */
static FILE *out;
static void jstr (const char *s)
{
  fputc ('"', out);
  for (; *s; s++)
    {
      unsigned char c = (unsigned char) *s;
      if (c == '"' || c == '\\') fprintf (out, "\\%c", c);
      else if (c < 32 || c >= 127) fprintf (out, "\\u%04x", c);
      else fputc (c, out);
    }
  fputc ('"', out);
}

/* ------------------------------------------------------------------ */
/* Grammar objects.                                                     */
#define MAX_SLOTS 8
#ifdef __cplusplus
typedef yaep *gram_t;
#else
typedef struct grammar *gram_t;
#endif
static gram_t slots[MAX_SLOTS];

/* Definition being handed to yaep_read_grammar.  Every string / array
   is a fresh heap copy, overwritten and freed when the defining call
   has returned (the caller owns them: property C13).  */
struct dterm { char *name; int code; };
struct drule { char *lhs; int nrhs; char **rhs; char *anode; int cost; int ntr; int *tr; };
static struct dterm *dterms; static int n_dterms, cur_dterm;
static struct drule *drules; static int n_drules, cur_drule;
static void **handed; static int n_handed, cap_handed;
static size_t *handed_len;

static void *hand_out (const void *src, size_t len)
{
  void *p = malloc (len ? len : 1);
  memcpy (p, src, len);
  if (n_handed == cap_handed)
    {
      cap_handed = cap_handed ? cap_handed * 2 : 64;
      handed = (void **) realloc (handed, cap_handed * sizeof (void *));
      handed_len = (size_t *) realloc (handed_len, cap_handed * sizeof (size_t));
    }
  handed[n_handed] = p; handed_len[n_handed] = len; n_handed++;
  return p;
}
static void scrub_handed (void)
{
  int i;
  for (i = 0; i < n_handed; i++) { memset (handed[i], 0x5a, handed_len[i]); free (handed[i]); }
  n_handed = 0;
}

static const char *cb_read_terminal (int *code)
{
  struct dterm *t;
  if (cur_dterm >= n_dterms) return NULL;
  t = &dterms[cur_dterm++];
  *code = t->code;
  return (const char *) hand_out (t->name, strlen (t->name) + 1);
}
static const char *cb_read_rule (const char ***rhs, const char **abs_node, int *anode_cost, int **transl)
{
  struct drule *r; const char **arr; int i;
  if (cur_drule >= n_drules) return NULL;
  r = &drules[cur_drule++];
  arr = (const char **) malloc ((r->nrhs + 1) * sizeof (char *));
  for (i = 0; i < r->nrhs; i++) arr[i] = (const char *) hand_out (r->rhs[i], strlen (r->rhs[i]) + 1);
  arr[r->nrhs] = NULL;
  *rhs = (const char **) hand_out (arr, (r->nrhs + 1) * sizeof (char *));
  free (arr);
  *abs_node = r->anode ? (const char *) hand_out (r->anode, strlen (r->anode) + 1) : NULL;
  *anode_cost = r->cost;
  if (r->ntr < 0) *transl = NULL;
  else
    {
      int *tr = (int *) malloc ((r->ntr + 1) * sizeof (int));
      for (i = 0; i < r->ntr; i++) tr[i] = r->tr[i];
      tr[r->ntr] = -1;
      *transl = (int *) hand_out (tr, (r->ntr + 1) * sizeof (int));
      free (tr);
    }
  return (const char *) hand_out (r->lhs, strlen (r->lhs) + 1);
}

/* ------------------------------------------------------------------ */
/* Tokens, syntax errors, tracked tree memory.                          */
#define ATTR_BASE 0x1000
static int *tok_codes; static int n_toks, cur_tok;
static int eof_value = -1;	/* what read_token returns at the end of input (any negative value ends it) */
static int reads_after_end;	/* calls of read_token after it has signalled the end */
static int cb_read_token (void **attr)
{
  if (cur_tok > n_toks) reads_after_end++;
  /* at the end of input the reader leaves a stale attribute behind: the library must not take it for the
     attribute of the end marker (which is NULL) */
  if (cur_tok >= n_toks) { *attr = (void *) (uintptr_t) (ATTR_BASE + 77000000u); cur_tok = n_toks + 1; return eof_value; }
  *attr = (void *) (uintptr_t) (ATTR_BASE + cur_tok);
  return tok_codes[cur_tok++];
}
static long attr_index (void *a)
{
  uintptr_t v = (uintptr_t) a;
  if (a == NULL) return -1;
  if (v >= ATTR_BASE && v < ATTR_BASE + 100000000u) return (long) (v - ATTR_BASE);
  return -2;
}
struct serr { int tok; long attr; int start; long sattr; int stop; long eattr; };
static struct serr *serrs; static int n_serrs, cap_serrs;
static void cb_syntax_error (int err_tok_num, void *err_tok_attr, int start_ignored_tok_num,
			     void *start_ignored_tok_attr, int start_recovered_tok_num,
			     void *start_recovered_tok_attr)
{
  struct serr e;
  if (n_serrs == cap_serrs)
    { cap_serrs = cap_serrs ? 2 * cap_serrs : 16; serrs = (struct serr *) realloc (serrs, cap_serrs * sizeof (struct serr)); }
  e.tok = err_tok_num; e.attr = attr_index (err_tok_attr);
  e.start = start_ignored_tok_num; e.sattr = attr_index (start_ignored_tok_attr);
  e.stop = start_recovered_tok_num; e.eattr = attr_index (start_recovered_tok_attr);
  serrs[n_serrs++] = e;
}

/* Blocks handed out by the tracking parse_alloc.  */
struct block { void *p; int size; int parse; int freed; };
static struct block *blocks; static int n_blocks, cap_blocks;
static int cur_parse = -1;
/* free-event log of the current op: block ids (or -1 unknown pointer, -2-id double free) */
static long *free_log; static int n_free_log, cap_free_log;
static void log_free (long v)
{
  if (n_free_log == cap_free_log)
    { cap_free_log = cap_free_log ? 2 * cap_free_log : 64; free_log = (long *) realloc (free_log, cap_free_log * sizeof (long)); }
  free_log[n_free_log++] = v;
}
static void *cb_parse_alloc (int nmemb)
{
  void *p = malloc (nmemb > 0 ? nmemb : 1);
  memset (p, 0xa5, nmemb > 0 ? nmemb : 1);
  if (n_blocks == cap_blocks)
    { cap_blocks = cap_blocks ? 2 * cap_blocks : 256; blocks = (struct block *) realloc (blocks, cap_blocks * sizeof (struct block)); }
  blocks[n_blocks].p = p; blocks[n_blocks].size = nmemb; blocks[n_blocks].parse = cur_parse; blocks[n_blocks].freed = 0;
  n_blocks++;
  return p;
}
static int find_block (void *p)
{
  int i;
  for (i = n_blocks - 1; i >= 0; i--) if (blocks[i].p == p) return i;
  return -1;
}
static void cb_parse_free (void *mem)
{
  int b;
  if (mem == NULL) { log_free (-1000000000L); return; }	/* free (NULL): logged; the checks count it as a pointer parse_alloc never returned */
  b = find_block (mem);
  if (b < 0) { log_free (-1); return; }
  if (blocks[b].freed) { log_free (-2 - b); return; }
  blocks[b].freed = 1;
  log_free (b);
  free (mem);		/* really release: a later use is caught by ASan */
}
static int n_termcb;
static void cb_term (struct yaep_term *t) { (void) t; n_termcb++; }

/* Results of parses.  */
#define MAX_PARSES 16
static struct yaep_tree_node *roots[MAX_PARSES]; static int root_mode[MAX_PARSES]; static int n_parses;

/* ------------------------------------------------------------------ */
/* DAG serialisation.                                                   */
struct nref { struct yaep_tree_node *p; int id; };
static struct nref *nrefs; static int n_nrefs, cap_nrefs;
static int node_id (struct yaep_tree_node *p, int *is_new)
{
  int i;
  for (i = 0; i < n_nrefs; i++) if (nrefs[i].p == p) { *is_new = 0; return i; }
  if (n_nrefs == cap_nrefs)
    { cap_nrefs = cap_nrefs ? 2 * cap_nrefs : 256; nrefs = (struct nref *) realloc (nrefs, cap_nrefs * sizeof (struct nref)); }
  nrefs[n_nrefs].p = p; nrefs[n_nrefs].id = n_nrefs; *is_new = 1;
  return n_nrefs++;
}
/* Iterative collection: nodes are numbered in discovery order, printed in id order. */
static int max_nodes = 200000;
static void print_dag (struct yaep_tree_node *root, int tracked)
{
  int i, isnew, first = 1;
  n_nrefs = 0;
  fprintf (out, "\"root\":%d,\"nodes\":[", node_id (root, &isnew));
  for (i = 0; i < n_nrefs && i < max_nodes; i++)
    {
      struct yaep_tree_node *n = nrefs[i].p;
      if (!first) fputc (',', out);
      first = 0;
      switch (n->type)
	{
	case YAEP_NIL: fprintf (out, "{\"k\":\"nil\"}"); break;
	case YAEP_ERROR: fprintf (out, "{\"k\":\"err\"}"); break;
	case YAEP_TERM:
	  fprintf (out, "{\"k\":\"term\",\"code\":%d,\"attr\":%ld}", n->val.term.code, attr_index (n->val.term.attr));
	  break;
	case YAEP_ANODE:
	  {
	    int j, nk = 0, inblk = -1;
	    fprintf (out, "{\"k\":\"anode\",\"name\":");
	    jstr (n->val.anode.name);
	    fprintf (out, ",\"cost\":%d,\"kids\":[", n->val.anode.cost);
	    for (j = 0; n->val.anode.children[j] != NULL; j++)
	      {
		if (j) fputc (',', out);
		fprintf (out, "%d", node_id (n->val.anode.children[j], &isnew));
		nk++;
	      }
	    fputc (']', out);
	    if (tracked)
	      {
		/* Is the NULL terminator inside the allocation that holds the array?  */
		int b;
		char *arr = (char *) n->val.anode.children;
		inblk = 0;
		for (b = 0; b < n_blocks; b++)
		  if (!blocks[b].freed && arr >= (char *) blocks[b].p
		      && arr + (nk + 1) * sizeof (struct yaep_tree_node *) <= (char *) blocks[b].p + blocks[b].size)
		    { inblk = 1; break; }
		fprintf (out, ",\"term_in_block\":%d", inblk);
		b = find_block ((void *) n->val.anode.name);
		fprintf (out, ",\"name_block\":%d", b);
	      }
	    fputc ('}', out);
	  }
	  break;
	case YAEP_ALT:
	  {
	    int a = node_id (n->val.alt.node, &isnew);
	    fprintf (out, "{\"k\":\"alt\",\"node\":%d,\"next\":", a);
	    if (n->val.alt.next == NULL) fprintf (out, "null}");
	    else fprintf (out, "%d}", node_id (n->val.alt.next, &isnew));
	  }
	  break;
	default:
	  fprintf (out, "{\"k\":\"bad\",\"type\":%d}", (int) n->type);
	}
    }
  fprintf (out, "],\"truncated\":%d", n_nrefs > max_nodes);
  if (tracked)
    {
      /* block id of every node */
      fprintf (out, ",\"node_blocks\":[");
      for (i = 0; i < n_nrefs && i < max_nodes; i++)
	fprintf (out, "%s%d", i ? "," : "", find_block (nrefs[i].p));
      fputc (']', out);
    }
}
/* Touch everything reachable (reads every node and name byte; ASan
   reports a use after free).  Returns a checksum so the reads are not
   optimised away.  */
static unsigned long walk_sum;
static void walk (struct yaep_tree_node *root)
{
  int i, isnew;
  n_nrefs = 0;
  node_id (root, &isnew);
  for (i = 0; i < n_nrefs; i++)
    {
      struct yaep_tree_node *n = nrefs[i].p;
      walk_sum += (unsigned long) n->type;
      switch (n->type)
	{
	case YAEP_TERM: walk_sum += (unsigned long) n->val.term.code + (uintptr_t) n->val.term.attr; break;
	case YAEP_ANODE:
	  {
	    int j; const char *s;
	    for (s = n->val.anode.name; *s; s++) walk_sum += (unsigned char) *s;
	    walk_sum += (unsigned long) n->val.anode.cost;
	    for (j = 0; n->val.anode.children[j] != NULL; j++) node_id (n->val.anode.children[j], &isnew);
	  }
	  break;
	case YAEP_ALT:
	  node_id (n->val.alt.node, &isnew);
	  if (n->val.alt.next) node_id (n->val.alt.next, &isnew);
	  break;
	default: break;
	}
    }
}

/* ------------------------------------------------------------------ */
/* API wrappers (C / C++).                                              */
#ifdef __cplusplus
#define G_NEW() (new yaep ())
#define G_FREE(g) delete (g)
#define G_ERRC(g) ((g)->error_code ())
#define G_ERRM(g) ((g)->error_message ())
#define G_READ(g, s, a, b) ((g)->read_grammar (s, a, b))
#define G_DESC(g, s, d) ((g)->parse_grammar (s, d))
#define G_PARSE(g, a, b, c, d, e, f) ((g)->parse (a, b, c, d, e, f))
#define G_FREE_TREE(r, f, t) yaep::free_tree (r, f, t)
static int g_set (gram_t g, int which, int v)
{
  switch (which)
    {
    case 0: return g->set_lookahead_level (v);
    case 1: return g->set_debug_level (v);
    case 2: return g->set_one_parse_flag (v);
    case 3: return g->set_cost_flag (v);
    case 4: return g->set_error_recovery_flag (v);
    default: return g->set_recovery_match (v);
    }
}
#else
#define G_NEW() yaep_create_grammar ()
#define G_FREE(g) yaep_free_grammar (g)
#define G_ERRC(g) yaep_error_code (g)
#define G_ERRM(g) yaep_error_message (g)
#define G_READ(g, s, a, b) yaep_read_grammar (g, s, a, b)
#define G_DESC(g, s, d) yaep_parse_grammar (g, s, d)
#define G_PARSE(g, a, b, c, d, e, f) yaep_parse (g, a, b, c, d, e, f)
#define G_FREE_TREE(r, f, t) yaep_free_tree (r, f, t)
static int g_set (gram_t g, int which, int v)
{
  switch (which)
    {
    case 0: return yaep_set_lookahead_level (g, v);
    case 1: return yaep_set_debug_level (g, v);
    case 2: return yaep_set_one_parse_flag (g, v);
    case 3: return yaep_set_cost_flag (g, v);
    case 4: return yaep_set_error_recovery_flag (g, v);
    default: return yaep_set_recovery_match (g, v);
    }
}
#endif

static void print_err (gram_t g)
{
  const char *m = G_ERRM (g);
  fprintf (out, "\"ec\":%d,\"em\":", G_ERRC (g));
  jstr (m);
  fprintf (out, ",\"emlen\":%lu", (unsigned long) strlen (m));
}

static void print_free_log (void)
{
  int i;
  fprintf (out, "\"frees\":[");
  for (i = 0; i < n_free_log; i++) fprintf (out, "%s%ld", i ? "," : "", free_log[i]);
  fputc (']', out);
  n_free_log = 0;
}

/* ------------------------------------------------------------------ */
/* One case, inside the child.  Returns when END is read.               */
static void run_case (void)
{
  char *t; int first = 1;
  while ((t = next_tok ()) != NULL && strcmp (t, "END") != 0)
    {
      fprintf (out, first ? "" : ",");
      first = 0;
      if (strcmp (t, "NEW") == 0)
	{
	  int s = (int) next_int ();
	  slots[s] = G_NEW ();
	  fprintf (out, "{\"op\":\"new\",\"ok\":%d", slots[s] != NULL);
	  if (slots[s] != NULL) { fputc (',', out); print_err (slots[s]); }
	  fputc ('}', out);
	}
      else if (strcmp (t, "SET") == 0)
	{
	  int s = (int) next_int (), w = (int) next_int (), v = (int) next_int ();
	  fprintf (out, "{\"op\":\"set\",\"old\":%d}", g_set (slots[s], w, v));
	}
      else if (strcmp (t, "READ") == 0)
	{
	  int s = (int) next_int (), strict = (int) next_int (), i, j, rc;
	  n_dterms = (int) next_int (); n_drules = (int) next_int ();
	  dterms = (struct dterm *) calloc (n_dterms + 1, sizeof (struct dterm));
	  drules = (struct drule *) calloc (n_drules + 1, sizeof (struct drule));
	  for (i = 0; i < n_dterms; i++)
	    { next_tok (); dterms[i].name = unhex (next_tok (), NULL); dterms[i].code = (int) next_int (); }
	  for (i = 0; i < n_drules; i++)
	    {
	      struct drule *r = &drules[i]; char *a;
	      next_tok ();
	      r->lhs = unhex (next_tok (), NULL);
	      r->nrhs = (int) next_int ();
	      r->rhs = (char **) calloc (r->nrhs + 1, sizeof (char *));
	      for (j = 0; j < r->nrhs; j++) r->rhs[j] = unhex (next_tok (), NULL);
	      a = next_tok ();
	      r->anode = strcmp (a, "-") == 0 ? NULL : unhex (a, NULL);
	      r->cost = (int) next_int ();
	      r->ntr = (int) next_int ();
	      r->tr = (int *) calloc (r->ntr > 0 ? r->ntr : 1, sizeof (int));
	      for (j = 0; j < r->ntr; j++) r->tr[j] = (int) next_int ();
	    }
	  cur_dterm = cur_drule = 0;
	  rc = G_READ (slots[s], strict, cb_read_terminal, cb_read_rule);
	  scrub_handed ();
	  for (i = 0; i < n_dterms; i++) free (dterms[i].name);
	  for (i = 0; i < n_drules; i++)
	    {
	      free (drules[i].lhs);
	      for (j = 0; j < drules[i].nrhs; j++) free (drules[i].rhs[j]);
	      free (drules[i].rhs); free (drules[i].anode); free (drules[i].tr);
	    }
	  free (dterms); free (drules); dterms = NULL; drules = NULL;
	  fprintf (out, "{\"op\":\"read\",\"rc\":%d,\"terms_read\":%d,\"rules_read\":%d,", rc, cur_dterm, cur_drule);
	  print_err (slots[s]);
	  fputc ('}', out);
	}
      else if (strcmp (t, "DESC") == 0)
	{
	  int s = (int) next_int (), strict = (int) next_int (), rc; size_t len; char *d, *exact;
	  d = unhex (next_tok (), &len);
	  /* exact-size buffer: an over-read of the text is seen by ASan */
	  exact = (char *) malloc (len + 1); memcpy (exact, d, len + 1); free (d);
	  rc = G_DESC (slots[s], strict, exact);
	  memset (exact, 0x5a, len + 1); free (exact);
	  fprintf (out, "{\"op\":\"desc\",\"rc\":%d,", rc);
	  print_err (slots[s]);
	  fputc ('}', out);
	}
      else if (strcmp (t, "PARSE") == 0)
	{
	  int s = (int) next_int (), mode = (int) next_int (), i, rc, amb = -7, blocks_before = n_blocks;
	  struct yaep_tree_node *root = (struct yaep_tree_node *) (uintptr_t) 0x77;
	  n_toks = (int) next_int ();
	  tok_codes = (int *) calloc (n_toks + 1, sizeof (int));
	  for (i = 0; i < n_toks; i++) tok_codes[i] = (int) next_int ();
	  cur_tok = 0; n_serrs = 0; n_free_log = 0; reads_after_end = 0;
	  cur_parse = n_parses;
	  rc = G_PARSE (slots[s], cb_read_token, cb_syntax_error,
			(mode == 0 || mode == 2) ? cb_parse_alloc : NULL,
			(mode == 0 || mode == 3) ? cb_parse_free : NULL, &root, &amb);
	  fprintf (out, "{\"op\":\"parse\",\"rc\":%d,\"amb\":%d,\"toks_read\":%d,\"reads_after_end\":%d,\"errs\":[", rc, amb, cur_tok > n_toks ? n_toks : cur_tok, reads_after_end);
	  for (i = 0; i < n_serrs; i++)
	    fprintf (out, "%s[%d,%ld,%d,%ld,%d,%ld]", i ? "," : "", serrs[i].tok, serrs[i].attr,
		     serrs[i].start, serrs[i].sattr, serrs[i].stop, serrs[i].eattr);
	  fprintf (out, "],");
	  print_err (slots[s]);
	  fprintf (out, ",\"parse\":%d,\"nallocs\":%d,\"first_block\":%d,", n_parses, n_blocks - blocks_before, blocks_before);
	  print_free_log ();
	  if (root == (struct yaep_tree_node *) (uintptr_t) 0x77) fprintf (out, ",\"root_untouched\":1");
	  else if (root == NULL) fprintf (out, ",\"root\":null");
	  else { fputc (',', out); print_dag (root, mode == 0 || mode == 2); }
	  fputc ('}', out);
	  if (n_parses < MAX_PARSES)
	    { roots[n_parses] = (root == (struct yaep_tree_node *) (uintptr_t) 0x77) ? NULL : root; root_mode[n_parses] = mode; n_parses++; }
	  free (tok_codes); tok_codes = NULL;
	}
      else if (strcmp (t, "EOFVAL") == 0)
	{
	  eof_value = (int) next_int ();
	  fprintf (out, "{\"op\":\"eofval\"}");
	}
      else if (strcmp (t, "WALK") == 0)
	{
	  int p = (int) next_int ();
	  if (roots[p] != NULL) walk (roots[p]);
	  fprintf (out, "{\"op\":\"walk\",\"sum\":%lu}", walk_sum % 1000);
	}
      else if (strcmp (t, "FREET") == 0)
	{
	  int p = (int) next_int (), cb = (int) next_int (), i, live = 0;
	  n_termcb = 0; n_free_log = 0;
	  G_FREE_TREE (roots[p], (root_mode[p] == 0) ? cb_parse_free : NULL, cb ? cb_term : NULL);
	  roots[p] = NULL;
	  for (i = 0; i < n_blocks; i++) if (blocks[i].parse == p && !blocks[i].freed) live++;
	  fprintf (out, "{\"op\":\"freet\",\"termcb\":%d,\"live_blocks\":%d,", n_termcb, live);
	  print_free_log ();
	  fputc ('}', out);
	}
      else if (strcmp (t, "FREEG") == 0)
	{
	  int s = (int) next_int ();
	  G_FREE (slots[s]); slots[s] = NULL;
	  fprintf (out, "{\"op\":\"freeg\"}");
	}
      else if (strcmp (t, "FREEG0IFANY") == 0)
	{
	  if (slots[0] != NULL) { G_FREE (slots[0]); slots[0] = NULL; }
	  fprintf (out, "{\"op\":\"freeg\"}");
	}
      else if (strcmp (t, "ERR") == 0)
	{
	  int s = (int) next_int ();
	  fprintf (out, "{\"op\":\"err\","); print_err (slots[s]); fputc ('}', out);
	}
      else if (strcmp (t, "FAILAT") == 0)
	{
	  long k = next_int ();
	  yv_fail_at = k < 0 ? -1 : yv_n_allocs + k;
	  if (k >= 0) yv_fail_seen = 0;
	  fprintf (out, "{\"op\":\"failat\"}");
	}
      else if (strcmp (t, "FAILBIG") == 0)
	{
	  /* FAILBIG k minsize: count the requests of at least minsize bytes from now on; the k-th fails (k < 0: none) */
	  long k = next_int ();
	  yv_big_min = next_int (); yv_n_big = 0; yv_big_fail = k;
	  if (k >= 0) yv_fail_seen = 0;
	  fprintf (out, "{\"op\":\"failat\"}");
	}
      else if (strcmp (t, "COUNTERS") == 0)
	{
	  fprintf (out, "{\"op\":\"counters\",\"allocs\":%ld,\"bytes\":%ld,\"fail_seen\":%ld,\"big\":%ld,\"live\":%ld", yv_n_allocs, yv_bytes, yv_fail_seen, yv_n_big, yv_live);
#ifndef __cplusplus
	  fprintf (out, ",\"searches\":%d,\"collisions\":%d", get_all_searches (), get_all_collisions ());
#endif
#ifdef YAEP_VERIF
	  { int w; fprintf (out, ",\"verif\":["); for (w = 0; w < 8; w++) fprintf (out, "%s%ld", w ? "," : "", yaep_verif_get (w)); fputc (']', out);
	    fprintf (out, ",\"stat\":["); for (w = 0; w < 8; w++) fprintf (out, "%s%ld", w ? "," : "", yaep_verif_stat (w)); fputc (']', out); }
#endif
	  fputc ('}', out);
	}
#ifdef YAEP_VERIF
      else if (strcmp (t, "VSET") == 0)
	{
	  int w = (int) next_int (); long v = next_int ();
	  yaep_verif_set (w, v);
	  fprintf (out, "{\"op\":\"vset\"}");
	}
#ifndef __cplusplus
      else if (strcmp (t, "SETS") == 0)
	{
	  /* SETS s: for every nonterminal of the grammar of slot s the flag `derives the empty string' and the
	     FIRST / FOLLOW sets (terminal codes) computed when the grammar was read (hook) */
	  int s = (int) next_int (), n, len, i, k;
	  static int sbuf[70000];
	  const char *nm;
	  fprintf (out, "{\"op\":\"sets\",\"nts\":[");
	  for (n = 0; (len = yaep_verif_sets (slots[s], n, &nm, sbuf, 70000)) >= 0; n++)
	    {
	      fprintf (out, "%s{\"name\":", n ? "," : ""); jstr (nm);
	      fprintf (out, ",\"empty\":%d,\"first\":[", sbuf[0]);
	      k = 1;
	      for (i = 0; i < sbuf[k]; i++) fprintf (out, "%s%d", i ? "," : "", sbuf[k + 1 + i]);
	      k += 1 + sbuf[k];
	      fprintf (out, "],\"follow\":[");
	      for (i = 0; i < sbuf[k]; i++) fprintf (out, "%s%d", i ? "," : "", sbuf[k + 1 + i]);
	      fprintf (out, "]}");
	    }
	  fprintf (out, "],\"end\":%d}", len);
	}
#endif
#endif
      else
	{
	  fprintf (stderr, "yv_driver: unknown op %s\n", t);
	  exit (3);
	}
      fflush (out);
    }
}

/* Skip to after the END of the current case (parent side).  */
static void skip_case (void)
{
  char *t;
  while ((t = next_tok ()) != NULL && strcmp (t, "END") != 0)
    ;
}

static void reset_case_state (void)
{
  int i;
  for (i = 0; i < MAX_SLOTS; i++) slots[i] = NULL;
  for (i = 0; i < MAX_PARSES; i++) roots[i] = NULL;
  n_parses = 0; n_blocks = 0; n_free_log = 0; n_serrs = 0; cur_parse = -1;
  yv_fail_at = -1; yv_fail_seen = 0; eof_value = -1; yv_big_min = 0; yv_n_big = 0; yv_big_fail = -1;
}

/* Print the kept diagnostic lines of a child's stderr.  */
static void print_stderr_lines (char *ebuf)
{
  char *line = ebuf, *nl; int kept = 0;
  printf (",\"stderr\":[");
  while (line && *line && kept < 6)
    {
      nl = strchr (line, '\n');
      if (nl) *nl = 0;
      if (strstr (line, "ERROR:") || strstr (line, "SUMMARY:") || strstr (line, "runtime error")
	  || strstr (line, "Assertion") || strstr (line, "    #0 ") || strstr (line, "    #1 ") || strstr (line, "    #2 "))
	{ if (kept) putchar (','); { FILE *sv = out; out = stdout; jstr (line); out = sv; } kept++; }
      line = nl ? nl + 1 : NULL;
    }
  printf ("]");
}

/* The parent forks a worker that runs up to BATCH cases in sequence; when
   the worker dies inside a case, that case gets an "abort" record and a new
   worker continues with the next case.  BATCH = 1 isolates every case.  */
int main (int argc, char **argv)
{
  FILE *f; long timeout_s = 20, batch = 1; int n_watchdog = 0, n_crash = 0;
  if (argc < 2) { fprintf (stderr, "usage: yv_driver script [timeout_s [batch]]\n"); return 2; }
  if (argc > 2) timeout_s = strtol (argv[2], NULL, 10);
  if (argc > 3) batch = strtol (argv[3], NULL, 10);
  if (batch < 1) batch = 1;
  f = fopen (argv[1], "rb");
  if (!f) { perror (argv[1]); return 2; }
  fseek (f, 0, SEEK_END); slen = (size_t) ftell (f); fseek (f, 0, SEEK_SET);
  script = (char *) malloc (slen + 1);
  if (fread (script, 1, slen, f) != slen) { perror ("read"); return 2; }
  script[slen] = 0; fclose (f);
  out = stdout;
  for (;;)
    {
      pid_t pid; int status; int pfd[2], efd[2]; size_t save;
      /* peek: is there another case?  */
      save = spos;
      {
	char *t = next_tok ();
	if (t == NULL) break;
	if (strcmp (t, "CASE") != 0) { fprintf (stderr, "yv_driver: expected CASE, got %s\n", t); return 3; }
	spos = save;
	/* next_tok wrote a NUL after CASE; harmless: tokens are re-read from SAVE */
      }
      fflush (stdout);
      if (n_watchdog >= 3 || n_crash >= 60)
	{
	  /* three cases of this script have hit the watchdog: the remaining ones are not run
	     (a change that makes every case hang must not make the run take hours) */
	  char *t = next_tok (), *id = next_tok ();
	  (void) t;
	  printf ("{\"id\":"); { FILE *sv = out; out = stdout; jstr (id ? id : "?"); out = sv; }
	  printf (",\"ops\":[],\"abort\":\"not run: %s\"}\n", n_watchdog >= 3 ? "three earlier cases of this run hit the watchdog"
		  : "sixty earlier cases of this run ended in a crash (a sanitizer report costs half a second each)");
	  while ((t = next_tok ()) != NULL && strcmp (t, "END") != 0)
	    ;
	  continue;
	}
      if (pipe (pfd) != 0 || pipe (efd) != 0) { perror ("pipe"); return 2; }
      pid = fork ();
      if (pid == 0)
	{
	  long k;
	  close (pfd[0]); close (efd[0]);
	  dup2 (efd[1], 2); close (efd[1]);
	  out = fdopen (pfd[1], "w");
	  for (k = 0; k < batch; k++)
	    {
	      char *t = next_tok (), *id;
	      if (t == NULL) break;
	      id = next_tok ();
	      fprintf (out, "@S %s\n", id); fflush (out);
	      alarm ((unsigned) timeout_s);
	      reset_case_state ();
	      fprintf (out, "@R ");
	      run_case ();
	      fprintf (out, "\n@E\n"); fflush (out);
	      alarm (0);
	    }
	  fclose (out);
	  exit (0);		/* LeakSanitizer (when enabled) runs here */
	}
      else
	{
	  char *obuf = NULL, *ebuf = NULL; size_t on = 0, en = 0, ocap = 0, ecap = 0; int oopen = 1, eopen = 1;
	  long done = 0; char *cur_id = NULL; char *line, *nl; int in_case = 0; char *ops = NULL;
	  close (pfd[1]); close (efd[1]);
	  while (oopen || eopen)
	    {
	      fd_set rs; int mx = 0; char tmp[65536]; ssize_t k;
	      FD_ZERO (&rs);
	      if (oopen) { FD_SET (pfd[0], &rs); if (pfd[0] > mx) mx = pfd[0]; }
	      if (eopen) { FD_SET (efd[0], &rs); if (efd[0] > mx) mx = efd[0]; }
	      if (select (mx + 1, &rs, NULL, NULL, NULL) < 0) { if (errno == EINTR) continue; break; }
	      if (oopen && FD_ISSET (pfd[0], &rs))
		{
		  k = read (pfd[0], tmp, sizeof tmp);
		  if (k <= 0) oopen = 0;
		  else { if (on + k + 1 > ocap) { ocap = (on + k + 1) * 2; obuf = (char *) realloc (obuf, ocap); } memcpy (obuf + on, tmp, k); on += k; }
		}
	      if (eopen && FD_ISSET (efd[0], &rs))
		{
		  k = read (efd[0], tmp, sizeof tmp);
		  if (k <= 0) eopen = 0;
		  else
		    {
		      if (en + k > 60000 && en > 8000) { size_t keep = 8000; memmove (ebuf, ebuf + en - keep, keep); en = keep; }
		      if (en + k + 1 > ecap) { ecap = (en + k + 1) * 2; ebuf = (char *) realloc (ebuf, ecap); }
		      memcpy (ebuf + en, tmp, k); en += k;
		    }
		}
	    }
	  close (pfd[0]); close (efd[0]);
	  waitpid (pid, &status, 0);
	  if (obuf) obuf[on] = 0;
	  if (ebuf) ebuf[en] = 0;
	  /* walk the worker's output */
	  line = obuf;
	  while (line && *line)
	    {
	      nl = strchr (line, '\n');
	      if (nl) *nl = 0;
	      if (strncmp (line, "@S ", 3) == 0) { cur_id = line + 3; in_case = 1; ops = NULL; }
	      else if (strncmp (line, "@R ", 3) == 0) ops = line + 3;
	      else if (strcmp (line, "@E") == 0 && in_case)
		{
		  printf ("{\"id\":"); { FILE *sv = out; out = stdout; jstr (cur_id); out = sv; }
		  printf (",\"ops\":[%s]}\n", ops ? ops : "");
		  in_case = 0; done++;
		}
	      line = nl ? nl + 1 : NULL;
	    }
	  if (in_case)
	    {
	      /* the worker died (or was killed by the watchdog) inside this case */
	      if (ops) { size_t l = strlen (ops); while (l > 0 && ops[l - 1] == ',') ops[--l] = 0; }
	      printf ("{\"id\":"); { FILE *sv = out; out = stdout; jstr (cur_id); out = sv; }
	      printf (",\"ops\":[%s]", ops ? ops : "");
	      /* after three watchdog timeouts the rest of the script runs with a short watchdog:
		 a change that makes every case hang must not make the run take hours */
	      if (WIFSIGNALED (status) && WTERMSIG (status) == SIGALRM) n_watchdog++;
	      else n_crash++;
	      if (WIFSIGNALED (status)) printf (",\"abort\":\"signal %d\"", WTERMSIG (status));
	      else printf (",\"abort\":\"exit %d\"", WIFEXITED (status) ? WEXITSTATUS (status) : -1);
	      if (ebuf) print_stderr_lines (ebuf);
	      printf ("}\n");
	      done++;
	    }
	  else if ((WIFSIGNALED (status) || (WIFEXITED (status) && WEXITSTATUS (status) != 0)) && done > 0)
	    {
	      /* all cases completed but the worker did not exit cleanly (leak report at exit) */
	      printf ("{\"id\":\"@exit\",\"after\":"); { FILE *sv = out; out = stdout; jstr (cur_id ? cur_id : ""); out = sv; }
	      /* after three watchdog timeouts the rest of the script runs with a short watchdog:
		 a change that makes every case hang must not make the run take hours */
	      if (WIFSIGNALED (status) && WTERMSIG (status) == SIGALRM) n_watchdog++;
	      if (WIFSIGNALED (status)) printf (",\"abort\":\"signal %d\"", WTERMSIG (status));
	      else printf (",\"abort\":\"exit %d\"", WEXITSTATUS (status));
	      if (ebuf) print_stderr_lines (ebuf);
	      printf ("}\n");
	    }
	  if (done == 0)
	    {
	      /* worker died before starting a case: skip one to guarantee progress */
	      char *t = next_tok (), *id;
	      (void) t; id = next_tok ();
	      printf ("{\"id\":"); { FILE *sv = out; out = stdout; jstr (id ? id : "?"); out = sv; }
	      printf (",\"ops\":[],\"abort\":\"worker died before the case\"}\n");
	      skip_case ();
	    }
	  else
	    {
	      long k;
	      for (k = 0; k < done; k++) { next_tok (); next_tok (); skip_case (); }
	    }
	  fflush (stdout);
	  free (obuf); free (ebuf);
	}
    }
  return 0;
}
