/* ct_driver: interpreter of operation sequences on the three containers
   (hash table, object stack, variable length object).  Compiles as C against
   hashtab.c / objstack.c / vlobject.c and as C++ against the .cpp classes.
   One case per line of the script; one JSON line per case.

   Case:  <id> <op>...   with ops (all integers):
     hash table:   HC size a m   create, hash (k) = m ? (k * a) % m : k * a
                   HF k          find               -> 1 present / 0 absent
                   HI k          insert if absent   -> 1 inserted / 0 was present
                   HR k          remove (caller guarantees presence)
                   HE            empty
                   HN            number of elements
                   HZ            table size
     object stack: OC len        create
                   OA n b0..     top add memory
                   OB b          top add byte
                   OX n          top expand by n (the harness fills the new bytes with 0xEE)
                   OS n          top shorten
                   ON            top nullify
                   OF            top finish        -> remembered as finished object #i
                   OE            empty (forgets finished objects)
                   OT            dump top object
                   OK            check + dump all finished objects (address and bytes)
     vlo:          VC len | VA n b0.. | VB b | VX n | VS n | VN | VT (tailor) | VD dump
*/
#include <stdio.h>
#include <stdlib.h>
#include <string.h>
#include "allocate.h"
#include "hashtab.h"
#include "objstack.h"
#include "vlobject.h"

static long ha, hm;
static unsigned hfun (hash_table_entry_t e) { long k = *(const int *) e; return (unsigned) (hm ? (k * ha) % hm : k * ha); }
static int heq (hash_table_entry_t a, hash_table_entry_t b) { return *(const int *) a == *(const int *) b; }
#define NKEYS 4096
static int keys[NKEYS];

static void alloc_err (void *p) { (void) p; fprintf (stderr, "ct_driver: out of memory\n"); exit (4); }

#ifdef __cplusplus
#define HT_FIND(t, e, r) ((t)->find_entry ((e), (r)))
#define HT_REMOVE(t, e) ((t)->remove_element_from_entry (e))
#define HT_EMPTY(t) ((t)->empty ())
#define HT_NUM(t) ((t)->elements_number ())
#define HT_SIZE(t) ((t)->size ())
#define HT_DELETE(t) delete (t)
#else
#define HT_FIND(t, e, r) find_hash_table_entry ((t), (e), (r))
#define HT_REMOVE(t, e) remove_element_from_hash_table_entry ((t), (e))
#define HT_EMPTY(t) empty_hash_table (t)
#define HT_NUM(t) hash_table_elements_number (t)
#define HT_SIZE(t) hash_table_size (t)
#define HT_DELETE(t) delete_hash_table (t)
#endif

struct fin { char *addr; int len; unsigned char *copy; };

int main (int argc, char **argv)
{
  FILE *f; char *line = NULL; size_t cap = 0; ssize_t n;
  YaepAllocator *al = yaep_alloc_new (NULL, NULL, NULL, NULL);
  int i;
  yaep_alloc_seterr (al, alloc_err, NULL);
  for (i = 0; i < NKEYS; i++) keys[i] = i;
  if (argc < 2) return 2;
  f = fopen (argv[1], "r");
  if (!f) return 2;
  while ((n = getline (&line, &cap, f)) > 0)
    {
      char *tok = strtok (line, " \n"); int first = 1;
      hash_table_t ht = NULL;
#ifdef __cplusplus
      os_t *os = NULL; vlo_t *vlo = NULL;
#else
      os_t os; vlo_t vlo; int os_live = 0, vlo_live = 0;
#endif
      struct fin fins[512]; int nfin = 0;
      if (!tok) continue;
      printf ("{\"id\":\"%s\",\"out\":[", tok);
#define NEXT() strtol (strtok (NULL, " \n"), NULL, 10)
#define OUT(...) do { if (!first) putchar (','); first = 0; printf (__VA_ARGS__); } while (0)
      while ((tok = strtok (NULL, " \n")) != NULL)
	{
	  if (!strcmp (tok, "HC"))
	    {
	      long size = NEXT (); ha = NEXT (); hm = NEXT ();
#ifdef __cplusplus
	      ht = new hash_table (al, size, hfun, heq);
#else
	      ht = create_hash_table (al, size, hfun, heq);
#endif
	    }
	  else if (!strcmp (tok, "HF"))
	    { long k = NEXT (); hash_table_entry_t *e = HT_FIND (ht, &keys[k], 0); OUT ("%d", *e != NULL && *e != (hash_table_entry_t) 1 ? (*(const int *) *e == k ? 1 : -1) : 0); }
	  else if (!strcmp (tok, "HI"))
	    {
	      long k = NEXT (); hash_table_entry_t *e = HT_FIND (ht, &keys[k], 1);
	      /* the documented protocol: an entry that does not hold an element equal to the key is free for it */
	      if (*e == NULL) { *e = &keys[k]; OUT ("1"); }
	      else if (*e == (hash_table_entry_t) 1) { OUT ("-2"); *e = &keys[k]; }	/* a deleted marker handed out as if it were an element */
	      else OUT ("%d", *(const int *) *e == k ? 0 : -1);
	    }
	  else if (!strcmp (tok, "HR")) { long k = NEXT (); HT_REMOVE (ht, &keys[k]); }
	  else if (!strcmp (tok, "HE")) HT_EMPTY (ht);
	  else if (!strcmp (tok, "HN")) OUT ("%lu", (unsigned long) HT_NUM (ht));
	  else if (!strcmp (tok, "HZ")) OUT ("%lu", (unsigned long) HT_SIZE (ht));
#ifdef __cplusplus
	  else if (!strcmp (tok, "OC")) { long l = NEXT (); os = new os_t (al, l); nfin = 0; }
	  else if (!strcmp (tok, "OA")) { long m = NEXT (), j; unsigned char b[4096]; for (j = 0; j < m; j++) b[j] = (unsigned char) NEXT (); os->top_add_memory (b, m); }
	  else if (!strcmp (tok, "OB")) { long b = NEXT (); os->top_add_byte ((char) b); }
	  else if (!strcmp (tok, "OG")) { long m = NEXT (), j; char b[4100]; for (j = 0; j < m; j++) b[j] = (char) NEXT (); b[m] = 0; os->top_add_string (b); }
	  else if (!strcmp (tok, "OX")) { long m = NEXT (); os->top_expand (m); memset ((char *) os->top_bound () - m, 0xEE, m); }
	  else if (!strcmp (tok, "OS")) { long m = NEXT (); os->top_shorten (m); }
	  else if (!strcmp (tok, "ON")) os->top_nullify ();
	  else if (!strcmp (tok, "OF"))
	    {
	      int len = (int) os->top_length ();
	      fins[nfin].addr = (char *) os->top_begin (); fins[nfin].len = len;
	      fins[nfin].copy = (unsigned char *) malloc (len + 1); memcpy (fins[nfin].copy, os->top_begin (), len); nfin++;
	      os->top_finish ();
	    }
	  else if (!strcmp (tok, "OE")) { os->empty (); for (i = 0; i < nfin; i++) free (fins[i].copy); nfin = 0; }
	  else if (!strcmp (tok, "OT"))
	    { int len = (int) os->top_length (), j; unsigned char *p = (unsigned char *) os->top_begin (); OUT ("["); for (j = 0; j < len; j++) printf ("%s%d", j ? "," : "", p[j]); printf ("]"); }
#else
	  else if (!strcmp (tok, "OC")) { long l = NEXT (); OS_CREATE (os, al, l); os_live = 1; nfin = 0; }
	  else if (!strcmp (tok, "OA")) { long m = NEXT (), j; unsigned char b[4096]; for (j = 0; j < m; j++) b[j] = (unsigned char) NEXT (); OS_TOP_ADD_MEMORY (os, b, m); }
	  else if (!strcmp (tok, "OB")) { long b = NEXT (); OS_TOP_ADD_BYTE (os, (char) b); }
	  else if (!strcmp (tok, "OG")) { long m = NEXT (), j; char b[4100]; for (j = 0; j < m; j++) b[j] = (char) NEXT (); b[m] = 0; OS_TOP_ADD_STRING (os, b); }
	  else if (!strcmp (tok, "OX")) { long m = NEXT (); OS_TOP_EXPAND (os, m); memset ((char *) OS_TOP_BOUND (os) - m, 0xEE, m); }
	  else if (!strcmp (tok, "OS")) { long m = NEXT (); OS_TOP_SHORTEN (os, m); }
	  else if (!strcmp (tok, "ON")) OS_TOP_NULLIFY (os);
	  else if (!strcmp (tok, "OF"))
	    {
	      int len = (int) OS_TOP_LENGTH (os);
	      fins[nfin].addr = (char *) OS_TOP_BEGIN (os); fins[nfin].len = len;
	      fins[nfin].copy = (unsigned char *) malloc (len + 1); memcpy (fins[nfin].copy, OS_TOP_BEGIN (os), len); nfin++;
	      OS_TOP_FINISH (os);
	    }
	  else if (!strcmp (tok, "OE")) { OS_EMPTY (os); for (i = 0; i < nfin; i++) free (fins[i].copy); nfin = 0; }
	  else if (!strcmp (tok, "OT"))
	    { int len = (int) OS_TOP_LENGTH (os), j; unsigned char *p = (unsigned char *) OS_TOP_BEGIN (os); OUT ("["); for (j = 0; j < len; j++) printf ("%s%d", j ? "," : "", p[j]); printf ("]"); }
#endif
	  else if (!strcmp (tok, "OK"))
	    {
	      /* every finished object must still be where it was, with the bytes it had (reads under ASan) */
	      int bad = 0, j;
	      OUT ("[");
	      for (i = 0; i < nfin; i++)
		{
		  if (memcmp (fins[i].addr, fins[i].copy, fins[i].len) != 0) bad++;
		  printf ("%s[", i ? "," : "");
		  for (j = 0; j < fins[i].len; j++) printf ("%s%d", j ? "," : "", (unsigned char) fins[i].addr[j]);
		  printf ("]");
		}
	      printf ("]");
	      OUT ("%d", bad);
	    }
#ifdef __cplusplus
	  else if (!strcmp (tok, "VC")) { long l = NEXT (); vlo = new vlo_t (al, l); }
	  else if (!strcmp (tok, "VA")) { long m = NEXT (), j; unsigned char b[4096]; for (j = 0; j < m; j++) b[j] = (unsigned char) NEXT (); vlo->add_memory (b, m); }
	  else if (!strcmp (tok, "VB")) { long b = NEXT (); vlo->add_byte ((char) b); }
	  else if (!strcmp (tok, "VG")) { long m = NEXT (), j; char b[4100]; for (j = 0; j < m; j++) b[j] = (char) NEXT (); b[m] = 0; vlo->add_string (b); }
	  else if (!strcmp (tok, "VX")) { long m = NEXT (); vlo->expand (m); memset ((char *) vlo->bound () - m, 0xEE, m); }
	  else if (!strcmp (tok, "VS")) { long m = NEXT (); vlo->shorten (m); }
	  else if (!strcmp (tok, "VN")) vlo->nullify ();
	  else if (!strcmp (tok, "VT")) vlo->tailor ();
	  else if (!strcmp (tok, "VD"))
	    { int len = (int) vlo->length (), j; unsigned char *p = (unsigned char *) vlo->begin (); OUT ("["); for (j = 0; j < len; j++) printf ("%s%d", j ? "," : "", p[j]); printf ("]"); }
#else
	  else if (!strcmp (tok, "VC")) { long l = NEXT (); VLO_CREATE (vlo, al, l); vlo_live = 1; }
	  else if (!strcmp (tok, "VA")) { long m = NEXT (), j; unsigned char b[4096]; for (j = 0; j < m; j++) b[j] = (unsigned char) NEXT (); VLO_ADD_MEMORY (vlo, b, m); }
	  else if (!strcmp (tok, "VB")) { long b = NEXT (); VLO_ADD_BYTE (vlo, (char) b); }
	  else if (!strcmp (tok, "VG")) { long m = NEXT (), j; char b[4100]; for (j = 0; j < m; j++) b[j] = (char) NEXT (); b[m] = 0; VLO_ADD_STRING (vlo, b); }
	  else if (!strcmp (tok, "VX")) { long m = NEXT (); VLO_EXPAND (vlo, m); memset ((char *) VLO_BOUND (vlo) - m, 0xEE, m); }
	  else if (!strcmp (tok, "VS")) { long m = NEXT (); VLO_SHORTEN (vlo, m); }
	  else if (!strcmp (tok, "VN")) VLO_NULLIFY (vlo);
	  else if (!strcmp (tok, "VT")) VLO_TAILOR (vlo);
	  else if (!strcmp (tok, "VD"))
	    { int len = (int) VLO_LENGTH (vlo), j; unsigned char *p = (unsigned char *) VLO_BEGIN (vlo); OUT ("["); for (j = 0; j < len; j++) printf ("%s%d", j ? "," : "", p[j]); printf ("]"); }
#endif
	  else { fprintf (stderr, "ct_driver: unknown op %s\n", tok); return 3; }
	}
      printf ("]}\n");
      fflush (stdout);
      if (ht) HT_DELETE (ht);
#ifdef __cplusplus
      if (os) delete os;
      if (vlo) delete vlo;
#else
      if (os_live) OS_DELETE (os);
      if (vlo_live) VLO_DELETE (vlo);
#endif
      for (i = 0; i < nfin; i++) free (fins[i].copy);
    }
  yaep_alloc_del (al);
  return 0;
}
