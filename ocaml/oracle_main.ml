(* oracle: line-oriented front end of the extracted, verified deciders.
   One query per input line (space separated integers after the keyword),
   one answer per output line.  Only parsing and printing live here. *)
open Core

let rec nat_of_int n = if n <= 0 then O else S (nat_of_int (n - 1))
let rec int_of_nat = function O -> 0 | S n -> 1 + int_of_nat n
let rec pos_of_int n = if n <= 1 then XH else if n land 1 = 1 then XI (pos_of_int (n lsr 1)) else XO (pos_of_int (n lsr 1))
let z_of_int n = if n = 0 then Z0 else if n > 0 then Zpos (pos_of_int n) else Zneg (pos_of_int (-n))
let rec int_of_pos = function XH -> 1 | XO p -> 2 * int_of_pos p | XI p -> 2 * int_of_pos p + 1
let int_of_z = function Z0 -> 0 | Zpos p -> int_of_pos p | Zneg p -> - (int_of_pos p)

(* token stream over the integers of a line *)
let toks = ref [||]
let pos = ref 0
let next () = let v = !toks.(!pos) in incr pos; v
let rec times n f = if n <= 0 then [] else let x = f () in x :: times (n - 1) f

let read_sym () = let v = next () in if v land 1 = 0 then T (nat_of_int (v / 2)) else N (nat_of_int (v / 2))

(* grammar: nrules (lhs nrhs sym* anode cost nslots slot* )* *)
let read_trule () =
  let l = next () in
  let n = next () in
  let rhs = times n read_sym in
  let an = next () in
  let cost = next () in
  let ns = next () in
  let slots = times ns (fun () -> let s = next () in if s = 0 then None else Some (nat_of_int (s - 1))) in
  { t_lhs = nat_of_int l; tr_rhs = rhs;
    tr_anode = (if an = 0 then None else Some (nat_of_int (an - 1), z_of_int cost)); tr_slots = slots }
let read_tgrammar () = let n = next () in times n read_trule

let rec show_tree b = function
  | Nil -> Buffer.add_char b 'N'
  | Err -> Buffer.add_char b 'E'
  | Term (c, a) -> Buffer.add_string b (Printf.sprintf "T%d@%d" (int_of_z c) (int_of_nat a))
  | Anode (nm, c, ks) ->
      Buffer.add_string b (Printf.sprintf "A%d:%d(" (int_of_nat nm) (int_of_z c));
      List.iteri (fun i k -> if i > 0 then Buffer.add_char b ','; show_tree b k) ks;
      Buffer.add_char b ')'
let tree_str t = let b = Buffer.create 64 in show_tree b t; Buffer.contents b

let read_dnode () =
  match next () with
  | 0 -> DNil
  | 1 -> DErr
  | 2 -> let c = next () in let a = next () in DTerm (z_of_int c, nat_of_int a)
  | 3 -> let nm = next () in let c = next () in let nk = next () in
         let ks = times nk (fun () -> nat_of_int (next ())) in DAnode (nat_of_int nm, z_of_int c, ks)
  | _ -> let n = next () in let nx = next () in
         DAlt (nat_of_int n, (if nx = 0 then None else Some (nat_of_int (nx - 1))))

let b2s b = if b then "1" else "0"

let answer kw =
  match kw with
  | "REC" ->
      let g = List.map strip (read_tgrammar ()) in
      let start = nat_of_int (next ()) in
      let n = next () in
      let w = times n (fun () -> nat_of_int (next ())) in
      (match recognize g start w with Some true -> "1" | Some false -> "0" | None -> "none")
  | "SHIFT" ->
      (* grammar start ntoks toks -> number of leading tokens that can be shifted, accepted flag *)
      let g = List.map strip (read_tgrammar ()) in
      let start = nat_of_int (next ()) in
      let n = next () in
      let w = times n (fun () -> nat_of_int (next ())) in
      (match shift_count g start w with
       | Some (k, acc) -> string_of_int (int_of_nat k) ^ " " ^ b2s acc
       | None -> "none")
  | "TRANSA" ->
      (* as TRANS, with an explicit attribute per token *)
      let fuel = nat_of_int (next ()) in
      let g = read_tgrammar () in
      let nc = next () in
      let codes = times nc (fun () -> z_of_int (next ())) in
      let t_err = nat_of_int (next ()) in
      let start = nat_of_int (next ()) in
      let n = next () in
      let w = times n (fun () -> nat_of_int (next ())) in
      let attrs = times n (fun () -> nat_of_int (next ())) in
      (match all_translations_a fuel g codes t_err start w attrs with
       | None -> "none"
       | Some l -> "ok|" ^ String.concat ";" (List.map (fun t -> tree_str t ^ "=" ^ string_of_int (int_of_z (tcost t))) l))
  | "TRANS" ->
      let fuel = nat_of_int (next ()) in
      let g = read_tgrammar () in
      let nc = next () in
      let codes = times nc (fun () -> z_of_int (next ())) in
      let t_err = nat_of_int (next ()) in
      let start = nat_of_int (next ()) in
      let n = next () in
      let w = times n (fun () -> nat_of_int (next ())) in
      (match all_translations fuel g codes t_err start w with
       | None -> "none"
       | Some l -> "ok|" ^ String.concat ";" (List.map (fun t -> tree_str t ^ "=" ^ string_of_int (int_of_z (tcost t))) l))
  | "TRANSF" ->
      (* as TRANS, on the full-information variant of the grammar (FullInfo.full): the derivation trees *)
      let fuel = nat_of_int (next ()) in
      let g = read_tgrammar () in
      let nc = next () in
      let codes = times nc (fun () -> z_of_int (next ())) in
      let t_err = nat_of_int (next ()) in
      let start = nat_of_int (next ()) in
      let n = next () in
      let w = times n (fun () -> nat_of_int (next ())) in
      (match all_translations fuel (full g) codes t_err start w with
       | None -> "none"
       | Some l -> "ok|" ^ String.concat ";" (List.map (fun t -> tree_str t ^ "=" ^ string_of_int (int_of_z (tcost t))) l))
  | "SIMPLEMIN" ->
      (* grammar start err e m ntoks toks -> least cost of a successful simple recovery: "none" | "inf" | cost *)
      let g = List.map strip (read_tgrammar ()) in
      let start = nat_of_int (next ()) in
      let err = nat_of_int (next ()) in
      let e = nat_of_int (next ()) in
      let m = nat_of_int (next ()) in
      let n = next () in
      let w = times n (fun () -> nat_of_int (next ())) in
      (match min_simple_cost g start err w e m with
       | None -> "none"
       | Some None -> "inf"
       | Some (Some c) -> string_of_int (int_of_nat c))
  | "DENOTE" ->
      let fuel = nat_of_int (next ()) in
      let root = nat_of_int (next ()) in
      let nn = next () in
      let st = times nn read_dnode in
      let flags = b2s (acyclic_b st) ^ " " ^ b2s (altflat_b st) ^ " " ^ b2s (has_alt_b st) in
      if not (acyclic_b st) then "cyclic|" ^ flags else
      (match denote st root with
       | None -> "none|" ^ flags
       | Some l ->
           "ok|" ^ flags ^ "|" ^ String.concat ";" (List.map tree_str l) ^ "|" ^
           String.concat ";" (List.map (fun t -> match uncum t with Some t' -> tree_str t' ^ "=" ^ string_of_int (int_of_z (tcost t')) | None -> "-") l))
  | "FFCLOSED" ->
      (* grammar start nnt then per nonterminal: nullable nfirst first* nfollow follow* (a follow element 0 = end of input,
         t + 1 = terminal t) -> 1 when the sets are closed under the rules *)
      let g = List.map strip (read_tgrammar ()) in
      let start = nat_of_int (next ()) in
      let nnt = next () in
      let rows = times nnt (fun () ->
        let e = next () in
        let nf = next () in let fi = times nf (fun () -> nat_of_int (next ())) in
        let no = next () in let fo = times no (fun () -> let v = next () in if v = 0 then None else Some (nat_of_int (v - 1))) in
        (e, fi, fo)) in
      let nl = List.concat (List.mapi (fun i (e, _, _) -> if e <> 0 then [nat_of_int i] else []) rows) in
      b2s (closed_tbl g start nl (List.map (fun (_, f, _) -> f) rows) (List.map (fun (_, _, f) -> f) rows))
  | "PRUNE" ->
      (* one root n nodes: the least cost and the trees (own costs) of the DAG after minimal cost pruning *)
      let one = next () <> 0 in
      let root = nat_of_int (next ()) in
      let nn = next () in
      let st = times nn read_dnode in
      if not (acyclic_b st) then "cyclic" else
      (match prune_denote st one root with
       | None -> "none"
       | Some (m, l) -> "ok|" ^ string_of_int (int_of_z m) ^ "|" ^ String.concat ";" (List.map tree_str l))
  | "FREETREE" ->
      (* fuel root n nodes: what yaep_free_tree passes to parse_free (nodes, names) and how often it calls the terminal callback *)
      let fuel = nat_of_int (next ()) in
      let root = nat_of_int (next ()) in
      let nn = next () in
      let st = times nn read_dnode in
      (match free_counts st fuel root with
       | None -> "none"
       | Some ((a, b), c) -> Printf.sprintf "%d %d %d" (int_of_nat a) (int_of_nat b) (int_of_nat c))
  | "API" ->
      (* n then n ops: slot kind args ; kind 0: set i x | 1: define gid code | 2: parse na inv | 3: errcode *)
      let n = next () in
      let ops = times n (fun () ->
        let k = nat_of_int (next ()) in
        let kind = next () in
        let o = (match kind with
          | 0 -> let i = next () in let x = next () in OSet (nat_of_int i, z_of_int x)
          | 1 -> let gid = next () in let c = next () in ODefine (nat_of_int gid, z_of_int c)
          | 2 -> let na = next () in let inv = next () in OParse (na <> 0, inv <> 0)
          | _ -> OErrCode) in
        (k, o)) in
      let (_, rs) = mrun [] ops in
      String.concat " " (List.map (fun z -> string_of_int (int_of_z z)) rs)
  | "HT" ->
      (* size a m nops then ops: 0 find k | 1 insert k | 2 remove k | 3 empty | 4 num | 5 size *)
      let sz = next () in let a = next () in let m = next () in
      let n = next () in
      let ops = times n (fun () -> match next () with
        | 0 -> HFind (nat_of_int (next ())) | 1 -> HInsert (nat_of_int (next ())) | 2 -> HRemove (nat_of_int (next ()))
        | 3 -> HEmpty | 4 -> HNum | _ -> HSize) in
      (match create (nat_of_int sz) (nat_of_int a) (nat_of_int m) with
       | None -> "none"
       | Some t -> (match hrun t ops with
           | None -> "none"
           | Some rs -> String.concat " " (List.concat_map (fun r -> match r with Some v -> [string_of_int (int_of_nat v)] | None -> []) rs)))
  | "VLO" ->
      (* len nops then ops: 0 add n bytes | 1 expand n | 2 shorten n | 3 nullify | 4 tailor | 5 dump *)
      let len = next () in let n = next () in
      let ops = times n (fun () -> match next () with
        | 0 -> let m = next () in VAdd (times m (fun () -> nat_of_int (next ())))
        | 1 -> VExpand (nat_of_int (next ())) | 2 -> VShorten (nat_of_int (next ())) | 3 -> VNullify | 4 -> VTailor | _ -> VDump) in
      let outs = vrun (vcreate (nat_of_int len)) ops in
      String.concat ";" (List.map (fun l -> String.concat "," (List.map (fun b -> string_of_int (int_of_nat b)) l)) outs)
  | "OS" ->
      (* len nops then ops: 0 add n bytes | 1 expand n | 2 shorten n | 3 nullify | 4 finish | 5 empty | 6 dumptop | 7 check *)
      let len = next () in let n = next () in
      let ops = times n (fun () -> match next () with
        | 0 -> let m = next () in OAdd (times m (fun () -> nat_of_int (next ())))
        | 1 -> OExpand (nat_of_int (next ())) | 2 -> OShorten (nat_of_int (next ())) | 3 -> ONullify | 4 -> OFinish
        | 5 -> OEmpty | 6 -> ODumpTop | _ -> OCheck) in
      let outs = orun (ocreate (nat_of_int len)) ops in
      String.concat "|" (List.map (fun ll -> String.concat ";" (List.map (fun l -> String.concat "," (List.map (fun b -> string_of_int (int_of_nat b)) l)) ll)) outs)
  | "RG" ->
      (* strict, terms (name code), rules (lhs nrhs rhs.. anode cost ntr tr..) -> model code, well-formed, defect_b for codes 4..16 *)
      let strict = next () <> 0 in
      let nt = next () in
      let terms = times nt (fun () -> let n = next () in let c = next () in (nat_of_int n, z_of_int c)) in
      let nr = next () in
      let rules = times nr (fun () ->
        let l = next () in let n = next () in
        let rhs = times n (fun () -> nat_of_int (next ())) in
        let an = next () in let cost = next () in
        let k = next () in
        let tr = times k (fun () -> z_of_int (next ())) in
        { r_lhs = nat_of_int l; r_rhs = rhs; r_anode = (an <> 0); r_cost = z_of_int cost; r_transl = tr }) in
      let code = int_of_z (read_model strict terms rules) in
      let wf = well_formed_b strict terms rules in
      let ds = List.map (fun c -> b2s (defect_b strict terms rules (z_of_int c))) [4;5;6;7;8;9;10;11;12;13;14;15;16] in
      string_of_int code ^ " " ^ b2s wf ^ " " ^ String.concat "" ds
  | "DESC" ->
      (* n bytes -> syntax | repeated | ok|name:code,...|lhs>sym sym>anode>cost>tr tr;...   (names in hex) *)
      let n = next () in
      let text = times n (fun () -> nat_of_int (next ())) in
      let hex l = String.concat "" (List.map (fun b -> Printf.sprintf "%02x" (int_of_nat b)) l) in
      (match desc_model text with
       | DSyntax -> "syntax"
       | DRepeatedCode -> "repeated"
       | DOk (ts, rs) ->
           "ok|" ^ String.concat "," (List.map (fun (nm, c) -> "x" ^ hex nm ^ ":" ^ string_of_int (int_of_z c)) ts) ^ "|" ^
           String.concat ";" (List.map (fun r ->
             "x" ^ hex r.s_lhs ^ ">" ^ String.concat " " (List.map (fun s -> "x" ^ hex s) r.s_rhs) ^ ">" ^
             (match r.s_anode with Some a -> "x" ^ hex a | None -> "-") ^ ">" ^ string_of_int (int_of_z r.s_cost) ^ ">" ^
             String.concat " " (List.map (fun z -> string_of_int (int_of_z z)) r.s_trans)) rs))
  | _ -> "error unknown query " ^ kw

exception Timeout
let query_timeout = try int_of_string (Sys.getenv "ORACLE_QUERY_TIMEOUT") with _ -> 10

let () =
  Sys.set_signal Sys.sigalrm (Sys.Signal_handle (fun _ -> raise Timeout));
  try
    while true do
      let line = input_line stdin in
      let parts = List.filter (fun s -> s <> "") (String.split_on_char ' ' (String.trim line)) in
      match parts with
      | [] -> print_endline "error empty"
      | kw :: rest ->
          toks := Array.of_list (List.map int_of_string rest);
          pos := 0;
          (* a query that exceeds the time limit is answered "none": the case is then not evaluated (and counted) *)
          ignore (Unix.alarm query_timeout);
          let a = (try answer kw with
                   | Invalid_argument _ -> "error short query"
                   | Stack_overflow -> "error stack overflow"
                   | Timeout -> "none") in
          ignore (Unix.alarm 0);
          print_endline a
    done
  with End_of_file -> ()
